"""C15 — ODE solvers return the solution of the stated problem under any coordinate transformation."""
import contextlib
import importlib
import math
import signal

import numpy as np

from ..common import Ctx, Tokens, close, driver_batch, f2b, fvec

LEVEL = "proof"
LEVEL_TEXT = (
    "PROOF (Lean, over the reals, abstract transform with HasDerivAt hypotheses, orders 1-3, arbitrary coefficient "
    "functions): the whole of ode.py that the property touches is regenerated from the source on every run - the "
    "coefficient arithmetic of _transform_ode_from_derivs, the loop nest of _derivative_transformation_matrix, the fold "
    "of _rearrange_to_explicit_ode, _evaluate_coeffs_on_points, the composition _transform_and_rearrange_to_explicit_ode, "
    "and (round 2) the bodies of solve_ode_ivp and solve_ode_bvp with their nested callbacks func / bc (guards, "
    "x_span = transform.transform(...), the mapping of the initial data y0 through solve(deriv, y0[1:]), evaluation of the "
    "coefficients and of fx at transform.inverse(x), the choice of the returned object) and of "
    "_transform_solution_to_original_domain (no_derivatives, the back-transformation of the returned derivatives at pt[i]); "
    "SciPy's solve_ivp / solve_bvp / linalg.solve are named parameters with stated contracts. For that text: "
    "Faa di Bruno to order 3; the transformed ODE with the code's b_j is equivalent to the original one; the "
    "derivative matrix is the lower-triangular Bell matrix, maps r-derivatives to x-derivatives, is invertible iff "
    "g' != 0, and the initial-data mapping and the back-transformation are mutually inverse; "
    "the explicit form (any order); the boundary-condition callback; what solve_ode_ivp / solve_ode_bvp hand to SciPy, "
    "return and reject; and, end to end for the whole functions, IF the SciPy integrator returns "
    "an exact solution of the first-order system it is handed (and linalg.solve a solution of its linear system), the "
    "callable returned by solve_ode_ivp/solve_ode_bvp "
    "has rows y, y', y'' with respect to the ORIGINAL variable, solves the stated ODE and meets the prescribed "
    "initial/boundary conditions (solve_ode_ivp_correct3, solve_ode_bvp_correct3); and 'through a transform == directly' "
    "(through_transform_eq_direct: with exact "
    "integrators on both routes and continuous coefficients the returned rows coincide on the whole interval; "
    "uniqueness of linear initial-value problems via Mathlib's Gronwall lemma; orders 1, 2, 3). "
    "EXPLORATION (not a proof): the accuracy clause - that SciPy's solve_ivp/solve_bvp actually deliver the solution "
    "within the solver tolerance - is tested with manufactured solutions (random smooth y, random coefficient "
    "functions/constants, orders 1-3, several IVP methods, BVP, directly and through 15+ transforms incl. "
    "Knowles k=2,3 and HandyMod m=2,3), comparing values and derivatives with the exact ones, checking the "
    "prescribed conditions and 'through transform == direct'. The hand-written remainder of the model (SymPy bell, "
    "NumPy plumbing, forward substitution) and the generated text at Float are tied by correspondence, including the "
    "callbacks and initial data captured from solve_ode_ivp/solve_ode_bvp with SciPy's integrators replaced by a recorder, "
    "and the whole functions with the integrators replaced by a stub (guards, return branch, no_derivatives). "
    "ROUND 3: also carried from the source are the test of the warning block of _rearrange_to_explicit_ode (the block must "
    "consist of the one warnings.warn call; proved: it fires at a vanishing leading coefficient, and inside the window the "
    "value still is the explicit form with the true leading coefficient), the Bell-polynomial loop of "
    "_transform_ode_from_derivs for orders above three (proved: a no-op up to order three, the any-order text restricted to "
    "orders 1-3 is the text of the other theorems) and the defaults of the two signatures (proved: solve_ode_ivp returns the "
    "derivative rows by default, solve_ode_bvp the solution only; the default tolerances are positive and not looser than "
    "the ones the envelopes were measured for); proved for the generated explicit form and callbacks: invariance under "
    "multiplication of the whole equation by any s != 0, amplitude homogeneity and additivity. Exploration added: equations "
    "multiplied through by 1e-12 .. 1e12 (leading coefficient on both sides of the 1e-10 of the warning), transforms with "
    "derivative 1e-6 .. 1e6, intervals of length 1e-6 (problems living on the scale of the interval), amplitude homogeneity "
    "(bit-exact for powers of two when atol is scaled along; inside the measured envelope of the default tolerances "
    "otherwise) and additivity, two/three-node meshes, the first call of a fresh interpreter with non-default options, "
    "in-place edits of the arrays handed out by the returned callable, earlier callables re-used after later solves. "
    "The hypothesis 'admissible transform' of all these theorems is discharged for the library's HandyRTransform as generated "
    "from rtransform.py (handy_admissible, handy_deriv_ne_zero: every accepted m, R > 0, trim_inf on or off, the whole open "
    "domain - C03's derivative identities, which need that _convert_inf replaces nothing but +-inf); explored: intervals "
    "ending 1e-2 .. 1e-4 from either end of the domain of every trimming transform (Handy m = 1..4, HandyMod, Becke, Knowles, "
    "MultiExp; trim_inf True / False / default), orders 1-3, through the transform against the exact solution and the direct "
    "solve, where the second and third derivative of the map are finite but exceed 1e16. "
    "ROUND 4 (generators only): every audited callable (every transform x orders 1-3 x IVP / BVP, derivatives requested and not) is "
    "also evaluated on descending arrays, views with negative / non-unit stride, read-only arrays, arrays with duplicates and with "
    "all points equal, 1 / 2 / `order` points, single-precision points, and on lists, tuples, 0-d arrays, Python floats, 2-D "
    "shapes with unequal dimensions and empty arrays (an answer that is given must be right, column by column equal to the "
    "evaluation of the same callable on the sorted distinct points); transform parameters as Python ints / NumPy integers / "
    "np.float64 / 0-d arrays (bit-identical answers) and np.float32; positional / keyword / omitted / explicit-None / "
    "explicit-default forms of both public calls (bit-identical answers); one array object serving as y0, boundary values, mesh, "
    "evaluation points and guess, as views into larger caller arrays whose every byte is compared afterwards; bool / longdouble / "
    "complex-with-zero-imaginary-part / 0-d / kind-changing values returned by the right-hand side and the coefficient callables; "
    "accepted solves before and after eleven kinds of calls that end in an exception (bit-identical). The oracle and the "
    "correspondence run as independent parts (an exception in one part is recorded and the others still run). "
    "ROUND 5 (generators only): evaluation arrays of 1025 / 4097 / 20001 (more: 31234, 65537; thorough: 2^19 + 1) shuffled points "
    "against two parts of the array and single points next to the block boundaries, meshes of 1025 / 1537 nodes, the array helpers of "
    "ode.py on the same sizes; inputs given directly as longdouble / float32 / float16 / integers (answer, argument unchanged, second "
    "call equal); transforms with an explicit scale b on intervals beyond / around / up to b and one transform object (b explicit or "
    "inferred) serving four different problems in sequence; the same argument arrays refilled in place between two calls; two "
    "problems that differ in one hidden dependency (trim_inf, exponent, order, no_derivatives, scale, transform or none) solved and "
    "evaluated in either order and interleaved. Follow-up: coefficient functions a_k (every k below the leading one) and right-hand "
    "sides that vanish EXACTLY at one / several / all-but-one nodes of the mesh the library evaluates them on (with a transform the "
    "zeros are put at inverse(transform(node))), odd coefficients on symmetric meshes containing 0, sign changes between nodes, "
    "Legendre and Hermite equations with their polynomial solutions and f = 0, for IVP and BVP, with ten transforms and without; the "
    "failing-input search after a broken tie is capped at 200 s (this class first)."
)
TECHNIQUE = ("Lean 4 proof over regenerated source text (transformation algebra, derivative matrices, explicit form, "
             "the bodies of the public functions and their callbacks, end-to-end under the contracts of the SciPy primitives) + differential correspondence of the private helpers and of "
             "the captured SciPy callbacks + manufactured-solution exploration of solve_ode_ivp/solve_ode_bvp")
GEN = ["ode", "rtransform"]      # rtransform: Props/C15/Library.lean is about the generated HandyRTransform (round 3)
LEAN_MODULES = ["GridVerif.Props.C15", "GridVerif.Props.C15.Solve", "GridVerif.Props.C15.Unique", "GridVerif.Props.C15.Public",
                "GridVerif.Props.C15.Round3", "GridVerif.Props.C15.Library"]
THEOREMS = [
    "GridVerif.C15.faa_di_bruno_3",
    "GridVerif.C15.derivs_of_comp",
    "GridVerif.C15.transformed_ode_pointwise₁",
    "GridVerif.C15.transformed_ode_pointwise₂",
    "GridVerif.C15.transformed_ode_pointwise₃",
    "GridVerif.C15.transformed_leading_coeff",
    "GridVerif.C15.transformed_ode_equiv₁",
    "GridVerif.C15.transformed_ode_equiv₂",
    "GridVerif.C15.transformed_ode_equiv₃",
    "GridVerif.C15.deriv_matrix_entries",
    "GridVerif.C15.deriv_matrix_maps_derivatives",
    "GridVerif.C15.deriv_matrix_invertible_iff",
    "GridVerif.C15.explicit_form",
    "GridVerif.C15.initial_data_roundtrip",
    "GridVerif.C15.deriv_matrix_spec",
    "GridVerif.C15.forwardSolve_solves",
    "GridVerif.C15.bvp_bc_spec",
    "GridVerif.C15.bvp_bc_meaning",
    "GridVerif.C15.direct_contract_gives_solution₃",
    "GridVerif.C15.transformed_contract_gives_solution₁",
    "GridVerif.C15.transformed_contract_gives_solution₂",
    "GridVerif.C15.transformed_contract_gives_solution₃",
    "GridVerif.C15.ivp_initial_conditions",
    "GridVerif.C15.bvp_boundary_conditions",
    "GridVerif.C15.through_transform_eq_direct_partial",
    "GridVerif.C15.linear_ivp_unique₃",
    "GridVerif.C15.through_transform_eq_direct",
    "GridVerif.C15.direct_contract_gives_solution₁",
    "GridVerif.C15.direct_contract_gives_solution₂",
    "GridVerif.C15.linear_ivp_unique₁",
    "GridVerif.C15.linear_ivp_unique₂",
    "GridVerif.C15.through_transform_eq_direct₁",
    "GridVerif.C15.through_transform_eq_direct₂",
    "GridVerif.C15.rtransform_passes_derivs_in_order",
    "GridVerif.C15.bell_loop_not_reached_up_to_order_3",
    "GridVerif.C15.deriv_matrix_guard",
    "GridVerif.Ode.bell_indep_of_tail",
    "GridVerif.Ode.rearrange_eq",
    # round 2: theorems about the generated bodies of solve_ode_ivp / solve_ode_bvp / _transform_solution_to_original_domain
    "GridVerif.Ode.evaluateCoeffOnPoint_eq",
    "GridVerif.Ode.transformOdeFromRtransform_eq",
    "GridVerif.Ode.bvpFunc_eq_ivpFunc",
    "GridVerif.C15.transformSolution_eq",
    "GridVerif.C15.transformSolution_noDerivs",
    "GridVerif.C15.ivpTransformSetup_eq",
    "GridVerif.C15.ivpTransformSetup_rejects",
    "GridVerif.C15.bvpBc_eq",
    "GridVerif.C15.returned_rows₁",
    "GridVerif.C15.returned_rows₂",
    "GridVerif.C15.ivp_initial_conditions_of_contract",
    "GridVerif.C15.solve_ode_ivp_direct",
    "GridVerif.C15.solve_ode_ivp_transformed",
    "GridVerif.C15.solve_ode_ivp_rejects",
    "GridVerif.C15.solve_ode_bvp_direct",
    "GridVerif.C15.solve_ode_bvp_transformed",
    "GridVerif.C15.solve_ode_bvp_rejects",
    "GridVerif.C15.solve_ode_ivp_correct₃",
    "GridVerif.C15.solve_ode_bvp_correct₃",
    # round 3: the warning block of _rearrange_to_explicit_ode, scaling / homogeneity / additivity, the Bell loop of the
    # higher orders, the defaults of the signatures (Props/C15/Round3.lean)
    "GridVerif.C15.rearrangeWarns_evaluates",
    "GridVerif.C15.rearrange_warning_fires_at_zero_leading",
    "GridVerif.C15.rearrange_warning_silent_at_unit_leading",
    "GridVerif.C15.rearrange_exact_inside_warning_window",
    "GridVerif.C15.rearrange_scale_invariant",
    "GridVerif.C15.rearrange_homogeneous",
    "GridVerif.C15.rearrange_additive",
    "GridVerif.C15.ivpFunc_direct_scale_invariant",
    "GridVerif.C15.ivpFunc_direct_homogeneous",
    "GridVerif.C15.ivpFunc_transformed_homogeneous₁",
    "GridVerif.C15.ivpFunc_transformed_homogeneous₂",
    "GridVerif.C15.ivpFunc_transformed_homogeneous₃",
    "GridVerif.C15.ivpFunc_transformed_scale_invariant₃",
    "GridVerif.C15.coeffBHigh_noop_up_to_order_3",
    "GridVerif.C15.coeffBAny_eq_coeffB",
    "GridVerif.C15.transformOdeFromDerivsAny_eq",
    "GridVerif.C15.solve_ode_ivp_default_returns_derivatives",
    "GridVerif.C15.solve_ode_bvp_default_returns_solution_only",
    "GridVerif.C15.default_tolerances_within_measured_envelope",
    # the hypothesis `Admissible` discharged for the generated HandyRTransform (every method passes through _convert_inf)
    "GridVerif.C15.handy_admissible",
    "GridVerif.C15.handy_deriv_ne_zero",
]
RULE = (
    "correspondence: sympy.bell (n<=6) / _transform_ode_from_derivs / _transform_ode_from_rtransform / "
    "_derivative_transformation_matrix (order 0..4, guard) / _rearrange_to_explicit_ode (orders 1..5) / "
    "_transform_solution_to_original_domain on random inputs, plus func, bc, t_span and y0 captured from "
    "solve_ode_ivp / solve_ode_bvp (SciPy integrators replaced by a recorder) evaluated on random arguments, plus the whole "
    "functions with the integrators replaced by a stub (status 0 / non-zero, wrong number of data, order 4, span outside the "
    "transform's domain, with/without transform, no_derivatives) compared by exception class or returned value, each "
    "against the generated Lean text at Float; non-trivial = order >= 2 with a non-zero second transform derivative, or a "
    "callable coefficient, or the guard / an error branch taken. Oracle cases (manufactured solutions) are counted "
    "with tag 'oracle:*' and are non-trivial when the transform is non-affine or a coefficient is non-constant. Round 3 adds: "
    "the generated test of the warning block against whether _rearrange_to_explicit_ode warns (leading coefficient 0, 1e-300, "
    "within a factor 1 +- 1e-12 / 1.01 / 100 of the threshold on both sides, several points per call) and the value inside the "
    "window; _transform_ode_from_derivs with 2 .. 7 coefficients and 3 .. 5 derivative functions; the signature defaults against "
    "what reaches SciPy when the caller leaves the keywords out; spans ending exactly on / one ulp outside the transform's domain; "
    "_transform_ode_from_rtransform at points 1e-2 .. 1e-6 from the ends of the domain of the trimming transforms against the "
    "generated text fed with reference derivatives (40-digit differentiation of the closed form of the map; values up to 1e33)."
)
TRUSTED_BASE = [
    "Lean 4.33 kernel; axioms propext, Classical.choice, Quot.sound only (audited per theorem)",
    "translator harness/translate/ode.py (symbolic execution of the `if total > n` blocks for total = 2,3,4; the Bell loop of the "
    "higher orders, the test and keywords of the warning block, the signature defaults (round 3); loop nest; fold; "
    "a small statement compiler for the bodies of solve_ode_ivp / solve_ode_bvp / _transform_solution_to_original_domain: "
    "one evaluation point / one column of every (rows, points) array; it raises on any syntax it cannot carry, e.g. an array "
    "read at another index than the loop variable); validated at Float against the implementation on every run",
    "hand model Model/Ode.lean (sympy.bell recurrence, matrix plumbing, forward substitution as the driver's "
    "scipy.linalg.solve, Python min/max, column assignments), tied by correspondence",
    "SciPy solve_ivp / solve_bvp: contract 'returns a solution of the first-order system it is given, starting at the data / "
    "with vanishing bc residuals' and scipy.linalg.solve: contract 'M v = b' (hypotheses of the end-to-end theorems; the "
    "integrators' accuracy is explored, not proved)",
]
ASSUMPTIONS = [
    "transform admissible on an open set of the original variable: deriv, deriv2, deriv3 are the derivatives of transform "
    "(that is property C03; C15 takes it as a hypothesis), inverse(transform(x)) = x, deriv != 0",
    "leading coefficient a_K does not vanish on the interval",
    "for solve_ode_bvp with a transform, derivative boundary values are with respect to the new coordinate (as documented)",
    "not carried by the translator (recorded in the generated file as comments): `x = np.array([x])` in solve_ode_ivp.func (shape "
    "plumbing), the random default of initial_guess_y, the scalar-argument path `if interpolated.ndim == 1: return interpolated` "
    "of the returned callable (a Python-scalar argument with no_derivatives=True gets the integrator's whole vector back; with "
    "no_derivatives=False it raises IndexError - array arguments only, as documented)",
    "IEEE rounding not modelled; tolerances: correspondence rtol 1e-11 of the largest intermediate, "
    "exploration 5e3 x solver rtol (IVP) resp. 1e-6 (BVP, tol 1e-8) relative to 1 + max|y^(k)|",
    "round 3, measured envelope of the unchanged tree (asserted only inside it): equation multiplied through by 1e-12 .. 1e12: "
    "rows move by <= 1.3e-14 (asserted 5e-9 IVP / 1e-7 BVP); solve_ode_ivp with atol = 1e-6|a| passed along: V[a f]/a = V[f] bit for "
    "bit for a = 2^-300 .. 2^300 (asserted 1e-13), <= 3e-12 for other a in 1e-12 .. 1e12 (asserted 1e-9); solve_ode_ivp with every "
    "default (rtol 1e-8, atol 1e-6, DOP853): accuracy <= 6.1e-7 (asserted 2e-5), |V[a f]/a - V[f]| <= 6.1e-7 for 1 <= |a| <= 1e12 "
    "(asserted 2e-5), 2.3e-4 at |a| = 1e-3 (asserted 5e-3 for 1e-3 <= |a| < 1), 4e-2 at 1e-6 and O(1) below (the absolute "
    "tolerance takes over: not asserted); solve_ode_bvp with every default (tol 1e-4, 5000 nodes): accuracy <= 8.2e-5 (asserted "
    "2e-3), homogeneity <= 2.8e-3 for 1e-12 <= |a| <= 1e6 where it converges (asserted 3e-2 for 1e-12 <= |a| <= 1e3; at 1e6 "
    "SciPy's solve_bvp does not converge for 2 of 60 third-order problems, at 1e9 for none: a rejection, not a wrong answer); "
    "additivity with defaults asserted to 4e-5 (IVP) / 4e-3 (BVP)",
    "intervals ending d = 1e-2 .. 1e-4 from the singular end of a trimming transform, measured on the unchanged tree (DOP853, rtol "
    "1e-10, forward integration): row 0 <= 6e-10, row 1 <= 2e-7, row 2 <= 2e-3 (the r-derivatives are of order 1e-10 .. 1e-30 there "
    "and their errors are multiplied by powers of the derivative of the map): asserted 5e3 rtol (1 + (0.2/d)^k) for row k; next to "
    "the regular end 5e3 rtol where the derivative of the map does not vanish there (Becke, Handy m=1, MultiExp), d = 1e-2 only and "
    "100 x that where it does (Handy m>=2, HandyMod, Knowles: at d = 1e-4 SciPy's solve_ivp stops with status -1). Not asserted: "
    "integration starting AT the singular end (the mapped initial data lose 1e-4 .. 1 to cancellation, with and without trimming) "
    "and solve_ode_bvp through HandyRTransform m >= 2 / Becke beyond d = 1e-2 (solve_bvp accepts, with status 0, solutions off by "
    "1e-5 .. 1e+7: its acceptance test is relative to 1 + |dY/dr| and dY/dr is ~1e-10; e.g. HandyRTransform(0, 1, 4), first order, "
    "20 nodes up to x = 0.99, tol 1e-8: y off by 0.6) - the BVP cases of this class assert y only (2e-5) for HandyMod, Knowles, "
    "Becke (d = 1e-2), Handy m = 1 (d = 1e-2)",
    "round 4, measured on the unchanged tree: through a transform the returned callable accepts 1-D arrays only (lists / tuples raise "
    "TypeError, 0-d arrays and Python floats IndexError unless no_derivatives=True, 2-D arrays ValueError / TypeError, an empty array "
    "ValueError from SciPy's dense output of solve_ivp): these kinds are 'right or rejected'; np.float32 transform parameters make "
    "rtransform compute in single precision (rows off by up to 1e-6; asked 5e-5; int / np.int64 / np.float64 / 0-d parameters are "
    "bit-identical); a one-element-array parameter is rejected (TypeError / ValueError); complex coefficients are rejected "
    "(UFuncTypeError, a TypeError) even with a vanishing imaginary part, a complex right-hand side with a vanishing imaginary part is "
    "accepted with NumPy's ComplexWarning (a non-zero imaginary part would be dropped by SciPy's real integrators: outside the "
    "property); single-precision evaluation points only for the ordinary problems of the catalogue (y to 5e-5)",
    "round 5, measured on the unchanged tree: the callable for n = 1025 .. 65537 (thorough: 2^19 + 1) shuffled points equals bit for bit "
    "its answers on two parts of the array and on single points; span / y0 / mesh / guess / boundary values / points given as "
    "longdouble agree with float64 to 1e-12, as float32 to 5e-5, as float16 to 5e-2 (half-precision abscissae only without a "
    "transform: rtransform then computes in half precision and overflows), integer data exactly; a transform with b=None takes b from "
    "the first thing it sees - the largest mesh node in solve_ode_bvp but the SCALAR x_span[0] in solve_ode_ivp (a span starting at 0 "
    "is then rejected: 'b 0.0 ... can't be zero'; with b = 0.3 the image of x = 3 is 1e16): the sequences on one b-less object let "
    "the first problem fix b = 3; solve_ode_ivp WITHOUT a transform hands the caller's float64 y0 array itself to SciPy's solve_ivp, "
    "whose dense output keeps it as the start of its first segment - after `y0[:] = new` a callable obtained earlier starts from the "
    "new values (witness: y0 = np.array([1.5]); sol = solve_ode_ivp((1., 2.), f, [-0.5, 1.0], y0); y0[:] = -0.5; sol([1.0]) is now "
    "-0.5) - reported, not asserted; with a transform and for solve_ode_bvp the library builds its own arrays",
    "the Bell loop of _transform_ode_from_derivs for orders above 3 is carried and compared although it is outside the property "
    "(solve_ode_ivp / solve_ode_bvp reject order > 3 together with a transform); no theorem depends on what it computes, so a change "
    "there is regenerated and compared, not reported. Observation: for five or more coefficients rows 1-3 of coeff_b do not "
    "contain the a_4, a_5, ... terms (unreachable from the public functions)",
]

# ----------------------------------------------------------------------------------------------------------------
# manufactured problems (this block is also the header of every replay snippet)
# ----------------------------------------------------------------------------------------------------------------
HELPERS = r'''
import warnings; warnings.filterwarnings('ignore')
import numpy as np
from grid.rtransform import *
from grid.ode import solve_ode_ivp, solve_ode_bvp, _derivative_transformation_matrix

def y_deriv(spec, k):
    """k-th derivative of y(x) = ce*exp(al*t) + cs*sin(be*t + ph) + sum p_i t^i,  t = x - x0  (x0 = 0 unless given)."""
    ce, al, cs, be, ph, p = spec['ce'], spec['al'], spec['cs'], spec['be'], spec['ph'], list(spec['p'])
    x0 = spec.get('x0', 0.0)
    for _ in range(k):
        p = [i * p[i] for i in range(1, len(p))]
    def f(x):
        x = np.asarray(x, dtype=float) - x0
        v = ce * al**k * np.exp(al * x) + cs * be**k * np.sin(be * x + ph + k * np.pi / 2)
        for i, c in enumerate(p):
            v = v + c * x**i
        return v
    return f

def coeff_fn(c):
    """a_k as the user would pass it: a number or a callable."""
    kind = c['kind']
    if kind == 'const':
        return float(c['c'])
    if kind == 'lin':
        return lambda x: c['c0'] + c['c1'] * x
    if kind == 'trig':
        return lambda x: c['s'] * (c['c0'] + c['c1'] * np.sin(c['w'] * x))
    if kind == 'exp':
        return lambda x: c['s'] * c['c0'] * np.exp(c['c1'] * x)
    if kind == 'poly':          # p[0] + p[1] x + ... (Horner): exactly 0 at x = 0 when p[0] = 0
        def poly(x, p=list(c['p'])):
            x = np.asarray(x, dtype=float)
            v = np.zeros_like(x) + p[-1]
            for q in p[-2::-1]:
                v = v * x + q
            return v
        return poly
    if kind == 'zeros':         # s * prod_j (x - z_j) * (1 + t x): exactly 0 at every x = z_j
        def zeros(x, s=c['s'], z=list(c['z']), t=c.get('t', 0.0)):
            x = np.asarray(x, dtype=float)
            v = s * (1.0 + t * x)
            for zj in z:
                v = v * (x - zj)
            return v
        return zeros
    raise ValueError(kind)

def coeff_val(c, x):
    f = coeff_fn(c)
    return f(x) if callable(f) else f + 0 * np.asarray(x, dtype=float)

def rhs(prob):
    """f := sum_k a_k y^(k)  (manufactured right-hand side); prob['f'] (optional): the same function in a closed form that
    vanishes EXACTLY where it should ('zero': identically; a coefficient-like spec: s * prod (x - z_j))."""
    if prob.get('f') == 'zero':
        return lambda x: 0.0 * np.asarray(x, dtype=float)
    if isinstance(prob.get('f'), dict):
        return lambda x: coeff_val(prob['f'], x)
    return lambda x: sum(coeff_val(c, x) * y_deriv(prob['y'], k)(x) for k, c in enumerate(prob['coeffs']))

def make_tf(prob):
    return eval(prob['tf']) if prob['tf'] else None

def span_of(prob):
    a, b = prob['span']
    return (np.float64(a), np.float64(b)) if prob.get('np_span') else (float(a), float(b))

def run_ivp(prob, tf='given'):
    tf = make_tf(prob) if tf == 'given' else tf
    order = len(prob['coeffs']) - 1
    xa = prob['span'][0]
    y0 = [float(y_deriv(prob['y'], k)(xa)) for k in range(order)]
    return solve_ode_ivp(span_of(prob), rhs(prob), [coeff_fn(c) for c in prob['coeffs']], y0, tf,
                         method=prob['method'], rtol=prob['rtol'], atol=prob['atol'])

def bvp_conditions(prob, tf):
    """(i, j, C): exact boundary data; with a transform the derivative data are w.r.t. r = g(x) (as documented):
    [dY/dr, d2Y/dr2] = M^-1 [y', y''] with M = [[g', 0], [g'', g'^2]]."""
    order = len(prob['coeffs']) - 1
    mesh = mesh_of(prob)
    ends = [float(mesh[0]), float(mesh[-1])]
    out = []
    for i, j in prob['bc']:
        xe = ends[i]
        yx = [float(y_deriv(prob['y'], k)(xe)) for k in range(order)]
        if tf is not None and j >= 1:
            g1, g2 = float(tf.deriv(np.array([xe]))[0]), float(tf.deriv2(np.array([xe]))[0])
            Y1 = yx[1] / g1
            val = Y1 if j == 1 else (yx[2] - g2 * Y1) / g1**2
        else:
            val = yx[j]
        out.append((i, j, float(val)))
    return out

def mesh_of(prob):
    a, b = prob['span']
    m = np.linspace(a, b, prob['nmesh'])
    return m[::-1].copy() if prob.get('reverse_mesh') else m

def run_bvp(prob, tf='given', no_derivatives=False):
    tf = make_tf(prob) if tf == 'given' else tf
    order = len(prob['coeffs']) - 1
    mesh = mesh_of(prob) if tf is not None else np.linspace(prob['span'][0], prob['span'][1], prob['nmesh'])
    if tf is None:
        # the same conditions, posed on the increasing mesh of the original variable
        ends = [float(mesh[0]), float(mesh[-1])]
        bd = []
        for (i, j) in prob['bc']:
            i2 = (1 - i) if prob.get('reverse_mesh') else i
            bd.append((i2, j, float(y_deriv(prob['y'], j)(ends[i2]))))
    else:
        bd = bvp_conditions(prob, tf)
    return solve_ode_bvp(mesh, rhs(prob), [coeff_fn(c) for c in prob['coeffs']], bd, tf, tol=prob['tol'],
                         max_nodes=prob['max_nodes'], initial_guess_y=np.zeros((order, mesh.size)),
                         no_derivatives=no_derivatives), bd

def errors(prob, sol, pts):
    """max_k  max|row_k - y^(k)| / (1 + max|y^(k)|)  over the evaluation points."""
    order = len(prob['coeffs']) - 1
    out = np.atleast_2d(sol(np.asarray(pts, dtype=float)))
    assert out.shape == (order, len(pts)), f'returned shape {out.shape}, expected {(order, len(pts))}'
    errs = []
    for k in range(order):
        ex = y_deriv(prob['y'], k)(pts)
        errs.append(float(np.max(np.abs(out[k] - ex)) / (1 + np.max(np.abs(ex)))))
    return errs, out
'''
_ns = {}
exec(HELPERS, _ns)
y_deriv, coeff_fn, coeff_val, rhs, make_tf = _ns["y_deriv"], _ns["coeff_fn"], _ns["coeff_val"], _ns["rhs"], _ns["make_tf"]
run_ivp, run_bvp, errors, mesh_of = _ns["run_ivp"], _ns["run_bvp"], _ns["errors"], _ns["mesh_of"]

# IVP: comparison tolerance = IVP_FACTOR * rtol of the integrator, relative to 1 + max|y^(k)|.
# Calibration on the unchanged tree (5 seeds x 270 problems): worst observed error/rtol = 147 (BDF), 39 (LSODA),
# 24 (RK45), 18 (DOP853), 0.3 (Radau).  A wrong Faa-di-Bruno factor or a wrong third transform derivative moves the
# result by 1e-3 .. 1e-1.
IVP_FACTOR = 5e3
METHODS = {"DOP853": 1e-10, "RK45": 1e-9, "Radau": 1e-9, "LSODA": 1e-9, "BDF": 1e-7, "RK23": 1e-6}
BVP_TOL = 1e-8       # handed to solve_bvp
BVP_ACCEPT = 1e-6    # worst observed on the unchanged tree: 4e-10


def transforms_catalogue():
    """name -> (constructor text, interval of the ORIGINAL variable, flags).  Everything ode.py accepts:
    direct transforms (original variable in [-1, 1] resp. [0, inf)), their inverses (original variable = r)."""
    cat = {
        "none": ("", (0.3, 1.6), {}),
        "IdentityRTransform": ("IdentityRTransform()", (0.3, 1.6), {"affine": True}),
        "BeckeRTransform": ("BeckeRTransform(0.1, 1.5)", (-0.5, 0.4), {}),
        "Inverse(BeckeRTransform)": ("InverseRTransform(BeckeRTransform(0.1, 1.5))", (0.4, 1.8), {}),
        "KnowlesRTransform:k=2": ("KnowlesRTransform(0.1, 1.5, 2)", (-0.5, 0.4), {}),
        "KnowlesRTransform:k=3": ("KnowlesRTransform(0.1, 1.5, 3)", (-0.5, 0.4), {}),
        "Inverse(KnowlesRTransform):k=2": ("InverseRTransform(KnowlesRTransform(0.1, 1.5, 2))", (0.4, 1.8), {}),
        "Inverse(KnowlesRTransform):k=3": ("InverseRTransform(KnowlesRTransform(0.1, 1.5, 3))", (0.4, 1.8), {}),
        "HandyRTransform:m=2": ("HandyRTransform(0.1, 1.5, 2)", (-0.5, 0.4), {}),
        "Inverse(HandyRTransform):m=3": ("InverseRTransform(HandyRTransform(0.1, 1.5, 3))", (0.4, 1.8), {}),
        "HandyModRTransform:m=2": ("HandyModRTransform(0.1, 10.0, 2)", (-0.5, 0.4), {}),
        "HandyModRTransform:m=3": ("HandyModRTransform(0.1, 10.0, 3)", (-0.5, 0.4), {}),
        "Inverse(HandyModRTransform):m=2": ("InverseRTransform(HandyModRTransform(0.1, 10.0, 2))", (0.4, 1.8), {}),
        "Inverse(HandyModRTransform):m=3": ("InverseRTransform(HandyModRTransform(0.1, 10.0, 3))", (0.4, 1.8), {}),
        "Inverse(HandyModRTransform):m=4": ("InverseRTransform(HandyModRTransform(0.1, 30.0, 4))", (0.4, 1.8), {}),
        "LinearFiniteRTransform": ("LinearFiniteRTransform(0.1, 5.0)", (-0.5, 0.4), {"affine": True}),
        "Inverse(LinearFiniteRTransform)": ("InverseRTransform(LinearFiniteRTransform(0.1, 5.0))", (0.4, 1.8), {"affine": True}),
        "MultiExpRTransform": ("MultiExpRTransform(0.1, 1.5)", (-0.5, 0.4), {"decreasing": True}),
        "Inverse(MultiExpRTransform)": ("InverseRTransform(MultiExpRTransform(0.1, 1.5))", (0.4, 1.8), {"decreasing": True}),
        "ExpRTransform": ("ExpRTransform(0.1, 5.0, b=4.0)", (0.3, 1.2), {}),
        "Inverse(ExpRTransform)": ("InverseRTransform(ExpRTransform(0.1, 5.0, b=4.0))", (0.4, 1.8), {}),
        "PowerRTransform": ("PowerRTransform(0.1, 5.0, b=4.0)", (0.3, 1.2), {}),
        "Inverse(PowerRTransform)": ("InverseRTransform(PowerRTransform(0.1, 5.0, b=4.0))", (0.4, 1.8), {}),
        "LinearInfiniteRTransform": ("LinearInfiniteRTransform(0.1, 5.0, b=4.0)", (0.3, 1.2), {"affine": True}),
        "Inverse(LinearInfiniteRTransform)": ("InverseRTransform(LinearInfiniteRTransform(0.1, 5.0, b=4.0))", (0.4, 1.8), {"affine": True}),
        # accepts at most 1/b points per call (`b*(npoint-1) < 1` is checked on every array): no BVP (mesh refinement)
        "HyperbolicRTransform": ("HyperbolicRTransform(0.3, 0.05)", (0.3, 1.2), {"no_bvp": True}),
        "HyperbolicRTransform:np.float64-span": ("HyperbolicRTransform(0.3, 0.05)", (0.3, 1.2), {"np_span": True, "no_bvp": True}),
        # round 2: the remaining classes / parameter values of grid.rtransform
        "KnowlesRTransform:k=1": ("KnowlesRTransform(0.1, 1.5, 1)", (-0.5, 0.4), {}),
        "Inverse(KnowlesRTransform):k=1": ("InverseRTransform(KnowlesRTransform(0.1, 1.5, 1))", (0.4, 1.8), {}),
        "HandyRTransform:m=1": ("HandyRTransform(0.1, 1.5, 1)", (-0.5, 0.4), {}),
        # (r from 0.16 to 19, g' up to 80: solve_bvp's own error (~ tol) in d2Y/dr2 is multiplied by g'^2 when mapped back;
        #  observed on the unchanged tree 1.4e-6 at tol 1e-8, 2e-9 at tol 1e-10 - the solver's accuracy, not the library's)
        "HandyRTransform:m=3": ("HandyRTransform(0.1, 1.5, 3)", (-0.5, 0.4), {"bvp_tol_factor": 30.0}),
        "Inverse(HandyRTransform):m=2": ("InverseRTransform(HandyRTransform(0.1, 1.5, 2))", (0.4, 1.8), {}),
        "HandyModRTransform:m=1": ("HandyModRTransform(0.1, 10.0, 1)", (-0.5, 0.4), {}),
        "Inverse(IdentityRTransform)": ("InverseRTransform(IdentityRTransform())", (0.3, 1.6), {"affine": True}),
        "Inverse(HyperbolicRTransform)": ("InverseRTransform(HyperbolicRTransform(0.3, 0.05))", (0.05, 0.25), {"no_bvp": True}),
    }
    return cat


_CATALOGUE = transforms_catalogue()
SOLVE_TIME_LIMIT = 30.0   # seconds per solve; on the unchanged tree every solve takes < 2 s


class SolveTimeout(Exception):
    pass


@contextlib.contextmanager
def time_limit(seconds):
    """A changed library can make SciPy's step-size control crawl (coefficients evaluated outside their domain ...);
    such a run is a failing input, not an infrastructure problem."""
    def handler(signum, frame):
        raise SolveTimeout(f"no result within {seconds} s")
    old = signal.signal(signal.SIGALRM, handler)
    signal.setitimer(signal.ITIMER_REAL, seconds)
    try:
        yield
    finally:
        signal.setitimer(signal.ITIMER_REAL, 0)
        signal.signal(signal.SIGALRM, old)


def gen_solution(rng):
    return {"ce": rng.uniform(-1, 1), "al": rng.uniform(-1.2, 1.2), "cs": rng.uniform(-1, 1),
            "be": rng.uniform(0.5, 2.5), "ph": rng.uniform(0, 6.28), "p": [rng.uniform(-1, 1) for _ in range(4)]}


def gen_coeff(rng, leading):
    kind = rng.choice(["const", "const", "lin", "trig", "exp"])
    if leading:
        s = rng.choice([-1.0, 1.0])
        if kind == "const":
            return {"kind": "const", "c": s * rng.uniform(0.5, 2)}
        if kind in ("lin", "trig"):
            return {"kind": "trig", "s": s, "c0": rng.uniform(0.8, 2), "c1": rng.uniform(-0.4, 0.4), "w": rng.uniform(0.5, 2)}
        return {"kind": "exp", "s": s, "c0": rng.uniform(0.5, 1.5), "c1": rng.uniform(-0.4, 0.4)}
    if kind == "const":
        return {"kind": "const", "c": rng.uniform(-2, 2)}
    if kind == "lin":
        return {"kind": "lin", "c0": rng.uniform(-1.5, 1.5), "c1": rng.uniform(-0.5, 0.5)}
    if kind == "trig":
        return {"kind": "trig", "s": 1.0, "c0": rng.uniform(-1.5, 1.5), "c1": rng.uniform(-0.5, 0.5), "w": rng.uniform(0.5, 2)}
    return {"kind": "exp", "s": 1.0, "c0": rng.uniform(-1.5, 1.5), "c1": rng.uniform(-0.4, 0.4)}


def gen_problem(rng, order, name, cat):
    text, (xa, xb), flags = cat[name]
    return {"tf": text, "tfname": name, "span": [xa, xb], "np_span": bool(flags.get("np_span")),
            "y": gen_solution(rng), "coeffs": [gen_coeff(rng, k == order) for k in range(order + 1)]}


def nontrivial_problem(prob, cat):
    flags = cat[prob["tfname"]][2]
    return (prob["tf"] != "" and not flags.get("affine")) or any(c["kind"] != "const" for c in prob["coeffs"])


def snippet_ivp(prob, tol):
    return (HELPERS + f"\nimport signal; signal.alarm(300)\nprob = {prob!r}\n"
            "sol = run_ivp(prob)\n"
            "pts = np.linspace(prob['span'][0], prob['span'][1], 9)\n"
            "errs, out = errors(prob, sol, pts)\n"
            f"assert max(errs) <= {tol!r}, f'solve_ode_ivp: relative errors of y, y\\', ... = {{errs}} exceed {tol!r}'\n")


def snippet_bvp(prob, tol):
    return (HELPERS + f"\nimport signal; signal.alarm(300)\nprob = {prob!r}\n"
            "sol, bd = run_bvp(prob)\n"
            "pts = np.linspace(prob['span'][0], prob['span'][1], 9)\n"
            "errs, out = errors(prob, sol, pts)\n"
            f"assert max(errs) <= {tol!r}, f'solve_ode_bvp: relative errors of y, y\\', ... = {{errs}} exceed {tol!r}'\n")


# ----------------------------------------------------------------------------------------------------------------
# correspondence
# ----------------------------------------------------------------------------------------------------------------
def _ok_vec(ans):
    if not ans.startswith("ok"):
        return None
    t = Tokens(ans)
    t.tok()
    return t.fvec()


def _ok_float(ans):
    if not ans.startswith("ok"):
        return None
    t = Tokens(ans)
    t.tok()
    return t.flt()


def _vec_close(a, b, scale, rtol=1e-11):
    return a is not None and len(a) == len(b) and all(close(x, float(y), rtol=rtol, scale=scale, atol=1e-300) for x, y in zip(a, b))


class FakeTF:
    """A transform object for the correspondence: affine `transform`/`inverse`, *arbitrary* smooth functions as
    deriv/deriv2/deriv3 (the code's arithmetic does not care whether they are the true derivatives; generic values
    exercise every term)."""

    def __init__(self, rng):
        self.a, self.b = rng.uniform(0.5, 2.0), rng.uniform(-1, 1)
        self.c = [[rng.uniform(0.3, 1.5), rng.uniform(-0.5, 0.5), rng.uniform(0.3, 2)] for _ in range(3)]
        self.domain = (-10.0, 10.0)
        self.codomain = (-100.0, 100.0)

    def transform(self, x):
        return self.a * x + self.b

    def inverse(self, r):
        return (r - self.b) / self.a

    def _d(self, i, x):
        c0, c1, w = self.c[i]
        return (c0 + c1 * np.sin(w * x)) * (1 if i == 0 else (-1) ** i * 0.8)

    def deriv(self, x):
        return self._d(0, x)

    def deriv2(self, x):
        return self._d(1, x)

    def deriv3(self, x):
        return self._d(2, x)


def _real_transforms():
    R = importlib.import_module("grid.rtransform")
    return [
        (R.BeckeRTransform(0.1, 1.5), (-0.6, 0.6)),
        (R.KnowlesRTransform(0.1, 1.5, 3), (-0.6, 0.6)),
        (R.HandyModRTransform(0.1, 10.0, 3), (-0.6, 0.6)),
        (R.InverseRTransform(R.BeckeRTransform(0.1, 1.5)), (0.3, 3.0)),
        (R.InverseRTransform(R.KnowlesRTransform(0.1, 1.5, 2)), (0.3, 3.0)),
        (R.InverseRTransform(R.HandyModRTransform(0.1, 10.0, 3)), (0.3, 3.0)),
        (R.InverseRTransform(R.HandyRTransform(0.1, 1.5, 2)), (0.3, 3.0)),
        (R.LinearFiniteRTransform(0.1, 5.0), (-0.6, 0.6)),
        (R.IdentityRTransform(), (0.3, 3.0)),
    ]


def _rand_coeffs(rng, order):
    """list for the library, and the evaluator: a mix of numbers (int/float/np.float64) and callables"""
    cs = []
    for k in range(order + 1):
        lead = k == order
        kind = rng.choice(["float", "int", "npfloat", "fn", "fn"])
        if kind == "int":
            v = rng.choice([-3, -2, -1, 1, 2, 3]) if lead else rng.randrange(-3, 4)
            cs.append((v, "const"))
        elif kind == "float":
            v = rng.choice([-1, 1]) * rng.uniform(0.4, 2.5) if lead else rng.uniform(-2.5, 2.5)
            cs.append((v, "const"))
        elif kind == "npfloat":
            v = np.float64(rng.choice([-1, 1]) * rng.uniform(0.4, 2.5))
            cs.append((v, "const"))
        else:
            c0, c1, w = rng.choice([-1, 1]) * rng.uniform(0.8, 2), rng.uniform(-0.5, 0.5), rng.uniform(0.3, 2)
            cs.append(((lambda x, c0=c0, c1=c1, w=w: c0 + c1 * np.cos(w * x)), "fn"))
    return cs


def _eval_coeffs(cs, x):
    return [float(c(np.array([x]))[0]) if kind == "fn" else float(c) for c, kind in cs]


class TableTF:
    """A transform object given by a table: arbitrary values of transform/inverse/deriv/deriv2/deriv3 at the two ends of
    the span and one value set everywhere else (the generated bodies of solve_ode_ivp / solve_ode_bvp are pure plumbing
    around these values), plus a domain."""

    def __init__(self, x0, x1, at0, at1, atp, domain):
        self.x0, self.x1, self.tab, self.domain = x0, x1, (at0, at1, atp), domain
        self.codomain = (-np.inf, np.inf)

    def _get(self, k, x):
        x = np.asarray(x, dtype=float)
        out = np.where(x == self.x0, self.tab[0][k], np.where(x == self.x1, self.tab[1][k], self.tab[2][k]))
        return float(out) if out.ndim == 0 else out

    def transform(self, x):
        return self._get(0, x)

    def inverse(self, x):
        return self._get(1, x)

    def deriv(self, x):
        return self._get(2, x)

    def deriv2(self, x):
        return self._get(3, x)

    def deriv3(self, x):
        return self._get(4, x)


_EXC_TAG = {ValueError: "value-error", NotImplementedError: "not-implemented-error", IndexError: "index-error"}


def _corr_whole_functions(ctx: Ctx, ode):
    """solve_ode_ivp / solve_ode_bvp as whole functions against the generated `solveOdeIvp` / `solveOdeBvp` at Float:
    SciPy's integrators are replaced on both sides by a stub that answers with a given status and a constant dense
    output; compared are the raised exception class (length / order / domain / status guards) or the value of the
    returned callable at one point (which runs through the initial-data block, the choice of the return branch,
    `no_derivatives`, and the back-transformation)."""
    rng = ctx.rng
    orig = (ode.solve_ivp, ode.solve_bvp)
    cases, lines = [], []

    class Res:
        def __init__(self, status, col):
            self.status, self.col = status, np.array(col, dtype=float)

        def sol(self, r):
            r = np.asarray(r, dtype=float)
            return self.col.copy() if r.ndim == 0 else np.repeat(self.col[:, None], r.size, axis=1)

    try:
        for it in range(ctx.n(120, 1500)):
            kind = "ivp" if it % 2 == 0 else "bvp"
            order = rng.choice([1, 2, 3, 3, 4]) if it >= 8 else 1 + it % 4
            # which guard (if any) this case aims at
            aim = rng.choice(["ok", "ok", "ok", "len", "status", "domain", "notf", "notf-nod", "singular",
                              "domain-edge-in", "domain-edge-out"]) if it >= 16 else "ok"
            has_tf = aim not in ("notf", "notf-nod") and not (order == 4 and rng.random() < 0.5)
            # round 3: a third of the calls leave `no_derivatives` out (the generated default of the signature is used)
            nod = rng.choice([True, False, None]) if it >= 4 else [True, False, None, None][it]
            status = rng.choice([1, 2, -1]) if aim == "status" else 0
            a = [rng.choice([-1, 1]) * rng.uniform(0.4, 2.5) for _ in range(order + 1)]
            n_data = order + rng.choice([-1, 1]) if aim == "len" else order
            n_data = max(n_data, 0)
            x0, x1, pt = rng.uniform(-1, 0), rng.uniform(0.5, 1.5), rng.uniform(0.05, 0.45)
            lo, hi = (-5.0, 5.0)
            if aim == "domain":
                lo, hi = rng.choice([(x0 + 0.01, 5.0), (-5.0, x1 - 0.01), (0.2, 0.3)])
            elif aim == "domain-edge-in":      # class 7: the span ends exactly ON the ends of the domain (accepted)
                lo, hi = rng.choice([(x0, 5.0), (-5.0, x1), (x0, x1)])
            elif aim == "domain-edge-out":     # ... and one unit in the last place outside (rejected)
                lo, hi = rng.choice([(float(np.nextafter(x0, 1.0)), 5.0), (-5.0, float(np.nextafter(x1, -1.0)))])
            tab = [[rng.uniform(-2, 2), rng.uniform(-2, 2), rng.choice([-1, 1]) * rng.uniform(0.4, 2), rng.uniform(-2, 2), rng.uniform(-2, 2)]
                   for _ in range(3)]
            if aim == "singular":    # g'(x_span[0]) = 0: scipy.linalg.solve raises LinAlgError / returns inf -> ValueError
                tab[0][2] = rng.choice([0.0, -0.0, 1e-310])
            interp = [rng.uniform(-2, 2) for _ in range(order)]
            tf = TableTF(x0, x1, tab[0], tab[1], tab[2], (lo, hi)) if has_tf else None
            stub = Res(status, interp)
            ode.solve_ivp = lambda func, t_span, y0=None, **kw: stub
            ode.solve_bvp = lambda func, bc, x, y=None, **kw: stub
            tag = f"whole:{kind}:order{order}:{aim}:{'tf' if has_tf else 'none'}" + (":default-no_derivatives" if nod is None else "")
            nodkw = {} if nod is None else {"no_derivatives": nod}
            nodtok = 2 if nod is None else (1 if nod else 0)
            if kind == "ivp":
                y0 = [rng.uniform(-2, 2) for _ in range(n_data)]
                try:
                    ret = ode.solve_ode_ivp((x0, x1), lambda x: 0.0 * x, a, y0, tf, **nodkw)
                    out = np.asarray(ret(np.array([pt])), dtype=float)
                    impl = ("ok", [float(v) for v in np.atleast_1d(out.reshape(-1))])
                except (ValueError, NotImplementedError, IndexError) as e:
                    impl = (next(t for c, t in _EXC_TAG.items() if isinstance(e, c)), None)   # LinAlgError is a ValueError
                t5 = " ".join(" ".join(f2b(v) for v in row) for row in tab)
                lines.append(f"C15.solveivp {1 if has_tf else 0} {nodtok} {status} {f2b(x0)} {f2b(x1)} {f2b(pt)} "
                             f"{f2b(lo)} {f2b(hi)} {t5} {fvec(a)} {fvec(y0)} {fvec(interp)}")
                inp = dict(kind=kind, order=order, aim=aim, has_tf=has_tf, no_derivatives=nod, status=status, coeffs=a, y0=y0,
                           x_span=[x0, x1], point=pt, domain=[lo, hi], transform_table=tab, dense_output=interp)
            else:
                pairs = [(i, j) for i in (0, 1) for j in range(max(order, 1))]
                bd = [(i, j, rng.uniform(-2, 2)) for i, j in (rng.sample(pairs, n_data) if n_data <= len(pairs) else pairs)]
                mesh = np.linspace(x0, x1, 5)
                try:
                    ret = ode.solve_ode_bvp(mesh, lambda x: 0.0 * x, a, bd, tf, initial_guess_y=np.zeros((order, 5)), **nodkw)
                    out = np.asarray(ret(np.array([pt])), dtype=float)
                    impl = ("ok", [float(v) for v in np.atleast_1d(out.reshape(-1))])
                except (ValueError, NotImplementedError, IndexError) as e:
                    impl = (next(t for c, t in _EXC_TAG.items() if isinstance(e, c)), None)   # LinAlgError is a ValueError
                t5 = " ".join(f2b(v) for v in tab[2])
                lines.append(f"C15.solvebvp {1 if has_tf else 0} {nodtok} {status} {f2b(pt)} {t5} {fvec(a)} "
                             f"{len(bd)} " + " ".join(f"{i} {j} {f2b(c)}" for i, j, c in bd) + f" {fvec(interp)}")
                inp = dict(kind=kind, order=order, aim=aim, has_tf=has_tf, no_derivatives=nod, status=status, coeffs=a, bd_cond=bd,
                           point=pt, transform_table=tab[2], dense_output=interp)
            cases.append((tag, inp, impl))
    finally:
        ode.solve_ivp, ode.solve_bvp = orig
    for (tag, inp, impl), ans in zip(cases, driver_batch(lines)):
        ctx.count(["whole", inp], nontrivial=impl[0] != "ok" or (inp["has_tf"] and inp["order"] >= 2), tag=f"{tag}:{impl[0]}")
        if impl[0] != "ok":
            good = ans == impl[0]
        else:
            d = inp["transform_table"][2] if inp["kind"] == "ivp" else inp["transform_table"]
            scale = max(1.0, max(abs(v) for v in inp["dense_output"])) * (1 + sum(abs(v) for v in d[2:])) ** 2
            good = _vec_close(_ok_vec(ans), impl[1], scale)
        if not good:
            ctx.fail("corr", f"solve_ode_{inp['kind']}:whole-function",
                     f"solve_ode_{inp['kind']} with SciPy's integrator replaced by a stub ({tag}): implementation {impl}, "
                     f"generated model {ans if not ans.startswith('ok') else _ok_vec(ans)}",
                     witness={"op": "whole", "case": tag, "input": inp, "impl": impl, "model": ans})


def corr(ctx: Ctx):
    ode = importlib.import_module("grid.ode")
    sympy_bell = importlib.import_module("sympy").bell
    rng = ctx.rng

    def part_bell():
        # -- 1. the model of sympy.bell ------------------------------------------------------------------------------
        cases, lines = [], []
        for n in range(0, 7):
            for k in range(0, n + 2):
                for _ in range(ctx.n(1, 4)):
                    L = max(1, n - k + 1) + rng.randrange(0, 2)
                    ds = [rng.uniform(-2, 2) for _ in range(L)]
                    cases.append((n, k, ds))
                    lines.append(f"C15.bell {n} {k} {fvec(ds)}")
        for (n, k, ds), ans in zip(cases, driver_batch(lines)):
            want = float(sympy_bell(n, k, ds))
            got = _ok_float(ans)
            scale = max(1.0, max(abs(d) for d in ds) ** max(n, 1)) * math.factorial(max(n, 1))
            ctx.count(["bell", n, k, ds], nontrivial=(1 <= k <= n and n >= 2), tag=f"bell:n={n}")
            if got is None or not close(got, want, rtol=1e-11, scale=scale):
                ctx.fail("corr", "sympy.bell", f"bell({n},{k},{ds}): sympy {want}, model {ans}",
                         witness={"n": n, "k": k, "symbols": ds, "sympy": want, "model": ans})


    def part_coeffb():
        # -- 2. _transform_ode_from_derivs / _transform_ode_from_rtransform ------------------------------------------
        cases, lines = [], []
        for it in range(ctx.n(60, 1500)):
            order = 1 + it % 3
            cs = _rand_coeffs(rng, order)
            npts = rng.choice([1, 1, 2, 3, 5])
            use_real = rng.random() < 0.4
            if use_real:
                tf, (lo, hi) = rng.choice(_real_transforms())
            else:
                tf, (lo, hi) = FakeTF(rng), (-2.0, 2.0)
            x = np.array([rng.uniform(lo, hi) for _ in range(npts)])
            if use_real or rng.random() < 0.5:
                got = ode._transform_ode_from_rtransform([c for c, _ in cs], tf, x)
                via = "rtransform"
            else:
                got = ode._transform_ode_from_derivs([c for c, _ in cs], [tf.deriv, tf.deriv2, tf.deriv3], x)
                via = "derivs"
            for i in range(npts):
                a = _eval_coeffs(cs, x[i])
                d = [float(np.atleast_1d(f(np.array([x[i]])))[0]) for f in (tf.deriv, tf.deriv2, tf.deriv3)]
                cases.append((order, via, type(tf).__name__, a, d, [float(v) for v in got[:, i]], any(k == "fn" for _, k in cs)))
                lines.append(f"C15.coeffb {fvec(a)} {f2b(d[0])} {f2b(d[1])} {f2b(d[2])}")
        for (order, via, tfn, a, d, impl, hasfn), ans in zip(cases, driver_batch(lines)):
            scale = max(abs(v) for v in a) * max(1.0, abs(d[0])) ** order * max(1.0, abs(d[1]), abs(d[2])) * 3
            ctx.count(["coeffb", a, d], nontrivial=(order >= 2 and d[1] != 0.0) or hasfn, tag=f"coeffb:order{order}:{via}")
            if not _vec_close(_ok_vec(ans), impl, scale):
                ctx.fail("corr", f"_transform_ode_from_derivs:order{order}",
                         f"coeff_b for a={a}, derivs={d} ({tfn}): implementation {impl}, model {ans if not ans.startswith('ok') else _ok_vec(ans)}",
                         witness={"order": order, "a": a, "derivs": d, "impl": impl, "model": _ok_vec(ans)})
        # a non-number, non-callable coefficient is rejected
        try:
            ode._evaluate_coeffs_on_points(np.array([0.1]), [1.0, "x"])
            ctx.fail("corr", "_evaluate_coeffs_on_points:type", "a str coefficient was not rejected with TypeError")
        except TypeError:
            pass
        ctx.count(["coeff-type-error"], nontrivial=True, tag="coeffs:type-error")


    def part_dmat():
        # -- 3. _derivative_transformation_matrix --------------------------------------------------------------------
        cases, lines = [], []
        for it in range(ctx.n(60, 1200)):
            numb = rng.choice([1, 2, 3, 3, 3, 4])
            order = rng.randrange(0, numb + 2)
            ds = [rng.uniform(-2, 2) for _ in range(numb)]
            point = rng.choice([rng.uniform(-1, 1), np.float64(rng.uniform(-1, 1)), rng.randrange(-2, 3)])
            funcs = [(lambda p, v=v: v) for v in ds]
            try:
                m = ode._derivative_transformation_matrix(funcs, point, order)
                impl = ("ok", [[float(v) for v in row] for row in m])
            except ValueError:
                impl = ("value-error", None)
            cases.append((order, ds, impl))
            lines.append(f"C15.dmat {order} {fvec(ds)}")
        for (order, ds, impl), ans in zip(cases, driver_batch(lines)):
            ctx.count(["dmat", order, ds], nontrivial=order >= 2 or impl[0] != "ok", tag=f"dmat:order{order}:{impl[0]}")
            if impl[0] != "ok":
                good = ans == impl[0]
            else:
                good = ans.startswith("ok")
                if good:
                    t = Tokens(ans)
                    t.tok()
                    mm = t.fmat()
                    scale = max(1.0, max(abs(d) for d in ds)) ** max(order, 1) * 6
                    good = len(mm) == order and all(_vec_close(r1, r2, scale) for r1, r2 in zip(mm, impl[1]))
            if not good:
                ctx.fail("corr", f"_derivative_transformation_matrix:order{order}",
                         f"matrix for derivs={ds}, order={order}: implementation {impl}, model {ans}",
                         witness={"order": order, "derivs": ds, "impl": impl, "model": ans})
        for bad in (np.array([0.1]), "0.1", None):
            try:
                ode._derivative_transformation_matrix([lambda p: 1.0], bad, 1)
                ctx.fail("corr", "_derivative_transformation_matrix:type", f"point {bad!r} was not rejected with TypeError")
            except TypeError:
                pass
            ctx.count(["dmat-type", repr(bad)], nontrivial=True, tag="dmat:type-error")


    def part_explicit():
        # -- 4. _rearrange_to_explicit_ode ---------------------------------------------------------------------------
        cases, lines = [], []
        for it in range(ctx.n(40, 800)):
            K = 1 + it % 5
            npts = rng.choice([1, 2, 4])
            y = np.array([[rng.uniform(-2, 2) for _ in range(npts)] for _ in range(K)])
            b = np.array([[rng.uniform(-2, 2) for _ in range(npts)] for _ in range(K + 1)])
            b[-1] = np.where(np.abs(b[-1]) < 0.2, 0.7, b[-1])
            fx = np.array([rng.uniform(-3, 3) for _ in range(npts)])
            fx0 = fx.copy()
            got = ode._rearrange_to_explicit_ode(y, b, fx)
            if not np.array_equal(fx, fx0):
                ctx.info("_rearrange_to_explicit_ode modified the right-hand-side array in place (C20's business)")
            for i in range(npts):
                cases.append((K, [float(v) for v in y[:, i]], [float(v) for v in b[:, i]], float(fx0[i]), float(got[i])))
                lines.append(f"C15.explicit {fvec(y[:, i])} {fvec(b[:, i])} {f2b(fx0[i])}")
        for (K, y, b, fx, impl), ans in zip(cases, driver_batch(lines)):
            scale = (abs(fx) + sum(abs(p * q) for p, q in zip(b, y))) / abs(b[-1])
            ctx.count(["explicit", y, b, fx], nontrivial=K >= 2, tag=f"explicit:order{K}")
            got = _ok_float(ans)
            if got is None or not close(got, impl, rtol=1e-11, scale=scale):
                ctx.fail("corr", f"_rearrange_to_explicit_ode:order{K}",
                         f"explicit form y={y}, coeff_b={b}, fx={fx}: implementation {impl}, model {ans if got is None else got}",
                         witness={"y": y, "coeff_b": b, "fx": fx, "impl": impl, "model": got})


    def part_callbacks():
        # -- 5. the callbacks and data solve_ode_ivp / solve_ode_bvp hand to SciPy, and the callable they return -------
        class Res:
            status = 0

            def __init__(self, K, ph):
                self.K, self.ph = K, ph

            def sol(self, r):
                r = np.asarray(r, dtype=float)
                return np.array([np.sin(1.3 * r + self.ph + k) * (1 + 0.5 * k) for k in range(self.K)])

        rec = {}

        def fake_ivp(func, t_span, y0=None, **kw):
            rec.update(kind="ivp", func=func, t_span=[float(t) for t in t_span], y0=[float(v) for v in y0], kw=kw)
            return Res(len(y0), rec["ph"])

        def fake_bvp(func, bc, x, y=None, **kw):
            rec.update(kind="bvp", func=func, bc=bc, mesh=np.array(x, dtype=float), guess=y, kw=kw)
            return Res(y.shape[0], rec["ph"])

        orig = (ode.solve_ivp, ode.solve_bvp)
        cases, lines = [], []
        try:
            ode.solve_ivp, ode.solve_bvp = fake_ivp, fake_bvp
            for it in range(ctx.n(45, 900)):
                order = 1 + it % 3
                cs = _rand_coeffs(rng, order)
                coeffs = [c for c, _ in cs]
                mode = ["fake", "real", "none"][rng.randrange(3)] if it >= 9 else ["fake", "real", "none"][(it // 3) % 3]
                if mode == "real":
                    tf, (lo, hi) = rng.choice(_real_transforms())
                elif mode == "fake":
                    tf, (lo, hi) = FakeTF(rng), (-2.0, 2.0)
                else:
                    tf, (lo, hi) = None, (-2.0, 2.0)
                xa = rng.uniform(lo, lo + 0.3 * (hi - lo))
                xb = rng.uniform(lo + 0.6 * (hi - lo), hi)
                fxc = (rng.uniform(-2, 2), rng.uniform(0.3, 2))
                fx = lambda x, fxc=fxc: fxc[0] * np.cos(fxc[1] * x) + 0.3
                rec.clear()
                rec["ph"] = rng.uniform(0, 3)
                is_ivp = rng.random() < 0.5
                tag = f"{'ivp' if is_ivp else 'bvp'}:{mode}:order{order}"

                def point_values(r):
                    """what the model needs at one point r of the solver's variable"""
                    x = float(tf.inverse(np.array([r]))[0]) if tf is not None else r
                    a = _eval_coeffs(cs, x)
                    d = [float(np.atleast_1d(f(np.array([x])))[0]) for f in (tf.deriv, tf.deriv2, tf.deriv3)] if tf is not None else None
                    return x, a, d, float(fx(np.array([x]))[0])

                if is_ivp:
                    y0 = [rng.uniform(-2, 2) for _ in range(order)]
                    nod = rng.random() < 0.3
                    ret = ode.solve_ode_ivp((xa, xb), fx, coeffs, y0, tf, no_derivatives=nod)
                    if rec.get("kind") != "ivp":
                        ctx.fail("corr", "solve_ode_ivp:capture", "solve_ode_ivp did not call scipy solve_ivp")
                        continue
                    if not (rec["kw"].get("vectorized") is True and rec["kw"].get("dense_output") is True):
                        ctx.fail("corr", "solve_ode_ivp:kwargs", f"solve_ivp called with {sorted(rec['kw'])}")
                    # initial data and span
                    if tf is not None:
                        d0 = [float(np.atleast_1d(f(np.array([xa])))[0]) for f in (tf.deriv, tf.deriv2, tf.deriv3)]
                        t0 = float(tf.transform(np.array([xa]))[0])
                        t1 = float(tf.transform(np.array([xb]))[0])
                        cases.append(("ivpinit", tag, dict(y0=y0, d=d0), rec["t_span"] + rec["y0"],
                                      max(1.0, max(abs(v) for v in y0)) * max(1.0, abs(d0[1])) / min(1.0, abs(d0[0])) ** 3))
                        lines.append(f"C15.ivpinit {f2b(xa)} {f2b(xb)} {f2b(t0)} {f2b(t1)} {f2b(d0[0])} {f2b(d0[1])} {f2b(d0[2])} {fvec(y0)}")
                    else:
                        if rec["t_span"] != [xa, xb] or rec["y0"] != y0:
                            ctx.fail("corr", "solve_ode_ivp:direct-data", f"span/y0 changed without a transform: {rec['t_span']}, {rec['y0']}")
                    # func at random arguments (scalar t, y of shape (K, m))
                    lo_r, hi_r = sorted(rec["t_span"])
                    for _ in range(3):
                        r = rng.uniform(lo_r, hi_r)
                        m = rng.choice([1, 1, 3])
                        Y = np.array([[rng.uniform(-2, 2) for _ in range(m)] for _ in range(order)])
                        out = np.asarray(rec["func"](r, Y), dtype=float)
                        x, a, d, fxv = point_values(r)
                        for j in range(m):
                            yj = [float(v) for v in Y[:, j]]
                            scale = (abs(fxv) + sum(abs(v) for v in yj) * max(abs(v) for v in a) * (1 + sum(abs(v) for v in (d or [1]))) ** 3) / \
                                (abs(a[-1]) * min(1.0, abs(d[0]) if d else 1.0) ** order)
                            cases.append(("func", tag, dict(r=r, x=x, a=a, d=d, fx=fxv, y=yj), [float(v) for v in out[:, j]], scale))
                            if d is None:
                                lines.append(f"C15.funcd {fvec(a)} {f2b(fxv)} {fvec(yj)}")
                            else:
                                lines.append(f"C15.func {fvec(a)} {f2b(d[0])} {f2b(d[1])} {f2b(d[2])} {f2b(fxv)} {fvec(yj)}")
                else:
                    pairs = [(i, j) for i in (0, 1) for j in range(order)]
                    bd = [(i, j, rng.uniform(-2, 2)) for i, j in rng.sample(pairs, order)]
                    nod = rng.random() < 0.5
                    mesh = np.linspace(xa, xb, 6)
                    guess = np.array([[rng.uniform(-1, 1) for _ in range(6)] for _ in range(order)])
                    ret = ode.solve_ode_bvp(mesh, fx, coeffs, bd, tf, initial_guess_y=guess, no_derivatives=nod)
                    if rec.get("kind") != "bvp":
                        ctx.fail("corr", "solve_ode_bvp:capture", "solve_ode_bvp did not call scipy solve_bvp")
                        continue
                    want_mesh = tf.transform(mesh) if tf is not None else mesh
                    if not np.allclose(rec["mesh"], want_mesh, rtol=1e-14, atol=0) or not np.array_equal(rec["guess"], guess):
                        ctx.fail("corr", "solve_ode_bvp:mesh", "mesh handed to solve_bvp is not transform(x) / guess changed",
                                 witness={"mesh": rec["mesh"], "expected": want_mesh})
                    # bc
                    ya = [rng.uniform(-2, 2) for _ in range(order)]
                    yb = [rng.uniform(-2, 2) for _ in range(order)]
                    res = [float(v) for v in rec["bc"](np.array(ya), np.array(yb))]
                    cases.append(("bc", tag, dict(bd=bd, ya=ya, yb=yb), res, 4.0))
                    lines.append(f"C15.bc {len(bd)} " + " ".join(f"{i} {j} {f2b(c)}" for i, j, c in bd) + f" {fvec(ya)} {fvec(yb)}")
                    # func on a mesh
                    rs = np.sort(np.array([rng.uniform(rec["mesh"].min(), rec["mesh"].max()) for _ in range(3)]))
                    Y = np.array([[rng.uniform(-2, 2) for _ in range(3)] for _ in range(order)])
                    out = np.asarray(rec["func"](rs, Y), dtype=float)
                    for j in range(3):
                        x, a, d, fxv = point_values(float(rs[j]))
                        yj = [float(v) for v in Y[:, j]]
                        scale = (abs(fxv) + sum(abs(v) for v in yj) * max(abs(v) for v in a) * (1 + sum(abs(v) for v in (d or [1]))) ** 3) / \
                            (abs(a[-1]) * min(1.0, abs(d[0]) if d else 1.0) ** order)
                        cases.append(("func", tag, dict(r=float(rs[j]), x=x, a=a, d=d, fx=fxv, y=yj), [float(v) for v in out[:, j]], scale))
                        if d is None:      # `bfunc*`: the generated text of solve_ode_bvp's own nested `func`
                            lines.append(f"C15.bfuncd {fvec(a)} {f2b(fxv)} {fvec(yj)}")
                        else:
                            lines.append(f"C15.bfunc {fvec(a)} {f2b(d[0])} {f2b(d[1])} {f2b(d[2])} {f2b(fxv)} {fvec(yj)}")
                # the returned callable (transform branch)
                if tf is not None:
                    pts = np.array([rng.uniform(xa, xb) for _ in range(2)])
                    out = np.asarray(ret(pts), dtype=float)
                    fake = Res(order, rec["ph"])
                    for j in range(2):
                        xj = float(pts[j])
                        interp = [float(v) for v in fake.sol(tf.transform(np.array([xj])))[:, 0]]
                        d = [float(np.atleast_1d(f(np.array([xj])))[0]) for f in (tf.deriv, tf.deriv2, tf.deriv3)]
                        impl = [float(out[j])] if out.ndim == 1 else [float(v) for v in out[:, j]]
                        cases.append(("back", tag + (":noderiv" if nod else ""), dict(x=xj, d=d, interp=interp, no_derivatives=nod), impl,
                                      max(1.0, max(abs(v) for v in interp)) * (1 + sum(abs(v) for v in d)) ** 2))
                        lines.append(f"C15.back {order} {1 if nod else 0} {f2b(d[0])} {f2b(d[1])} {f2b(d[2])} {fvec(interp)}")
                else:
                    if getattr(ret, "__func__", None) is not Res.sol:
                        ctx.fail("corr", "solve_ode:direct-return", "without a transform the integrator's `sol` is not returned as it is")
        finally:
            ode.solve_ivp, ode.solve_bvp = orig
        for (op, tag, inp, impl, scale), ans in zip(cases, driver_batch(lines)):
            d = inp.get("d")
            ctx.count([op, inp], nontrivial=(d is not None and d[1] != 0.0) or op == "bc", tag=f"{op}:{tag}")
            got = _ok_vec(ans)
            if not _vec_close(got, impl, scale):
                ctx.fail("corr", f"solve_ode:{op}:{tag.split(':')[0]}",
                         f"{op} ({tag}) on {inp}: implementation {impl}, model {ans if got is None else got}",
                         witness={"op": op, "case": tag, "input": inp, "impl": impl, "model": got})

    def part_argument_checks():
        # argument checks of the public functions
        for bad_call, exc, what in (
            (lambda: ode.solve_ode_ivp((0.1, 1.0), lambda x: x, [1.0, 1.0, 1.0], [1.0]), ValueError, "len(y0) != order"),
            (lambda: ode.solve_ode_bvp(np.linspace(0.1, 1, 5), lambda x: x, [1.0, 1.0, 1.0], [(0, 0, 1.0)]), ValueError, "len(bd_cond) != order"),
            (lambda: ode.solve_ode_ivp((0.1, 1.0), lambda x: x, [1.0] * 5, [1.0] * 4, FakeTF(rng)), NotImplementedError, "order 4 with transform"),
            (lambda: ode.solve_ode_ivp((-20.0, 1.0), lambda x: x, [1.0, 1.0], [1.0], FakeTF(rng)), ValueError, "span outside the transform domain"),
        ):
            try:
                bad_call()
                ctx.fail("corr", "solve_ode:argument-check", f"{what}: not rejected")
            except exc:
                pass
            ctx.count(["argcheck", what], nontrivial=True, tag="argument-check")
    _run_parts(ctx, "corr", [("sympy-bell", part_bell), ("coeff_b", part_coeffb), ("derivative-matrix", part_dmat), ("explicit-form", part_explicit),
                             ("captured-callbacks", part_callbacks), ("whole-functions", lambda: _corr_whole_functions(ctx, ode)),
                             ("container-kinds", lambda: _corr_container_kinds(ctx, ode)), ("round3", lambda: _corr_round3(ctx, ode)),
                             ("argument-checks", part_argument_checks)])



# ----------------------------------------------------------------------------------------------------------------
# round 3: the text carried since round 3 (warning block, Bell loop of the higher orders, signature defaults)
# ----------------------------------------------------------------------------------------------------------------
WARN_WINDOW = 1e-10        # the literal of `_rearrange_to_explicit_ode` the inputs are placed next to (the model's own
#                            threshold is the regenerated one; this constant only steers the sampling)


def _corr_round3(ctx: Ctx, ode):
    import inspect
    import warnings as _w
    rng = ctx.rng

    # -- (a) the warning block of _rearrange_to_explicit_ode: does it warn (generated `rearrangeWarns`), and the value
    #        next to / far inside the window (class 7: both sides within 1.01 and 100 of the threshold; class 8: tiny) ----
    factors = [0.0, 1e-290, 1e-40, 0.01, 0.5, 0.99, 1 - 1e-12, 1.0, 1 + 1e-12, 1.01, 2.0, 100.0, 1e10]
    cases, lines = [], []
    for it in range(ctx.n(60, 600)):
        K = 1 + it % 3
        npts = [1, 1, 2, 3][it % 4]
        y = np.array([[rng.uniform(-2, 2) for _ in range(npts)] for _ in range(K)])
        b = np.array([[rng.uniform(-2, 2) for _ in range(npts)] for _ in range(K + 1)])
        for j in range(npts):
            f = factors[(it + 5 * j) % len(factors)] if (j == 0 or rng.random() < 0.5) else 1e10
            b[-1, j] = rng.choice([-1.0, 1.0]) * WARN_WINDOW * f
        fx = np.array([rng.uniform(-3, 3) for _ in range(npts)])
        with _w.catch_warnings(record=True) as rec, np.errstate(all="ignore"):
            _w.simplefilter("always")
            got = ode._rearrange_to_explicit_ode(y, b.copy(), fx.copy())
        warned = any("leading" in str(r.message) for r in rec)
        # one driver line per point; the code asks np.any over the points
        cases.append(("warn", dict(coeff_b_last=[float(v) for v in b[-1]]), warned, npts))
        lines += [f"C15.warns {fvec(b[:, j])}" for j in range(npts)]
        for j in range(npts):
            if b[-1, j] != 0.0:
                cases.append(("value", dict(y=[float(v) for v in y[:, j]], coeff_b=[float(v) for v in b[:, j]], fx=float(fx[j])),
                              float(got[j]), None))
                lines.append(f"C15.explicit {fvec(y[:, j])} {fvec(b[:, j])} {f2b(fx[j])}")
    answers = iter(driver_batch(lines))
    for op, inp, impl, n in cases:
        if op == "warn":
            ans = [next(answers) for _ in range(n)]
            model = any(a == "ok 1" for a in ans) if all(a.startswith("ok") for a in ans) else None
            near = any(0.5 <= abs(v) / WARN_WINDOW <= 2.0 for v in inp["coeff_b_last"])
            ctx.count(["warns", inp], nontrivial=near or len(ans) > 1, tag=f"warns:{'fires' if impl else 'silent'}" + (":next-to-threshold" if near else ""))
            if model is None or model != impl:
                ctx.fail("corr", "_rearrange_to_explicit_ode:warning",
                         f"leading row {inp['coeff_b_last']}: the implementation {'warns' if impl else 'does not warn'}, the generated test says {ans}",
                         witness={"op": "warns", "input": inp, "impl": impl, "model": ans})
        else:
            ans = next(answers)
            got = _ok_float(ans)
            b_ = inp["coeff_b"]
            scale = (abs(inp["fx"]) + sum(abs(p * q) for p, q in zip(b_, inp["y"]))) / abs(b_[-1])
            ctx.count(["explicit-window", inp], nontrivial=abs(b_[-1]) < WARN_WINDOW, tag="explicit:" + ("inside-window" if abs(b_[-1]) < WARN_WINDOW else "outside-window"))
            if got is None or not (close(got, impl, rtol=1e-11, scale=scale) or (got == impl)):
                ctx.fail("corr", "_rearrange_to_explicit_ode:window-value",
                         f"explicit form with leading coefficient {b_[-1]} (y={inp['y']}, coeff_b={b_}, fx={inp['fx']}): implementation {impl}, model {ans if got is None else got}",
                         witness={"y": inp["y"], "coeff_b": b_, "fx": inp["fx"], "impl": impl, "model": got})

    # -- (b) _transform_ode_from_derivs for every number of coefficients (Bell loop of the orders above 3) -----------------
    cases, lines = [], []
    for it in range(ctx.n(36, 400)):
        order = [4, 5, 6, 1, 2, 3, 4, 5][it % 8]
        nder = max(3, rng.choice([3, 4, 5]))
        a = [rng.choice([-1, 1]) * rng.uniform(0.3, 2.5) for _ in range(order + 1)]
        ds = [rng.uniform(-1.5, 1.5) for _ in range(nder)]
        x = np.array([rng.uniform(-1, 1) for _ in range(rng.choice([1, 2]))])
        coeffs = [(lambda t, c=c: c + 0 * t) if (k % 2 and rng.random() < 0.5) else c for k, c in enumerate(a)]
        try:
            got = ode._transform_ode_from_derivs(coeffs, [(lambda t, d=d: d + 0 * t) for d in ds], x)
            impl = ("ok", [float(v) for v in got[:, 0]])
        except IndexError:
            impl = ("index-error", None)
        cases.append((order, a, ds, impl))
        lines.append(f"C15.coeffbany {fvec(a)} {fvec(ds)}")
    for (order, a, ds, impl), ans in zip(cases, driver_batch(lines)):
        ctx.count(["coeffbany", a, ds], nontrivial=order >= 4, tag=f"coeffb-any:order{order}:{impl[0]}")
        scale = max(abs(v) for v in a) * max(1.0, max(abs(d) for d in ds)) ** order * 30
        good = ans == impl[0] if impl[0] != "ok" else _vec_close(_ok_vec(ans), impl[1], scale)
        if not good:
            ctx.fail("corr", f"_transform_ode_from_derivs:any-order:order{order}",
                     f"coeff_b for {order + 1} coefficients a={a}, derivs={ds}: implementation {impl}, model {ans if not ans.startswith('ok') else _ok_vec(ans)}",
                     witness={"order": order, "a": a, "derivs": ds, "impl": impl, "model": ans})

    # -- (d) the coefficients of the transformed equation next to the ends of the domain of the trimming transforms: the
    #        implementation (with the library's own deriv / deriv2 / deriv3, trimmed or not) against the generated text fed
    #        with REFERENCE derivatives (40-digit numerical differentiation of the closed form of the map): finite values
    #        beyond 1e16 must come through as they are -------------------------------------------------------------------
    import mpmath as mp
    closed = {
        "Handy": lambda q: (lambda x: q["R"] * ((1 + x) / (1 - x)) ** q["m"] + q["rmin"]),
        "HandyMod": lambda q: (lambda x: (1 + x) ** q["m"] * q["s"] / (2 ** q["m"] * (1 - 2 ** q["m"] + q["s"]) - (1 + x) ** q["m"] * (q["s"] - 2 ** q["m"])) + q["rmin"]),
        "Becke": lambda q: (lambda x: q["R"] * (1 + x) / (1 - x) + q["rmin"]),
        "Knowles": lambda q: (lambda x: -q["R"] * mp.log(1 - ((1 + x) / 2) ** q["k"]) + q["rmin"]),
        "MultiExp": lambda q: (lambda x: -q["R"] * mp.log((x + 1) / 2) + q["rmin"]),
    }
    table = [("Handy", "HandyRTransform(0.1, 1.5, {m}{t})", lambda m: dict(rmin=mp.mpf("0.1"), R=mp.mpf("1.5"), m=m), [1, 2, 3, 4], +1),
             ("HandyMod", "HandyModRTransform(0.1, 10.1, {m}{t})", lambda m: dict(rmin=mp.mpf("0.1"), s=mp.mpf(10), m=m), [2, 3], +1),
             ("Becke", "BeckeRTransform(0.1, 1.5{t})", lambda m: dict(rmin=mp.mpf("0.1"), R=mp.mpf("1.5")), [0], +1),
             ("Knowles", "KnowlesRTransform(0.1, 1.5, {m}{t})", lambda m: dict(rmin=mp.mpf("0.1"), R=mp.mpf("1.5"), k=m), [2, 3], +1),
             ("MultiExp", "MultiExpRTransform(0.1, 1.5{t})", lambda m: dict(rmin=mp.mpf("0.1"), R=mp.mpf("1.5")), [0], -1)]
    cases, lines = [], []
    old_dps = mp.mp.dps
    mp.mp.dps = 40
    try:
        for it in range(ctx.n(48, 480)):
            fam, text, par, ms, sign = table[0] if it % 3 == 0 else table[it % len(table)]
            m = ms[(it // 3) % len(ms)]
            trim = [True, None, False][(it // 2) % 3]
            tftext = text.format(m=m, t="" if trim is None else f", trim_inf={trim}")
            tf = eval(tftext, dict(_ns))
            # 0.1 and 10.1 are not exactly representable: the reference uses the parameters the object really holds
            q = par(m)
            q["rmin"] = mp.mpf(float(tf._rmin))
            if fam == "HandyMod":
                q["s"] = mp.mpf(float(tf._rmax)) - mp.mpf(float(tf._rmin))
            d = [1e-2, 1e-3, 1e-4, 1e-5, 1e-6][(it // 5) % 5]
            # (the regular end only down to 1e-3: closer, the library's own deriv2 / deriv3 lose digits to cancellation, e.g.
            #  HandyRTransform m = 1, x = -1 + 1e-6: deriv3 = 4mR (1 + 6mx + 2m^2 + 3x^2) (1+x)^(m-3) / (1-x)^(m+3) is off by 6e-5
            #  relative - rounding amplified by 1/(1+x)^2, C03's territory, not a truncation)
            regular = it % 7 == 0
            if regular:
                d = [1e-2, 1e-3][(it // 7) % 2]
            x = float(np.float64(-sign * (1 - d))) if regular else float(np.float64(sign * (1 - d)))
            order = 1 + (2 * it + it // 3) % 3
            a = [rng.choice([-1, 1]) * rng.uniform(0.4, 2.5) for _ in range(order + 1)]
            g = closed[fam](q)
            ref = [float(mp.diff(g, mp.mpf(x), n)) for n in (1, 2, 3)]
            if not all(math.isfinite(v) for v in ref):
                continue
            with np.errstate(all="ignore"):
                got = ode._transform_ode_from_rtransform(a, tf, np.array([x]))
            cases.append((tftext, x, order, a, ref, [float(v) for v in got[:, 0]]))
            lines.append(f"C15.coeffb {fvec(a)} {f2b(ref[0])} {f2b(ref[1])} {f2b(ref[2])}")
    finally:
        mp.mp.dps = old_dps
    for (tftext, x, order, a, d, impl), ans in zip(cases, driver_batch(lines)):
        model = _ok_vec(ans)
        terms = [[abs(a[0])], [abs(a[1] * d[0])] + ([abs(a[2] * d[1])] if order >= 2 else []) + ([abs(a[3] * d[2])] if order >= 3 else [])]
        if order >= 2:
            terms.append([abs(a[2] * d[0] ** 2)] + ([3 * abs(a[3] * d[0] * d[1])] if order >= 3 else []))
        if order >= 3:
            terms.append([abs(a[3] * d[0] ** 3)])
        big = max(abs(v) for v in d) > 1e16
        ctx.count(["coeffb-end", tftext, x, a], nontrivial=True, tag=f"coeffb:end-of-domain:order{order}" + (":beyond-1e16" if big else ""))
        good = model is not None and len(model) == len(impl) == order + 1 and all(
            close(mv, iv, rtol=1e-8 if abs(x) > 0 and (x < 0) == (tftext.startswith("MultiExp") is False) else 1e-9, scale=sum(t), atol=1e-300)
            for mv, iv, t in zip(model, impl, terms))
        if not good:
            ctx.fail("corr", f"_transform_ode_from_derivs:end-of-domain:order{order}",
                     f"coeff_b through {tftext} at x={x!r} (a={a}): implementation {impl}; generated text with the reference derivatives {d} of the map: {model}",
                     witness={"order": order, "transform": tftext, "x": x, "a": a, "reference_derivs": d, "impl": impl, "model": model})

    # -- (c) the defaults of the two signatures: what reaches SciPy / selects the returned rows when the caller leaves the
    #        keywords out, against the generated constants ---------------------------------------------------------------
    ans = driver_batch(["C15.defaults"])[0].split()
    model = None
    if len(ans) == 8 and ans[0] == "ok":
        model = dict(ivp_no_derivatives=ans[1] == "1", rtol=None, atol=None, bvp_no_derivatives=ans[4] == "1", tol=None,
                     max_nodes=int(ans[6]), method=ans[7])
        t = Tokens("ok " + ans[2] + " " + ans[3] + " " + ans[5])
        t.tok()
        model["rtol"], model["atol"], model["tol"] = t.flt(), t.flt(), t.flt()
    rec = {}
    orig = (ode.solve_ivp, ode.solve_bvp)

    class Res:
        status = 0

        def sol(self, r):
            return np.array([[1.0 + 0 * v, 2.0 + 0 * v] for v in np.atleast_1d(r)]).T

    def fake_ivp(func, t_span, y0=None, **kw):
        rec["ivp"] = kw
        return Res()

    def fake_bvp(func, bc, x, y=None, **kw):
        rec["bvp"] = kw
        return Res()
    try:
        ode.solve_ivp, ode.solve_bvp = fake_ivp, fake_bvp
        tf = FakeTF(rng)
        ri = ode.solve_ode_ivp((0.1, 0.9), lambda x: x, [1.0, 0.5, 2.0], [1.0, 0.0], tf)
        rb = ode.solve_ode_bvp(np.linspace(0.1, 0.9, 4), lambda x: x, [1.0, 0.5, 2.0], [(0, 0, 1.0), (1, 0, 0.0)], tf,
                               initial_guess_y=np.zeros((2, 4)))
        shape_i = np.asarray(ri(np.array([0.3, 0.4]))).shape
        shape_b = np.asarray(rb(np.array([0.3, 0.4]))).shape
    finally:
        ode.solve_ivp, ode.solve_bvp = orig
    sig_i = {k: v.default for k, v in inspect.signature(ode.solve_ode_ivp).parameters.items() if v.default is not inspect.Parameter.empty}
    sig_b = {k: v.default for k, v in inspect.signature(ode.solve_ode_bvp).parameters.items() if v.default is not inspect.Parameter.empty}
    impl = dict(ivp_no_derivatives=shape_i == (2,), rtol=rec["ivp"].get("rtol"), atol=rec["ivp"].get("atol"),
                bvp_no_derivatives=shape_b == (2,), tol=rec["bvp"].get("tol"), max_nodes=rec["bvp"].get("max_nodes"),
                method=rec["ivp"].get("method"))
    sig = dict(ivp_no_derivatives=sig_i.get("no_derivatives"), rtol=sig_i.get("rtol"), atol=sig_i.get("atol"),
               bvp_no_derivatives=sig_b.get("no_derivatives"), tol=sig_b.get("tol"), max_nodes=sig_b.get("max_nodes"),
               method=sig_i.get("method"))
    ctx.count(["defaults", impl], nontrivial=True, tag="defaults:signature-vs-what-reaches-scipy")
    if model != impl or sig != impl:
        ctx.fail("corr", "solve_ode:defaults",
                 f"keywords left out by the caller: SciPy receives / the callable returns {impl}; the signatures say {sig}; the generated constants {model}",
                 witness={"op": "defaults", "impl": impl, "signature": sig, "model": model})


# ----------------------------------------------------------------------------------------------------------------
# oracle: manufactured solutions on the implementation (EXPLORATION of the accuracy clause)
# ----------------------------------------------------------------------------------------------------------------
def oracle(ctx: Ctx, budget: str, only=None):
    """`only` = {"orders": {..}, "kinds": {"ivp", "bvp"}} restricts the run (used by oracle_at)."""
    rng = ctx.rng
    cat = transforms_catalogue()
    names = list(cat)
    large = budget == "large"
    pts_n = 9
    orders_on = sorted((only or {}).get("orders", {1, 2, 3}))
    kinds_on = (only or {}).get("kinds", {"ivp", "bvp"})
    nfail0 = len(ctx.failures)

    searching = large or only is not None

    def enough():
        # a restricted run (oracle_at) stops as soon as it has concrete failing inputs; the whole failing-input search (oracle_at +
        # large budget) after a broken tie shares one wall-clock cap: the cheap, diverse parts come first
        if searching and _search_left(ctx) <= 0:
            if not ctx.extra.get("_search_cap_said"):
                ctx.extra["_search_cap_said"] = True
                ctx.info(f"failing-input search stopped at its cap of {SEARCH_CAP_S:.0f} s")
            return True
        return only is not None and sum(f.kind == "oracle" for f in ctx.failures[nfail0:]) >= 3

    def part_vanishing():
        kinds_v = sorted(kinds_on)
        for case in _vanishing_cases(rng, cat, large or ctx.thorough, kinds_v, orders_on):
            if enough():
                break
            p = case["prob"]
            kind = case["kind"]
            _audit_call(ctx, "check_vanishing", (case,), lambda t, kind=kind, fam=case["family"]: f"ode.solve_ode_{kind}:vanishing-coefficient:{fam}",
                        f"solve_ode_{kind}, order {len(p['coeffs']) - 1}, {p['tf'] or 'no transform'}: {case['what']}", case,
                        _guarded(f"case = {case!r}\n", "check_vanishing(case)"), ["vanishing", case],
                        f"oracle:{kind}:vanishing-coefficient:{case['family'].split(':')[0]}", nontrivial=True)

    # ---- audit: state between calls / object identity (first: its replay snippets carry the whole call history) ----------
    # (run as the first part below)

    def part_ivp():
        # ---- IVP ----------------------------------------------------------------------------------------------------
        # (a) every method SciPy offers x orders 2, 3 through a non-affine transform; (b) every transform x every order once
        # (method rotating; one of the three orders integrates backwards, rotating; Python-float / np.float64 spans
        # alternating; no_derivatives=True for one of three); (c) extreme parameters; (d) random extra cases
        plan = []
        mlist = ["DOP853", "RK45", "Radau", "LSODA", "BDF", "RK23"]
        nonaffine = [n for n in names if n != "none" and not cat[n][2].get("affine")]
        i = rng.randrange(len(nonaffine))
        for order in (2, 3):
            for method in mlist:
                plan.append((nonaffine[i % len(nonaffine)], order, method, {"sweep": True, "nod": True, "backward": i % 2 == 1, "np_span": i % 4 >= 2}))
                i += 5
        i = rng.randrange(6)
        for ni, name in enumerate(names):
            for order in (1, 2, 3):
                plan.append((name, order, mlist[(i + 7 * ni + order) % 6],
                             {"sweep": True, "backward": (ni + order) % 3 == 0, "np_span": bool(cat[name][2].get("np_span")) or (ni + order) % 2 == 0,
                              "nod": (ni + 2 * order) % 3 == 0}))
            if cat[name][2].get("decreasing"):               # decreasing transforms: every order in the other direction too
                for order in (1, 2, 3):
                    plan.append((name, order, mlist[(i + 7 * ni + order + 3) % 6], {"sweep": True, "backward": (ni + order) % 3 != 0}))
        for label, prob in extreme_ivp_problems(rng, cat, large or ctx.thorough):
            plan.append((prob["tfname"], len(prob["coeffs"]) - 1, prob["method"], {"prob": prob, "extreme": label, "sweep": True, "tol_factor": 3.0}))
        extra = (150 if only else 400) if large else ctx.n(35, 900)      # (quick: 50 until round 4; the sweep above is complete)
        for _ in range(extra):
            plan.append((rng.choice(names), rng.choice([o for o in [1, 2, 3, 3] if o in orders_on]), rng.choice(mlist),
                         {"backward": rng.random() < 0.25, "nod": rng.random() < 0.1}))
        plan = [p for p in plan if p[1] in orders_on] if "ivp" in kinds_on else []
        timeouts = 0
        for name, order, method, opt in plan:
            if timeouts >= 4:
                ctx.info("IVP exploration stopped after 4 solves that did not finish within the time limit")
                break
            if enough():
                break
            prob = opt.get("prob") or gen_problem(rng, order, name, cat)
            rt = METHODS[method]
            prob.update(method=method, rtol=rt, atol=rt * 1e-2)
            if "prob" not in opt:
                prob["np_span"] = bool(opt.get("np_span", prob["np_span"]))
                if opt.get("backward"):
                    prob["span"] = prob["span"][::-1]           # integrate backwards
            tol = IVP_FACTOR * rt * opt.get("tol_factor", 1.0)
            key = f"ode.solve_ode_ivp:order{order}:{name}" if "extreme" not in opt else f"ode.solve_ode_ivp:extreme:{opt['extreme']}"
            ctx.count(["ivp", prob], nontrivial=nontrivial_problem(prob, cat), tag=f"oracle:ivp:order{order}:{method}")
            pts = np.linspace(prob["span"][0], prob["span"][1], pts_n)
            try:
                with time_limit(SOLVE_TIME_LIMIT):
                    sol = run_ivp(prob)
                    errs, out = errors(prob, sol, pts)
            except Exception as e:
                timeouts += isinstance(e, SolveTimeout)
                ctx.fail("oracle", key, f"solve_ode_ivp raised {type(e).__name__}: {e} on a well-posed order-{order} problem ({prob['tf'] or 'no transform'}, {method})",
                         witness=prob, snippet=snippet_ivp(prob, tol))
                continue
            if max(errs) > tol:
                ctx.fail("oracle", key,
                         f"solve_ode_ivp order {order} through {prob['tf'] or 'no transform'} ({method}, rtol {rt}): the returned callable is off "
                         f"the exact solution: relative errors of [y, y', ..][:order] = {errs} > {tol}",
                         witness={"problem": prob, "errors": errs, "tolerance": tol}, snippet=snippet_ivp(prob, tol))
                continue
            # the same callable on an unsorted array with end points and repeats, and one point at a time; raw shapes
            if opt.get("sweep") or rng.random() < 0.2:
                _audit_returned_callable(ctx, prob, sol, "solve_ode_ivp", False, tol)
            # prescribed initial values (with respect to the ORIGINAL variable)
            x0 = prob["span"][0]
            at0 = np.atleast_2d(sol(np.array([x0])))[:, 0]
            want0 = [float(y_deriv(prob["y"], k)(x0)) for k in range(order)]
            # (1e-9; for the extreme-parameter problems 2e-8: on an interval of 1e-6 the mapped data pass through a matrix with entries
            #  of 1e6 .. 1e12 and LSODA's dense output at t0 - seen on the unchanged tree: 1.1e-9 in the second-derivative row)
            tol0 = 2e-8 if "extreme" in opt else 1e-9
            if any(abs(a - b) > tol0 * (1 + abs(b)) for a, b in zip(at0, want0)):
                ctx.fail("oracle", key, f"solve_ode_ivp: initial values not reproduced at x0={x0}: {list(at0)} vs {want0}",
                         witness={"problem": prob, "at_x0": at0, "prescribed": want0}, snippet=snippet_ivp(prob, tol))
            # through transform == direct
            if prob["tf"]:
                try:
                    with time_limit(SOLVE_TIME_LIMIT):
                        sold = run_ivp(prob, tf=None)
                        outd = np.atleast_2d(sold(pts))
                    diff = max(float(np.max(np.abs(out[k] - outd[k])) / (1 + np.max(np.abs(outd[k])))) for k in range(order))
                    if diff > 2 * tol:
                        ctx.fail("oracle", key, f"solve_ode_ivp: through {prob['tf']} differs from the direct solve by {diff} > {2 * tol}",
                                 witness={"problem": prob, "difference": diff}, snippet=snippet_ivp(prob, tol))
                except Exception as e:
                    timeouts += isinstance(e, SolveTimeout)
                    ctx.fail("oracle", f"ode.solve_ode_ivp:order{order}:none", f"direct solve raised {type(e).__name__}: {e}", witness=prob)
            # no_derivatives=True returns y only
            if opt.get("nod") and (prob["tf"] or opt.get("sweep")):
                try:
                    with time_limit(SOLVE_TIME_LIMIT):
                        s2 = _ns["solve_ode_ivp"](_ns["span_of"](prob), rhs(prob), [coeff_fn(c) for c in prob["coeffs"]], want0,
                                                  make_tf(prob), method=method, rtol=rt, atol=rt * 1e-2, no_derivatives=True)
                        o2 = np.asarray(s2(pts))
                except Exception as e:
                    timeouts += isinstance(e, SolveTimeout)
                    ctx.fail("oracle", key, f"solve_ode_ivp(no_derivatives=True) raised {type(e).__name__}: {e}", witness=prob)
                    continue
                if not prob["tf"]:
                    o2 = o2[0] if o2.shape == (order, pts_n) else o2[None]      # without a transform the option has no effect (documented)
                if o2.shape != (pts_n,) or np.max(np.abs(o2 - out[0])) > 1e-12 * (1 + np.max(np.abs(out[0]))):
                    ctx.fail("oracle", f"ode.solve_ode_ivp:no_derivatives", f"solve_ode_ivp(no_derivatives=True) does not return row 0 of the full answer (shape {o2.shape})",
                             witness=prob, snippet=snippet_nod(prob, "ivp"))
                else:
                    _audit_returned_callable(ctx, prob, s2, "solve_ode_ivp", True, tol)


    def part_bvp():
        # ---- BVP ----------------------------------------------------------------------------------------------------
        # every transform x every order once, the kind of the condition set rotating (value conditions, derivative
        # conditions at both ends, everything at one end, second-derivative conditions; well-posedness is checked
        # independently of the library by _bvp_functional_cond); extreme parameters; random extra cases
        plan = []
        k0 = rng.randrange(len(BC_KINDS))
        for ni, name in enumerate(names):
            if cat[name][2].get("no_bvp"):
                continue
            for order in (1, 2, 3):
                plan.append((name, order, {"sweep": True, "bc_kind": BC_KINDS[(k0 + ni + 2 * order) % len(BC_KINDS)], "nod": (ni + order) % 3 == 0}))
        for label, prob in extreme_bvp_problems(rng, cat, large or ctx.thorough):
            plan.append((prob["tfname"], len(prob["coeffs"]) - 1, {"prob": prob, "extreme": label, "sweep": True, "tol_factor": 5.0}))
        for _ in range((120 if only else 300) if large else ctx.n(30, 700)):
            name = rng.choice(names)
            if not cat[name][2].get("no_bvp"):
                plan.append((name, rng.choice([o for o in [1, 2, 3, 3] if o in orders_on]), {"bc_kind": rng.choice(BC_KINDS), "nod": rng.random() < 0.15}))
        plan = [p for p in plan if p[1] in orders_on] if "bvp" in kinds_on else []
        timeouts = 0
        for name, order, opt in plan:
            if timeouts >= 4:
                ctx.info("BVP exploration stopped after 4 solves that did not finish within the time limit")
                break
            if enough():
                break
            prob = opt.get("prob") or _gen_bvp_problem(rng, order, name, cat, opt["bc_kind"])
            key = f"ode.solve_ode_bvp:order{order}:{name}" if "extreme" not in opt else f"ode.solve_ode_bvp:extreme:{opt['extreme']}"
            ctx.tagc(f"oracle:bvp:conditions:{prob.get('bc_kind', 'given')}")
            acc = BVP_ACCEPT * opt.get("tol_factor", 1.0) * cat[name][2].get("bvp_tol_factor", 1.0)
            ctx.count(["bvp", prob], nontrivial=nontrivial_problem(prob, cat), tag=f"oracle:bvp:order{order}")
            pts = np.linspace(prob["span"][0], prob["span"][1], pts_n)
            try:
                try:
                    with time_limit(SOLVE_TIME_LIMIT):
                        sol, bd = run_bvp(prob)
                        errs, out = errors(prob, sol, pts)
                except ValueError as e:
                    # extreme-parameter problems: SciPy's solve_bvp may exhaust its node budget at tol 1e-8 for a particular draw
                    # (status 1; seen on the unchanged tree through HandyModRTransform(0.1, 10, 3) on [-0.9, 0.99], third order,
                    # where 100 000 nodes do not help either while the direct solve is accurate): a limit of the integrator at that
                    # tolerance, not a wrong answer - such a draw is solved once more at tol 1e-6 and accepted 100 times wider
                    if "extreme" not in opt or "status: 1" not in str(e):
                        raise
                    ctx.info(f"solve_bvp exhausted its node budget at tol {prob['tol']} on {key}; solved again at tol 1e-6")
                    prob["tol"] = 1e-6
                    acc = acc * 100.0
                    with time_limit(SOLVE_TIME_LIMIT):
                        sol, bd = run_bvp(prob)
                        errs, out = errors(prob, sol, pts)
            except Exception as e:
                timeouts += isinstance(e, SolveTimeout)
                ctx.fail("oracle", key, f"solve_ode_bvp raised {type(e).__name__}: {e} on an order-{order} problem ({prob['tf'] or 'no transform'})",
                         witness=prob, snippet=snippet_bvp(prob, acc))
                continue
            if max(errs) > acc:
                ctx.fail("oracle", key,
                         f"solve_ode_bvp order {order} through {prob['tf'] or 'no transform'} (tol {BVP_TOL}): relative errors of [y, y', ..] = {errs} > {acc}",
                         witness={"problem": prob, "errors": errs, "bd_cond": bd}, snippet=snippet_bvp(prob, acc))
                continue
            if opt.get("sweep") or rng.random() < 0.2:
                _audit_returned_callable(ctx, prob, sol, "solve_ode_bvp", False, acc)
            # prescribed boundary conditions: value conditions on y itself; derivative conditions, mapped back to x
            mesh = mesh_of(prob) if prob["tf"] else np.linspace(prob["span"][0], prob["span"][1], prob["nmesh"])
            ends = [float(mesh[0]), float(mesh[-1])]
            for (i, j, c) in bd:
                got = float(np.atleast_2d(sol(np.array([ends[i]])))[j, 0])
                want = float(y_deriv(prob["y"], j)(ends[i]))
                if abs(got - want) > acc * (1 + abs(want)):
                    ctx.fail("oracle", key, f"solve_ode_bvp: boundary condition ({i},{j}) not met in the original variable: {got} vs {want}",
                             witness={"problem": prob, "bd_cond": bd}, snippet=snippet_bvp(prob, acc))
            if prob["tf"]:
                try:
                    with time_limit(SOLVE_TIME_LIMIT):
                        sold, _ = run_bvp(prob, tf=None)
                        outd = np.atleast_2d(sold(pts))
                    diff = max(float(np.max(np.abs(out[k] - outd[k])) / (1 + np.max(np.abs(outd[k])))) for k in range(order))
                    if diff > 2 * acc:
                        ctx.fail("oracle", key, f"solve_ode_bvp: through {prob['tf']} differs from the direct solve by {diff}",
                                 witness={"problem": prob, "difference": diff}, snippet=snippet_bvp(prob, acc))
                except Exception as e:
                    timeouts += isinstance(e, SolveTimeout)
                    ctx.fail("oracle", f"ode.solve_ode_bvp:order{order}:none", f"direct solve raised {type(e).__name__}: {e}", witness=prob)
                if opt.get("nod"):
                    try:
                        with time_limit(SOLVE_TIME_LIMIT):
                            s2, _ = run_bvp(prob, no_derivatives=True)       # the default of solve_ode_bvp
                            o2 = np.asarray(s2(pts))
                    except Exception as e:
                        timeouts += isinstance(e, SolveTimeout)
                        ctx.fail("oracle", key, f"solve_ode_bvp(no_derivatives=True) raised {type(e).__name__}: {e}", witness=prob)
                        continue
                    if o2.shape != (pts_n,) or np.max(np.abs(o2 - out[0])) > 1e-9 * (1 + np.max(np.abs(out[0]))):
                        ctx.fail("oracle", "ode.solve_ode_bvp:no_derivatives", f"solve_ode_bvp(no_derivatives=True) does not return y (shape {o2.shape})",
                                 witness=prob, snippet=snippet_nod(prob, "bvp"))
                    else:
                        _audit_returned_callable(ctx, prob, s2, "solve_ode_bvp", True, acc)


    # ---- round 4: every part runs, whatever happens in the others (crash-proofing) -----------------------------------------
    def guarded(fn):
        return lambda: None if enough() else fn()

    _run_parts(ctx, "oracle", [
        ("vanishing-coefficients", part_vanishing), ("sequences", guarded(lambda: _audit_sequences(ctx, cat, only))),
        ("initial-value-problems", guarded(part_ivp)), ("boundary-value-problems", guarded(part_bvp)),
        ("round3", guarded(lambda: _oracle_round3(ctx, cat, only, large))), ("round4", guarded(lambda: _oracle_round4(ctx, cat, only, large))),
        ("round5", guarded(lambda: _oracle_round5(ctx, cat, only, large))),
        ("containers", guarded(lambda: _audit_containers(ctx, only)))])



# ================================================================================================================
# round 2, part A: audits of the generators — state carried between calls / object identity, container kinds and
# dtypes of every argument, evaluation of the returned callable on several points at once, boundary-condition sets,
# extreme parameters.  AUDIT_HELPERS is (after HELPERS) the header of the replay snippets of these cases.
# ================================================================================================================
AUDIT_HELPERS = r'''
class Violation(AssertionError):
    """AssertionError that carries the class of the violation (it becomes part of the failure key)."""
    def __init__(self, tag, msg):
        super().__init__(f'[{tag}] {msg}')
        self.tag = tag

def freeze(v, depth=0):
    """A comparable deep copy of caller data: arrays by dtype/shape/bytes, containers by kind, callables by identity."""
    if isinstance(v, np.ndarray):
        return ('ndarray', v.dtype.str, v.shape, v.tobytes())
    if isinstance(v, (list, tuple)):
        return (type(v).__name__, [freeze(u, depth + 1) for u in v])
    if isinstance(v, (bool, int, float, np.generic, str)) or v is None:
        return (type(v).__name__, repr(v))
    if callable(v) and not hasattr(v, 'transform'):
        return ('callable', id(v))
    if depth < 3 and hasattr(v, '__dict__'):
        return (type(v).__name__, sorted((k, freeze(u, depth + 1)) for k, u in vars(v).items()))
    return (type(v).__name__, id(v))

def changed(objs, snap):
    return [k for k, v in objs.items() if freeze(v) != snap[k]]

class EchoFx:
    """f(x) = x, returning the very array it is given; remembers every array it saw together with a copy."""
    def __init__(self):
        self.seen = []
    def __call__(self, x):
        if len(self.seen) < 20000:
            self.seen.append((x, np.array(x, copy=True)))
        return x
    def modified(self):
        return [(np.asarray(b).tolist(), np.asarray(a).tolist()) for a, b in self.seen if not np.array_equal(a, b)][:2]

def _check_echo(fx, what):
    if isinstance(fx, EchoFx) and fx.modified():
        raise Violation('callback-argument', f'{what}: the array handed to fx (and returned by it) was modified afterwards: (was, is) = {fx.modified()}')

# ---- constant coefficients with known characteristic roots: an exact solution for ANY initial data ---------------
ROOTS = {1: [0.5], 2: [0.5, -1.5], 3: [0.5, -1.5, -0.5]}
COEF = {1: [-0.5, 1.0], 2: [-0.75, 1.0, 1.0], 3: [-0.375, -0.25, 1.5, 1.0]}     # prod_k (D - root_k); exact in float32

def cc_particular(CO, C, C1):
    """y_p = al*x + be solves sum_k CO[k] y^(k) = C + C1*x"""
    al = C1 / CO[0]
    return al, (C - CO[1] * al) / CO[0]

def cc_rows(order, amp, x0, al, be):
    lam = ROOTS[order]
    def f(x):
        x = np.asarray(x, dtype=float)
        out = np.array([sum(amp[k] * lam[k] ** j * np.exp(lam[k] * (x - x0)) for k in range(order)) for j in range(order)])
        out[0] = out[0] + al * x + be
        if order > 1:
            out[1] = out[1] + al
        return out
    return f

def cc_exact_ivp(order, CO, C, C1, x0, y0):
    al, be = cc_particular(CO, C, C1)
    V = np.array([[l ** j for l in ROOTS[order]] for j in range(order)], dtype=float)
    b = np.array([float(v) for v in y0])
    b[0] -= al * x0 + be
    if order > 1:
        b[1] -= al
    return cc_rows(order, np.linalg.solve(V, b), x0, al, be)

def cc_bvp_data(order, bc, amp, CO, C, C1, ends, tf):
    """(i, j, value) of the exact solution; with a transform, derivative data are w.r.t. r = g(x) (as documented)."""
    al, be = cc_particular(CO, C, C1)
    rows = cc_rows(order, amp, ends[0], al, be)
    out = []
    for i, j in bc:
        xe = float(ends[i])
        yx = [float(v) for v in rows(np.array([xe]))[:, 0]]
        if tf is not None and j >= 1:
            g1, g2 = float(tf.deriv(np.array([xe]))[0]), float(tf.deriv2(np.array([xe]))[0])
            Y1 = yx[1] / g1
            val = Y1 if j == 1 else (yx[2] - g2 * Y1) / g1 ** 2
        else:
            val = yx[j]
        out.append((int(i), int(j), float(val)))
    return out, rows

def cc_env(case):
    order = case['order']
    env = dict(globals())
    env.update(ORDER=order, CO=[case.get('scale', 1.0) * a for a in COEF[order]], C=case.get('C', 1.0),
               C1=case.get('C1', 0.0), Y0=list(case.get('y0', [1.5, -0.25, 0.75]))[:order])
    return env

CANON_FX = 'lambda x: C + C1 * np.asarray(x, dtype=float)'
CANON_IVP = {'span': '(1.0, 2.0)', 'y0': 'list(Y0)', 'coeffs': 'list(CO)', 'fx': CANON_FX}
CANON_BVP = {'x': 'np.linspace(1.0, 2.0, 9)', 'bd': '[list(t) for t in BD]', 'coeffs': 'list(CO)', 'fx': CANON_FX}
UNSORTED7 = [3, 0, 6, 1, 5, 2, 4]

def _typed_compare(what, R, E, outs, eq_tol, acc_tol):
    scale = 1 + np.max(np.abs(E))
    if R.shape != E.shape or not np.max(np.abs(R - E)) <= acc_tol * scale:
        raise Violation('canonical', f'float64/list arguments: result off the exact solution by {np.max(np.abs(R - E)) / scale:.3g} (shape {R.shape})')
    if outs[0].shape != R.shape or not np.max(np.abs(outs[0] - R)) <= eq_tol * scale:
        raise Violation('container', f'{what}: result differs from the computation with float64/list arguments by '
                        f'{(np.max(np.abs(outs[0] - R)) / scale) if outs[0].shape == R.shape else outs[0].shape} (allowed {eq_tol})')
    if not np.array_equal(outs[0], outs[1]):
        raise Violation('repeat-call', f'{what}: a second solve with the very same argument objects gives another answer '
                        f'(difference {np.max(np.abs(outs[0] - outs[1]))})')

def check_typed_ivp(case):
    """case: order, tf (text or ''), scale, C, C1, y0 numbers, method, and `over`: text of the arguments that deviate
    from the canonical call (tuple-of-floats span, list y0, list of float coefficients, float64 right-hand side).
    The variant must (1) leave the caller's objects unchanged, (2) equal the canonical computation, (3) repeat."""
    order, env = case['order'], cc_env(case)
    tf = eval(case['tf'], env) if case['tf'] else None
    kw = dict(method=case.get('method', 'DOP853'), rtol=1e-10, atol=1e-12)
    ref_a = {k: eval(v, env) for k, v in CANON_IVP.items()}
    if 'span' in case['over']:
        sp = eval(case['over']['span'], env)
        ref_a['span'] = (float(sp[0]), float(sp[1]))
    x0, x1 = ref_a['span']
    if 'y0' in case['over']:
        env['Y0'] = [float(v) for v in eval(case['over']['y0'], env)]
        ref_a['y0'] = list(env['Y0'])
    pts = np.linspace(x0, x1, 7)[UNSORTED7]
    R = np.atleast_2d(solve_ode_ivp(ref_a['span'], ref_a['fx'], ref_a['coeffs'], ref_a['y0'], tf, **kw)(pts))
    E = cc_exact_ivp(order, env['CO'], env['C'], env['C1'], x0, env['Y0'])(pts)
    txt = dict(CANON_IVP); txt.update(case['over'])
    a = {k: eval(v, env) for k, v in txt.items()}
    snap = {k: freeze(v) for k, v in a.items()}
    outs = []
    for rep in range(2):
        try:
            s = solve_ode_ivp(a['span'], a['fx'], a['coeffs'], a['y0'], tf, **kw)
        except tuple(eval(n) for n in case.get('may_raise', [])) as e:
            return f'rejected:{type(e).__name__}'
        outs.append(np.atleast_2d(s(pts)))
        bad = changed(a, snap)
        if bad:
            raise Violation('caller-data', f"{case['what']}: solve_ode_ivp modified the caller's {bad}: now {[a[k] for k in bad]}")
    _check_echo(a['fx'], case['what'])
    _typed_compare(case['what'], R, E, outs, case.get('eq_tol', 1e-10), 1e-7)
    return 'ok'

def check_typed_bvp(case):
    """as check_typed_ivp for solve_ode_bvp; `bc` = [(i, j)], boundary data from the exact solution with amplitudes `amp`."""
    order, env = case['order'], cc_env(case)
    tf = eval(case['tf'], env) if case['tf'] else None
    xv = eval(case['over'].get('x', CANON_BVP['x']), env)
    xr = np.array(xv, dtype=float)                         # the canonical mesh: contiguous float64 copy
    ends = [float(xr[0]), float(xr[-1])]
    amp = list(case.get('amp', [0.75, -0.5, 0.25]))[:order]
    env['BD'], rows = cc_bvp_data(order, case['bc'], amp, env['CO'], env['C'], env['C1'], ends, tf)
    kw = dict(tol=1e-8, max_nodes=20000, no_derivatives=False)
    ref_a = {k: eval(v, env) for k, v in CANON_BVP.items() if k != 'x'}
    pts = np.linspace(ends[0], ends[1], 7)[UNSORTED7]
    R = np.atleast_2d(solve_ode_bvp(xr, ref_a['fx'], ref_a['coeffs'], ref_a['bd'], tf, initial_guess_y=np.zeros((order, xr.size)), **kw)(pts))
    E = rows(pts)
    txt = dict(CANON_BVP); txt.update(case['over'])
    a = {k: eval(v, env) for k, v in txt.items() if k != 'x'}
    a['x'] = xv
    a['guess'] = np.zeros((order, xr.size))
    snap = {k: freeze(v) for k, v in a.items()}
    outs = []
    for rep in range(2):
        try:
            s = solve_ode_bvp(a['x'], a['fx'], a['coeffs'], a['bd'], tf, initial_guess_y=a['guess'], **kw)
        except tuple(eval(n) for n in case.get('may_raise', [])) as e:
            return f'rejected:{type(e).__name__}'
        outs.append(np.atleast_2d(s(pts)))
        bad = changed(a, snap)
        if bad:
            raise Violation('caller-data', f"{case['what']}: solve_ode_bvp modified the caller's {bad}: now {[a[k] for k in bad]}")
    _check_echo(a['fx'], case['what'])
    _typed_compare(case['what'], R, E, outs, case.get('eq_tol', 1e-10), 1e-6)
    return 'ok'

# ---- the same objects handed to successive solves -------------------------------------------------------------------
def build_call_objects(prob, y0_kind='list'):
    order = len(prob['coeffs']) - 1
    tf = make_tf(prob)
    y0 = [float(y_deriv(prob['y'], k)(prob['span'][0])) for k in range(order)]
    mesh = mesh_of(prob)
    return dict(tf=tf, fx=rhs(prob), coeffs=[coeff_fn(c) for c in prob['coeffs']], y0=np.array(y0) if y0_kind == 'ndarray' else y0,
                span=span_of(prob), mesh=mesh, bd=[list(t) for t in bvp_conditions(prob, tf)], guess=np.zeros((order, mesh.size)),
                bd_direct=[list(t) for t in bvp_conditions(prob, None)])

SEQ_STEPS = ['ivp:P', 'bvp:P', 'ivp:Q', 'bvp:Q', 'ivp:P', 'bvp:P', 'bvp-rand:P', 'ivp-nod:P', 'ivp:Q', 'ivp-direct:P', 'ivp-direct:Q',
             'bvp-nod:Q', 'ivp:P', 'bvp-direct:P', 'bvp-direct:Q', 'bvp:Q', 'bvp:P', 'ivp-direct:P', 'bvp-direct:P']

def check_sequence(seq):
    """Problems P and Q (the same order, the same interval; when they name the same transform they share ONE transform
    object) are solved in turn with the same caller objects.  Every answer must be exact within tolerance, equal bit
    for bit to the first answer of the same call, and the caller's objects must stay as they were."""
    probs = {'P': seq['P'], 'Q': seq['Q']}
    objs = {'P': build_call_objects(seq['P'], seq.get('y0_kind', 'list')), 'Q': build_call_objects(seq['Q'], 'ndarray')}
    if seq['P']['tf'] == seq['Q']['tf']:
        objs['Q']['tf'] = objs['P']['tf']
    snap = {n: {k: freeze(v) for k, v in o.items()} for n, o in objs.items()}
    first = {}
    kept = {}
    for step_no, step in enumerate(seq.get('steps', SEQ_STEPS)):
        what, n = step.split(':')
        p, o = probs[n], objs[n]
        order = len(p['coeffs']) - 1
        a, b = float(p['span'][0]), float(p['span'][1])
        pts = np.linspace(a, b, 7)[UNSORTED7]
        fn = 'solve_ode_ivp' if what.startswith('ivp') else 'solve_ode_bvp'
        ikw = dict(method=p['method'], rtol=p['rtol'], atol=p['atol'])
        bkw = dict(tol=p['tol'], max_nodes=p['max_nodes'])
        tol = 5e3 * p['rtol'] if fn == 'solve_ode_ivp' else 1e-6
        if what == 'ivp':
            sol_ = solve_ode_ivp(o['span'], o['fx'], o['coeffs'], o['y0'], o['tf'], **ikw)
        elif what == 'ivp-nod':
            sol_ = solve_ode_ivp(o['span'], o['fx'], o['coeffs'], o['y0'], o['tf'], no_derivatives=True, **ikw)
        elif what == 'ivp-direct':
            sol_ = solve_ode_ivp(o['span'], o['fx'], o['coeffs'], o['y0'], None, **ikw)
        elif what == 'bvp':
            sol_ = solve_ode_bvp(o['mesh'], o['fx'], o['coeffs'], o['bd'], o['tf'], initial_guess_y=o['guess'], no_derivatives=False, **bkw)
        elif what == 'bvp-direct':
            sol_ = solve_ode_bvp(o['mesh'], o['fx'], o['coeffs'], o['bd_direct'], None, initial_guess_y=o['guess'], no_derivatives=False, **bkw)
        elif what == 'bvp-nod':
            sol_ = solve_ode_bvp(o['mesh'], o['fx'], o['coeffs'], o['bd'], o['tf'], initial_guess_y=o['guess'], **bkw)   # default True
        elif what == 'bvp-rand':
            state = np.random.get_state()
            np.random.seed(seq['np_seed'])
            try:
                sol_ = solve_ode_bvp(o['mesh'], o['fx'], o['coeffs'], o['bd'], o['tf'], no_derivatives=False, **bkw)   # initial_guess_y=None
            except Exception as e:
                raise Violation('default-initial-guess', f'step {step_no} ({step}): solve_ode_bvp with initial_guess_y=None raised {type(e).__name__}: {e}')
            finally:
                np.random.set_state(state)
            tol = 1e-5
        else:
            raise ValueError(step)
        out = np.asarray(sol_(pts))
        nod = what.endswith('-nod') and o['tf'] is not None
        if out.shape != ((7,) if nod else (order, 7)):
            raise Violation('shape', f'step {step_no} ({step}): {fn} returned shape {out.shape}')
        out2 = out[None, :] if nod else out
        ex = np.array([y_deriv(p['y'], k)(pts) for k in range(out2.shape[0])])
        err = float(np.max(np.abs(out2 - ex) / (1 + np.max(np.abs(ex), axis=1))[:, None]))
        if not err <= tol:
            raise Violation('default-initial-guess' if what == 'bvp-rand' else 'state-between-calls' if step_no > 0 else 'accuracy',
                            f'step {step_no} ({step}) of {seq.get("steps", SEQ_STEPS)}: {fn} is off the exact solution by {err:.3g} > {tol}')
        for m, oo in objs.items():
            bad = changed(oo, snap[m])
            if bad:
                raise Violation('caller-data', f"step {step_no} ({step}): the caller's {bad} of problem {m} was modified: now {[oo[k] for k in bad]}")
        if what != 'bvp-rand':
            if step in first and not np.array_equal(first[step][1], out):
                raise Violation('state-between-calls', f'step {step_no} ({step}): the answer differs from that of the same call at step '
                                f'{first[step][0]} by {np.max(np.abs(first[step][1] - out))}')
            first.setdefault(step, (step_no, out))
            kept.setdefault(step, (step_no, sol_, pts.copy(), out.copy()))
    # round 3 (class 10): every callable handed out earlier, used after all the later solves (same transform objects, the
    # other option values in between), still gives its first answer
    for step, (step_no, sol_, pts_, out_) in kept.items():
        now = np.asarray(sol_(pts_))
        if now.shape != out_.shape or not np.array_equal(now, out_):
            raise Violation('state-between-calls', f'the callable returned at step {step_no} ({step}), evaluated again after the later solves, '
                            f'differs from its first answer by {np.max(np.abs(now - out_)) if now.shape == out_.shape else now.shape}')
    return 'ok'

# ---- the returned callable on several points at once -------------------------------------------------------------------
def eval_points(prob, fr):
    a, b = float(prob['span'][0]), float(prob['span'][1])
    return np.array([a if u == 0.0 else b if u == 1.0 else a + (b - a) * u for u in fr])

def check_callable(prob, sol, nod, fr, tol):
    """`sol` on an unsorted array (end points exactly, a repeated point, near neighbours) against the exact solution
    and against its own evaluation one point at a time; shapes (N,) / (order, N)."""
    order = len(prob['coeffs']) - 1
    pts = eval_points(prob, fr)
    keep = pts.copy()
    full = np.asarray(sol(pts))
    if not np.array_equal(pts, keep):
        raise Violation('caller-data', 'the returned callable modified the array of points it was given')
    only_y = bool(nod and prob['tf'])
    if full.shape != ((len(pts),) if only_y else (order, len(pts))):
        raise Violation('shape', f'no_derivatives={nod}, order {order}, {len(pts)} points: returned shape {full.shape}')
    F = full[None, :] if only_y else full
    ex = np.array([y_deriv(prob['y'], k)(pts) for k in range(F.shape[0])])
    scale = 1 + np.max(np.abs(ex), axis=1)
    err = float(np.max(np.abs(F - ex) / scale[:, None]))
    if not err <= tol:
        raise Violation('unsorted-points', f'no_derivatives={nod}: on the points {pts.tolist()} the result is off the exact solution by {err:.3g} > {tol}')
    # round 3 (class 9): the array handed out belongs to the caller - after an in-place edit of it the same callable
    # must give the first answer again (a fresh array), also for the one-point calls below
    again = np.asarray(sol(pts))
    if again is full or np.shares_memory(again, full):
        raise Violation('handed-out-array', f'no_derivatives={nod}: two evaluations of the returned callable hand out the same memory')
    keep_full = full.copy()
    full *= 0.0
    full += 7.0
    third = np.asarray(sol(pts))
    if third.shape != keep_full.shape or not np.array_equal(third, keep_full):
        raise Violation('handed-out-array', f'no_derivatives={nod}: after the caller overwrote the array it was handed (in place), the callable '
                        f'returns {third.tolist()} instead of {keep_full.tolist()}')
    if not np.array_equal(pts, keep):
        raise Violation('caller-data', 'the returned callable modified the array of points it was given')
    full = keep_full
    F = full[None, :] if only_y else full
    for i in range(len(pts)):
        one = np.asarray(sol(np.array([pts[i]])))
        if one.shape != ((1,) if only_y else (order, 1)):
            raise Violation('shape', f'no_derivatives={nod}, order {order}, one point: returned shape {one.shape}')
        d = float(np.max(np.abs(one.reshape(-1) - F[:, i]) / scale))
        if not d <= 1e-11:
            raise Violation('pointwise', f'no_derivatives={nod}: column {i} (x={pts[i]!r}) evaluated with the other points is {F[:, i].tolist()}, '
                            f'evaluated alone {one.reshape(-1).tolist()}')
    return 'ok'
'''
exec(AUDIT_HELPERS, _ns)
Violation = _ns["Violation"]

# ---- round 3, part A: the equation multiplied through by a constant (classes 7, 8), amplitude homogeneity and additivity
#      in the right-hand side and the data (class 13) ------------------------------------------------------------------------
R3_HELPERS = r'''
import copy

def scaled_problem(prob, s):
    """every coefficient a_k multiplied by s (the manufactured right-hand side sum_k a_k y^(k) scales with them)"""
    p = copy.deepcopy(prob)
    for c in p['coeffs']:
        for f in (('c',) if c['kind'] == 'const' else ('c0', 'c1') if c['kind'] == 'lin' else ('s',)):
            c[f] = c[f] * s
    return p

def _rows_exact(prob, pts):
    order = len(prob['coeffs']) - 1
    ex = np.array([y_deriv(prob['y'], k)(pts) for k in range(order)])
    return ex, 1 + np.max(np.abs(ex), axis=1)

def _rel(out, ref, sc):
    return float(np.max(np.abs(out - ref) / sc[:, None]))

def check_scaled_equation(case):
    """The same problem with the whole equation multiplied through by s (leading coefficient s * a_K as small as 1e-12 *
    a_K, next to the 1e-10 of the warning, as large as 1e12 * a_K): the solution must not move."""
    prob, kind = case['prob'], case['kind']
    pts = np.linspace(prob['span'][0], prob['span'][1], 9)
    solve = (lambda p: np.atleast_2d(run_ivp(p)(pts))) if kind == 'ivp' else (lambda p: np.atleast_2d(run_bvp(p)[0](pts)))
    ex, sc = _rows_exact(prob, pts)
    base = solve(prob)
    e0 = _rel(base, ex, sc)
    if not e0 <= case['acc']:
        raise Violation('accuracy', f'unscaled problem: off the exact solution by {e0:.3g} > {case["acc"]}')
    for s in case['scales']:
        try:
            out = solve(scaled_problem(prob, s))
        except Exception as e:
            raise Violation('scaled-equation', f'equation multiplied through by {s!r}: raised {type(e).__name__}: {e}')
        d = _rel(out, base, sc)
        if not d <= case['tol']:
            raise Violation('scaled-equation', f'equation multiplied through by {s!r} (leading coefficient about {s * case["lead"]:.3g}): the returned '
                            f'rows move by {d:.3g} relative to 1 + max|y^(k)| (allowed {case["tol"]}); against the exact solution they are off by {_rel(out, ex, sc):.3g}')
    return 'ok'

def amp_ivp(prob, a, kw, y=None):
    """the problem with right-hand side a*f and initial data a*y0 (f, y0 manufactured from prob['y'] or from the spec y)"""
    order = len(prob['coeffs']) - 1
    q = dict(prob, y=y) if y is not None else prob
    xa = prob['span'][0]
    y0 = [a * float(y_deriv(q['y'], k)(xa)) for k in range(order)]
    f = rhs(q)
    return solve_ode_ivp(span_of(prob), lambda x: a * f(x), [coeff_fn(c) for c in prob['coeffs']], y0, make_tf(prob), **kw)

def amp_bvp(prob, a, kw, y=None):
    order = len(prob['coeffs']) - 1
    q = dict(prob, y=y) if y is not None else prob
    tf = make_tf(prob)
    mesh = mesh_of(prob) if tf is not None else np.linspace(prob['span'][0], prob['span'][1], prob['nmesh'])
    if tf is None:
        ends = [float(mesh[0]), float(mesh[-1])]
        bd = []
        for (i, j) in prob['bc']:
            i2 = (1 - i) if prob.get('reverse_mesh') else i
            bd.append((i2, j, a * float(y_deriv(q['y'], j)(ends[i2]))))
    else:
        bd = [(i, j, a * c) for i, j, c in bvp_conditions(q, tf)]
    f = rhs(q)
    return solve_ode_bvp(mesh, lambda x: a * f(x), [coeff_fn(c) for c in prob['coeffs']], bd, tf,
                         initial_guess_y=np.zeros((order, mesh.size)), no_derivatives=False, **kw)

def check_homogeneity(case):
    """V[a f, a data] = a V[f, data] for the amplitudes (a, bound) of the case, and V[f1 + f2, d1 + d2] = V[f1, d1] + V[f2, d2];
    mode 'scaled-atol' (solve_ode_ivp only): atol = 1e-6 |a| is passed along, then every step of the integrator scales
    with a (bit for bit when a is a power of two); mode 'default': every tolerance keyword left at its default."""
    prob, kind, mode = case['prob'], case['kind'], case['mode']
    amp = amp_ivp if kind == 'ivp' else amp_bvp
    pts = np.linspace(prob['span'][0], prob['span'][1], 9)
    ex, sc = _rows_exact(prob, pts)
    try:
        base = np.atleast_2d(amp(prob, 1.0, {})(pts))
    except Exception as e:
        raise Violation('default-tolerances', f'all tolerance keywords left out: raised {type(e).__name__}: {e}')
    e0 = _rel(base, ex, sc)
    if not e0 <= case['acc']:
        raise Violation('default-tolerances', f'all tolerance keywords left out: off the exact solution by {e0:.3g} > {case["acc"]}')
    for a, bound in case['amplitudes']:
        kw = {'atol': 1e-6 * abs(a)} if mode == 'scaled-atol' else {}
        try:
            out = np.atleast_2d(amp(prob, a, kw)(pts))
        except Exception as e:
            raise Violation('homogeneity', f'right-hand side and data multiplied by {a!r} ({mode}): raised {type(e).__name__}: {e}')
        d = _rel(out / a, base, sc)
        if not d <= bound:
            raise Violation('homogeneity', f'right-hand side and data multiplied by {a!r} ({mode}): V[a f]/a differs from V[f] by {d:.3g} relative to '
                            f'1 + max|y^(k)| (allowed {bound}); V[a f]/a is off the exact solution by {_rel(out / a, ex, sc):.3g}')
    if case.get('second'):
        y2 = case['second']
        ex2, sc2 = _rows_exact(dict(prob, y=y2), pts)
        o2 = np.atleast_2d(amp(prob, 1.0, {}, y=y2)(pts))
        # the sum of the two manufactured problems: right-hand sides and data added
        order = len(prob['coeffs']) - 1
        f1, f2 = rhs(prob), rhs(dict(prob, y=y2))
        if kind == 'ivp':
            xa = prob['span'][0]
            y0 = [float(y_deriv(prob['y'], k)(xa)) + float(y_deriv(y2, k)(xa)) for k in range(order)]
            both = solve_ode_ivp(span_of(prob), lambda x: f1(x) + f2(x), [coeff_fn(c) for c in prob['coeffs']], y0, make_tf(prob))
        else:
            tf = make_tf(prob)
            mesh = mesh_of(prob) if tf is not None else np.linspace(prob['span'][0], prob['span'][1], prob['nmesh'])
            if tf is None:
                ends = [float(mesh[0]), float(mesh[-1])]
                bd = []
                for (i, j) in prob['bc']:
                    i2 = (1 - i) if prob.get('reverse_mesh') else i
                    bd.append((i2, j, float(y_deriv(prob['y'], j)(ends[i2])) + float(y_deriv(y2, j)(ends[i2]))))
            else:
                bd = [(i, j, c + c2) for (i, j, c), (_, _, c2) in zip(bvp_conditions(prob, tf), bvp_conditions(dict(prob, y=y2), tf))]
            both = solve_ode_bvp(mesh, lambda x: f1(x) + f2(x), [coeff_fn(c) for c in prob['coeffs']], bd, tf,
                                 initial_guess_y=np.zeros((order, mesh.size)), no_derivatives=False)
        ob = np.atleast_2d(both(pts))
        d = _rel(ob, base + o2, sc + sc2)
        if not d <= case['add_bound']:
            raise Violation('additivity', f'V[f1 + f2, d1 + d2] differs from V[f1, d1] + V[f2, d2] by {d:.3g} (allowed {case["add_bound"]})')
    return 'ok'

def check_end_of_domain(case):
    """A problem whose interval ends d = 1e-2 .. 1e-4 from an end of the transform's domain (at the singular end r and the
    derivatives of the transform are finite but huge: 1e16 and more), through the transform: rows against the exact solution
    (row k to tol[k]: the r-derivatives are tiny there and their errors are multiplied by powers of g'), and against the
    direct solve."""
    prob, kind = case['prob'], case['kind']
    pts = np.linspace(prob['span'][0], prob['span'][1], 9)
    solve = (lambda tf: run_ivp(prob, tf=tf)) if kind == 'ivp' else (lambda tf: run_bvp(prob, tf=tf)[0])
    try:
        out = np.atleast_2d(solve('given')(pts))
    except Exception as e:
        raise Violation('end-of-domain', f'raised {type(e).__name__}: {e}')
    ex, sc = _rows_exact(prob, pts)
    tol = case['tol']
    errs = [float(np.max(np.abs(out[k] - ex[k])) / sc[k]) for k in range(len(tol))]
    if not all(e <= t for e, t in zip(errs, tol)):
        raise Violation('end-of-domain', f'through {prob["tf"]} on {prob["span"]}: relative errors of the rows [y, y\', ..] = {errs} exceed {tol}')
    if case.get('direct'):
        outd = np.atleast_2d(solve(None)(pts))
        diff = [float(np.max(np.abs(out[k] - outd[k])) / sc[k]) for k in range(len(tol))]
        if not all(e <= 2 * t for e, t in zip(diff, tol)):
            raise Violation('end-of-domain', f'through {prob["tf"]} on {prob["span"]}: the rows differ from the direct solve by {diff} (allowed {[2 * t for t in tol]})')
    return 'ok'
'''
exec(R3_HELPERS, _ns)
_AUDIT_HEADER = HELPERS + AUDIT_HELPERS + R3_HELPERS + "\nimport signal; signal.alarm(300)\n"

# ---- round 4: evaluation arrays of every kind (classes 14, 20), transform parameters of every scalar kind (14), argument
#      forms (15), one argument object for several requests / views into larger arrays (16), raising calls (18) ----------------
R4_HELPERS = r'''
def _eval_kinds(a, b, order, fr, f32=False):
    # -> [(label, array-like, strict)]: strict kinds are 1-D float arrays (documented input, must be right); the others may
    # be rejected with TypeError / IndexError / ValueError, but an answer that is given must be right
    u = [a + (b - a) * f for f in fr]                       # three interior points
    asc = np.array(sorted([a, u[0], u[1], u[2], b]))
    big = np.zeros(12)
    big[1::2] = [u[2], a, u[0], b, u[1], u[0]]
    big[0::2] = 1e300                                        # (never read: a read through the wrong stride would show)
    ro = big[1::2][:4]
    ro.setflags(write=False)
    mid = u[1]
    strict = [
        ('descending:negative-stride-view', asc[::-1]), ('strided-read-only-view', ro),
        ('shuffled-with-duplicates', np.array([u[1], b, u[0], a, u[1], u[0]])), ('all-equal', np.array([mid, mid])),
        ('one-point', np.array([b])), ('two-points-descending', np.array([b, a])),
        ('as-many-points-as-rows', np.array([b, a, u[0]][:max(order, 1)])),
    ] + ([('float32', np.array([u[0], u[2], u[1]]).astype(np.float32))] if f32 else [])
    loose = [
        ('list', [u[2], a, u[0]]), ('tuple', (b, u[1])), ('0-d-array', np.array(u[0])), ('python-float', float(u[2])),
        ('2-d:(2,3)-fortran', np.asfortranarray(np.array([[u[2], a, u[0]], [b, u[1], u[0]]]))), ('2-d:(1,2)', np.array([[b, a]])),
        ('2-d:(2,1)', np.array([[u[1]], [a]])), ('empty', np.array([])),
    ]
    return [(l, v, True) for l, v in strict] + [(l, v, False) for l, v in loose]

def check_callable_kinds(prob, sol, nod, fr, tol, f32=False):
    # The callable on evaluation arrays of every kind: descending, views with negative / non-unit stride, read-only,
    # duplicates, all points equal, 1 / 2 / `order` points, float32; lists, tuples, 0-d, 2-D shapes with unequal dimensions.
    # Reference: the exact solution, and the callable itself on the sorted array of the distinct points (bit-level agreement
    # of each column with that evaluation, whatever the position of the point in the array).
    order = len(prob['coeffs']) - 1
    a, b = float(prob['span'][0]), float(prob['span'][1])
    only_y = bool(nod and prob['tf'])
    rows = 1 if only_y else order
    kinds = _eval_kinds(a, b, order, fr, f32)
    allpts = np.unique(np.concatenate([np.asarray(v, dtype=float).ravel() for l, v, st in kinds if l != 'float32']))
    ref = np.asarray(sol(allpts))
    ref = ref[None, :] if only_y else np.atleast_2d(ref)
    if ref.shape != (rows, allpts.size):
        raise Violation('shape', f'{allpts.size} ascending points: returned shape {ref.shape}')
    ex = np.array([y_deriv(prob['y'], k)(allpts) for k in range(rows)])
    scale = 1 + np.max(np.abs(ex), axis=1)
    err = float(np.max(np.abs(ref - ex) / scale[:, None]))
    if not err <= tol:
        raise Violation('unsorted-points', f'ascending distinct points {allpts.tolist()}: off the exact solution by {err:.3g} > {tol}')
    for label, v, strict in kinds:
        keep = np.array(v, dtype=float, copy=True) if not isinstance(v, (list, tuple, float)) else None
        try:
            out = np.asarray(sol(v))
        except (TypeError, IndexError, ValueError) as e:
            if strict:
                raise Violation('evaluation-array', f'no_derivatives={nod}, points {label} = {np.asarray(v).tolist()}: raised {type(e).__name__}: {e}')
            continue
        if keep is not None and not np.array_equal(np.asarray(v, dtype=float), keep):
            raise Violation('caller-data', f'points {label}: the callable modified the array of points it was given')
        pv = np.asarray(v, dtype=float)
        want_shape = pv.shape if only_y else (order,) + pv.shape
        if out.shape != want_shape:
            if strict:
                raise Violation('shape', f'no_derivatives={nod}, order {order}, points {label} of shape {pv.shape}: returned shape {out.shape}')
            continue     # (a 0-d point with no_derivatives=True hands back the integrator's vector: recorded assumption)
        O = out.reshape((rows, -1))
        flat = pv.ravel()
        if label == 'float32':
            # interior points in single precision (the transform then computes in single precision): y itself to 5e-5
            exk = y_deriv(prob['y'], 0)(flat)
            d = float(np.max(np.abs(O[0] - exk)) / scale[0])
            bound = max(tol, 5e-5)
        else:
            idx = np.searchsorted(allpts, flat)
            d = float(np.max(np.abs(O - ref[:, idx]) / scale[:, None])) if flat.size else 0.0
            bound = 1e-11
        if not d <= bound:
            raise Violation('evaluation-array', f'no_derivatives={nod}, order {order}, points {label} = {pv.tolist()}: the returned rows '
                            f'{O.tolist()} differ by {d:.3g} (relative, allowed {bound}) from the rows the same callable gives for the same points in ascending order')
    return 'ok'

def check_param_kinds(case):
    # class 14: the scalars held by the transform object as Python ints, NumPy integers, np.float64, 0-d arrays (same values:
    # bit-identical answers expected) and np.float32 (single-precision transform: 5e-5)
    prob = case['prob']
    kind = case['kind']
    pts = np.linspace(prob['span'][0], prob['span'][1], 7)[UNSORTED7]
    solve = (lambda p: np.atleast_2d(run_ivp(p)(pts))) if kind == 'ivp' else (lambda p: np.atleast_2d(run_bvp(p)[0](pts)))
    ref = solve(dict(prob, tf=case['tf_float']))
    ex, sc = _rows_exact(prob, pts)
    e0 = _rel(ref, ex, sc)
    if not e0 <= case['acc']:
        raise Violation('accuracy', f'Python-float parameters {case["tf_float"]}: off the exact solution by {e0:.3g} > {case["acc"]}')
    for label, text, bound in case['variants']:
        try:
            out = solve(dict(prob, tf=text))
        except Exception as e:
            raise Violation('transform-parameters', f'{text}: raised {type(e).__name__}: {e}')
        d = _rel(out, ref, sc) if out.shape == ref.shape else float('inf')
        if not d <= bound:
            raise Violation('transform-parameters', f'{text} ({label}): the rows differ from those with Python-float parameters {case["tf_float"]} by {d:.3g} (allowed {bound})')
    return 'ok'

def check_argument_forms(case):
    # class 15: positional vs keyword, omitted vs explicit None vs explicit default: every form must give bit for bit the
    # answer of the plain call
    prob, kind = case['prob'], case['kind']
    order = len(prob['coeffs']) - 1
    tf = make_tf(prob)
    pts = np.linspace(prob['span'][0], prob['span'][1], 7)[UNSORTED7]
    f = rhs(prob)
    co = [coeff_fn(c) for c in prob['coeffs']]
    if kind == 'ivp':
        y0 = [float(y_deriv(prob['y'], k)(prob['span'][0])) for k in range(order)]
        sp = span_of(prob)
        plain = (lambda: solve_ode_ivp(sp, f, co, y0, tf)) if tf is not None else (lambda: solve_ode_ivp(sp, f, co, y0))
        forms = {
            'all-keywords': lambda: solve_ode_ivp(x_span=sp, fx=f, coeffs=co, y0=y0, transform=tf),
            'keywords-in-another-order': lambda: solve_ode_ivp(transform=tf, y0=y0, coeffs=co, fx=f, x_span=sp),
            'defaults-written-out': lambda: solve_ode_ivp(sp, f, co, y0, tf, method='DOP853', no_derivatives=False, rtol=1e-8, atol=1e-6),
            'defaults-positional': lambda: solve_ode_ivp(sp, f, co, y0, tf, 'DOP853', False, 1e-8, 1e-6),
            'transform-by-keyword': lambda: solve_ode_ivp(sp, f, co, y0, transform=tf),
        }
        if tf is None:
            forms['transform-explicit-None'] = lambda: solve_ode_ivp(sp, f, co, y0, None)
    else:
        mesh = mesh_of(prob) if tf is not None else np.linspace(prob['span'][0], prob['span'][1], prob['nmesh'])
        bd = bvp_conditions(prob, tf) if tf is not None else run_bvp_bd(prob)
        g = np.zeros((order, mesh.size))
        plain = lambda: solve_ode_bvp(mesh, f, co, bd, tf, initial_guess_y=g)
        forms = {
            'all-keywords': lambda: solve_ode_bvp(x=mesh, fx=f, coeffs=co, bd_cond=bd, transform=tf, initial_guess_y=g),
            'keywords-in-another-order': lambda: solve_ode_bvp(initial_guess_y=g, transform=tf, bd_cond=bd, coeffs=co, fx=f, x=mesh),
            'defaults-written-out': lambda: solve_ode_bvp(mesh, f, co, bd, tf, tol=1e-4, max_nodes=5000, initial_guess_y=g, no_derivatives=True),
            'defaults-positional': lambda: solve_ode_bvp(mesh, f, co, bd, tf, 1e-4, 5000, g, True),
        }
        if tf is None:
            forms['transform-omitted'] = lambda: solve_ode_bvp(mesh, f, co, bd, initial_guess_y=g)
            forms['transform-explicit-None'] = lambda: solve_ode_bvp(mesh, f, co, bd, None, 1e-4, 5000, g)
    ref = np.asarray(plain()(pts))
    ex, sc = _rows_exact(prob, pts)
    R = np.atleast_2d(ref)
    if kind == 'bvp' and tf is not None:
        R = ref[None, :] if ref.ndim == 1 else ref       # default no_derivatives=True: y only
    e0 = _rel(R[:1], ex[:1], sc[:1])
    if not e0 <= case['acc']:
        raise Violation('default-tolerances', f'plain call with every default: y off the exact solution by {e0:.3g} > {case["acc"]}')
    for label, call in forms.items():
        try:
            out = np.asarray(call()(pts))
        except Exception as e:
            raise Violation('argument-form', f'{label}: raised {type(e).__name__}: {e}')
        if out.shape != ref.shape or not np.array_equal(out, ref):
            raise Violation('argument-form', f'{label}: the answer (shape {out.shape}) differs from that of the plain call (shape {ref.shape}) by '
                            f'{np.max(np.abs(out - ref)) if out.shape == ref.shape else "shape"}')
    return 'ok'

def run_bvp_bd(prob):
    # boundary data of the direct solve, as run_bvp poses them
    mesh = np.linspace(prob['span'][0], prob['span'][1], prob['nmesh'])
    ends = [float(mesh[0]), float(mesh[-1])]
    bd = []
    for (i, j) in prob['bc']:
        i2 = (1 - i) if prob.get('reverse_mesh') else i
        bd.append((i2, j, float(y_deriv(prob['y'], j)(ends[i2]))))
    return bd

def check_shared_arguments(case):
    # class 16: ONE array object serves as y0 of the initial-value solve, as the values of the boundary conditions, as a row of
    # the initial guess and as the evaluation points; ONE mesh / coefficient array serves both solvers, two and three times; the
    # arrays are views into larger caller arrays.  Every answer must equal the one computed from pristine copies, and not a
    # byte of the caller's arrays (views and what surrounds them) may change.
    order = case['order']
    CO = COEF[order]
    tf = eval(case['tf']) if case['tf'] else None
    big = np.full(4 * order + 9, 7.25)
    shared = big[3:3 + order]                       # y0 AND the boundary values
    shared[:] = [1.5, -0.25, 0.75][:order]
    cbig = np.full(2 * (order + 1) + 4, -3.5)
    co = cbig[2:2 + 2 * (order + 1):2]              # strided view: the coefficients
    co[:] = CO
    mbig = np.full(23, 9.5)
    mesh = mbig[4:13]                               # the mesh AND the evaluation points
    mesh[:] = np.linspace(1.0, 2.0, 9)
    fx = lambda x: 1.0 + 0 * np.asarray(x, dtype=float)
    snap = [v.copy() for v in (big, cbig, mbig)]
    P = dict(y0=list(map(float, shared)), co=list(map(float, co)), mesh=mesh.copy())
    kw = dict(method=case.get('method', 'DOP853'), rtol=1e-10, atol=1e-12)
    bc = [(0, j) for j in range(order)]
    def bd_of(vals):
        return [(i, j, float(vals[j])) for (i, j) in bc]
    ref_i = np.atleast_2d(solve_ode_ivp((1.0, 2.0), fx, P['co'], P['y0'], tf, **kw)(P['mesh']))
    ref_b = np.atleast_2d(solve_ode_bvp(P['mesh'], fx, P['co'], bd_of(P['y0']), tf, tol=1e-8, max_nodes=20000,
                                        initial_guess_y=np.zeros((order, 9)), no_derivatives=False)(P['mesh']))
    E = cc_exact_ivp(order, P['co'], 1.0, 0.0, 1.0, P['y0'])(P['mesh'])
    sc = 1 + np.max(np.abs(E))
    if not np.max(np.abs(ref_i - E)) <= 1e-7 * sc:
        raise Violation('canonical', f'pristine arguments: solve_ode_ivp off the exact solution by {np.max(np.abs(ref_i - E)) / sc:.3g}')
    def unchanged(step):
        for name, v, w in zip(('y0 / boundary values', 'coefficients', 'mesh / points'), (big, cbig, mbig), snap):
            if not np.array_equal(v, w):
                raise Violation('caller-data', f'{step}: the caller array holding the {name} changed: {v.tolist()} (was {w.tolist()})')
    for step in case['steps']:
        if step == 'ivp':
            out = np.atleast_2d(solve_ode_ivp((1.0, 2.0), fx, co, shared, tf, **kw)(mesh))
            ref = ref_i
        elif step == 'bvp':
            guess = np.zeros((order, 9))
            out = np.atleast_2d(solve_ode_bvp(mesh, fx, co, bd_of(shared), tf, tol=1e-8, max_nodes=20000, initial_guess_y=guess,
                                              no_derivatives=False)(mesh))
            ref = ref_b
        else:                                           # the SAME array as every row of the initial guess and as the mesh
            guess = np.broadcast_to(mesh, (order, 9))
            out = np.atleast_2d(solve_ode_bvp(mesh, fx, co, bd_of(shared), tf, tol=1e-8, max_nodes=20000, initial_guess_y=guess,
                                              no_derivatives=False)(mesh))
            ref = None
        unchanged(step)
        if ref is not None and (out.shape != ref.shape or not np.array_equal(out, ref)):
            raise Violation('shared-argument', f'step {step} of {case["steps"]}: with the shared / view arguments the answer differs from the one with '
                            f'pristine copies by {np.max(np.abs(out - ref)) if out.shape == ref.shape else out.shape}')
        if ref is None and not np.max(np.abs(out - ref_b)) <= 1e-6 * (1 + np.max(np.abs(ref_b))):
            raise Violation('shared-argument', f'step {step}: differs from the solve with a zero guess by {np.max(np.abs(out - ref_b)):.3g}')
    return 'ok'

def check_raise_no_trace(case):
    # class 18: an accepted solve, then calls that end in an exception (with the very same objects), then the accepted solve
    # again: bit for bit the first answer; the caller objects unchanged
    prob = case['prob']
    order = len(prob['coeffs']) - 1
    o = build_call_objects(prob, 'ndarray')
    snap = {k: freeze(v) for k, v in o.items()}
    pts = np.linspace(prob['span'][0], prob['span'][1], 7)[UNSORTED7]
    ikw = dict(method=prob['method'], rtol=prob['rtol'], atol=prob['atol'])
    bkw = dict(tol=prob['tol'], max_nodes=prob['max_nodes'], no_derivatives=False)
    good = {'ivp': lambda: solve_ode_ivp(o['span'], o['fx'], o['coeffs'], o['y0'], o['tf'], **ikw)(pts),
            'bvp': lambda: solve_ode_bvp(o['mesh'], o['fx'], o['coeffs'], o['bd'], o['tf'], initial_guess_y=o['guess'], **bkw)(pts)}
    first = {k: np.asarray(g()) for k, g in good.items()}
    ex, sc = _rows_exact(prob, pts)
    for k, v in first.items():
        if v.shape != ex.shape or not _rel(v, ex, sc) <= case['acc'][k]:
            raise Violation('accuracy', f'{k}: first solve off the exact solution by {_rel(v, ex, sc) if v.shape == ex.shape else v.shape}')
    lo, hi = o['tf'].domain if o['tf'] is not None else (-np.inf, np.inf)
    outside = (float(o['span'][0]), float(hi) + 1.0) if np.isfinite(hi) else (float(lo) - 1.0, float(o['span'][1]))
    bad = {
        'ivp:too-few-initial-values': lambda: solve_ode_ivp(o['span'], o['fx'], o['coeffs'], o['y0'][:-1], o['tf'], **ikw),
        'ivp:order-4-with-transform': lambda: solve_ode_ivp(o['span'], o['fx'], list(o['coeffs']) + [1.0], list(o['y0']) + [0.0], o['tf'], **ikw),
        'ivp:span-outside-the-domain': lambda: solve_ode_ivp(outside, o['fx'], o['coeffs'], o['y0'], o['tf'], **ikw),
        'ivp:coefficient-of-a-wrong-type': lambda: solve_ode_ivp(o['span'], o['fx'], list(o['coeffs'][:-1]) + ['1.0'], o['y0'], o['tf'], **ikw),
        'ivp:right-hand-side-raises': lambda: solve_ode_ivp(o['span'], (lambda x: (_ for _ in ()).throw(ZeroDivisionError('rhs'))), o['coeffs'], o['y0'], o['tf'], **ikw),
        'ivp:unknown-method': lambda: solve_ode_ivp(o['span'], o['fx'], o['coeffs'], o['y0'], o['tf'], method='no-such-method'),
        'bvp:too-many-conditions': lambda: solve_ode_bvp(o['mesh'], o['fx'], o['coeffs'], list(o['bd']) + [[0, 0, 1.0]], o['tf'], initial_guess_y=o['guess'], **bkw),
        'bvp:node-budget-of-3': lambda: solve_ode_bvp(o['mesh'], o['fx'], o['coeffs'], o['bd'], o['tf'], initial_guess_y=o['guess'], tol=1e-13, max_nodes=3, no_derivatives=False),
        'bvp:condition-on-a-row-that-does-not-exist': lambda: solve_ode_bvp(o['mesh'], o['fx'], o['coeffs'], [[0, order + 2, 1.0]] + [list(t) for t in o['bd'][1:]], o['tf'], initial_guess_y=o['guess'], **bkw),
        'bvp:guess-of-a-wrong-shape': lambda: solve_ode_bvp(o['mesh'], o['fx'], o['coeffs'], o['bd'], o['tf'], initial_guess_y=np.zeros((order + 1, 3)), **bkw),
        'callable:point-list': lambda: good_sol(['a']),
    }
    good_sol = solve_ode_ivp(o['span'], o['fx'], o['coeffs'], o['y0'], o['tf'], **ikw)
    raised = 0
    for name in case['bad']:
        if o['tf'] is None and name in ('ivp:span-outside-the-domain', 'ivp:order-4-with-transform'):
            continue
        try:
            bad[name]()
        except Exception:
            raised += 1
        for k2, v in o.items():
            if freeze(v) != snap[k2]:
                raise Violation('caller-data', f'after the rejected call {name}: the caller object {k2} changed')
        for k, g in good.items():
            if not case.get('both') and name[:3] in ('ivp', 'bvp') and k != name[:3]:
                continue          # (quick tier: after a raising solve_ode_ivp call the accepted solve_ode_ivp call, and likewise for bvp)
            again = np.asarray(g())
            if again.shape != first[k].shape or not np.array_equal(again, first[k]):
                raise Violation('trace-of-a-raising-call', f'after the call {name} (which ended in an exception) the accepted {k} solve differs from the same '
                                f'solve before it by {np.max(np.abs(again - first[k])) if again.shape == first[k].shape else again.shape}')
        now = np.asarray(good_sol(pts))
        if not np.array_equal(now, first['ivp']):
            raise Violation('trace-of-a-raising-call', f'after the call {name} a callable obtained earlier answers differently')
    if raised == 0:
        raise Violation('trace-of-a-raising-call', 'none of the malformed calls was rejected')
    return 'ok'
'''
exec(R4_HELPERS, _ns)
_AUDIT_HEADER = HELPERS + AUDIT_HELPERS + R3_HELPERS + R4_HELPERS + "\nimport signal; signal.alarm(300)\n"

# ---- round 5: sizes past block boundaries (21), precision kinds of direct inputs (23), scale parameters independent of the data
#      (24), in-place reuse of one argument object (25), two instances that differ in one hidden dependency (26) ------------------
R5_HELPERS = r'''
def _solver(prob, kind, nod=False, tf='given'):
    if kind == 'ivp':
        order = len(prob['coeffs']) - 1
        y0 = [float(y_deriv(prob['y'], k)(prob['span'][0])) for k in range(order)]
        return solve_ode_ivp(span_of(prob), rhs(prob), [coeff_fn(c) for c in prob['coeffs']], y0, make_tf(prob) if tf == 'given' else tf,
                             method=prob['method'], rtol=prob['rtol'], atol=prob['atol'], no_derivatives=nod)
    return run_bvp(prob, tf=tf, no_derivatives=nod)[0]

def check_many_points(case):
    # class 21: n evaluation points (n just above a power of two / a round decimal, in shuffled order): the answer for all
    # points at once must be, bit for bit, the concatenation of the answers for two parts of the array and for single
    # elements next to the block boundaries, and right against the exact solution
    prob, kind, n, nod = case['prob'], case['kind'], case['n'], case['nod']
    order = len(prob['coeffs']) - 1
    a, b = float(prob['span'][0]), float(prob['span'][1])
    pts = a + (b - a) * np.random.RandomState(case['seed']).permutation(n) / (n - 1.0)
    sol = _solver(prob, kind, nod)
    only_y = bool(nod and prob['tf'])
    rows = 1 if only_y else order
    full = np.asarray(sol(pts))
    if full.shape != ((n,) if only_y else (order, n)):
        raise Violation('shape', f'{n} points: returned shape {full.shape}')
    F = full.reshape(rows, n)
    ex = np.array([y_deriv(prob['y'], k)(pts) for k in range(rows)])
    sc = 1 + np.max(np.abs(ex), axis=1)
    bad = np.abs(F - ex) / sc[:, None] > case['tol']
    if bad.any():
        j = int(np.argmax(bad.any(axis=0)))
        raise Violation('many-points', f'{n} evaluation points: {int(bad.any(axis=0).sum())} columns are off the exact solution by more than {case["tol"]}, '
                        f'the first at index {j} (x = {pts[j]!r}): {F[:, j].tolist()} instead of {ex[:, j].tolist()}')
    for n1 in case['splits']:
        parts = np.concatenate([np.asarray(sol(pts[:n1])).reshape(rows, -1), np.asarray(sol(pts[n1:])).reshape(rows, -1)], axis=1)
        if parts.shape != F.shape or not np.array_equal(parts, F):
            j = int(np.argmax((parts != F).any(axis=0))) if parts.shape == F.shape else -1
            raise Violation('many-points', f'{n} evaluation points: the answer for the whole array differs from the answers for [:{n1}] and [{n1}:] '
                            f'put together (first at index {j}: {F[:, j].tolist() if j >= 0 else parts.shape} vs {parts[:, j].tolist() if j >= 0 else F.shape})')
    for i in sorted({0, n - 1} | {m + d for m in (2 ** k for k in range(5, 21)) for d in (-1, 0) if 0 <= m + d < n})[-14:]:
        one = np.asarray(sol(pts[i:i + 1])).reshape(rows)
        if not np.array_equal(one, F[:, i]):
            raise Violation('many-points', f'{n} evaluation points: column {i} is {F[:, i].tolist()}, the same point evaluated alone gives {one.tolist()}')
    return 'ok'

def check_helper_sizes(case):
    # class 21 on the array helpers of ode.py themselves (cheap: no solve): N points against two parts and single points
    from grid import ode as _ode
    n, order = case['n'], case['order']
    rs = np.random.RandomState(case['seed'])
    x = rs.uniform(-0.6, 0.6, n)
    tf = eval(case['tf'])
    coeffs = [(lambda t, c=c, k=k: c * (1.0 + 0.25 * np.sin((k + 1) * t))) if k % 2 else float(c) for k, c in enumerate(case['a'])]
    y = rs.uniform(-2, 2, (order, n))
    f = lambda t: np.cos(1.5 * t) + 0.3
    def calls(xs, ys):
        cb = _ode._transform_ode_from_rtransform(coeffs, tf, xs)
        return [np.asarray(_ode._evaluate_coeffs_on_points(xs, coeffs)), np.asarray(cb),
                np.asarray(_ode._rearrange_to_explicit_ode(ys, cb, f(xs)))[None, :],
                np.asarray(_ode._transform_and_rearrange_to_explicit_ode(xs, ys, coeffs, tf, f))[None, :]]
    names = ['_evaluate_coeffs_on_points', '_transform_ode_from_rtransform', '_rearrange_to_explicit_ode', '_transform_and_rearrange_to_explicit_ode']
    with warnings.catch_warnings():
        warnings.simplefilter('ignore')
        full = calls(x, y)
        for n1 in case['splits']:
            A, B = calls(x[:n1], y[:, :n1]), calls(x[n1:], y[:, n1:])
            for nm, F, pa, pb in zip(names, full, A, B):
                P = np.concatenate([pa, pb], axis=1)
                if P.shape != F.shape or not np.array_equal(P, F):
                    j = int(np.argmax((P != F).any(axis=0))) if P.shape == F.shape else -1
                    raise Violation('helper-sizes', f'{nm} on {n} points (shape {F.shape}) differs from its values on the parts [:{n1}], [{n1}:] '
                                    f'(shape {P.shape}), first at column {j}')
        for i in (0, n1 - 1, n1, n - 1):
            one = calls(x[i:i + 1], y[:, i:i + 1])
            for nm, F, o in zip(names, full, one):
                if not np.array_equal(o[:, 0], F[:, i]):
                    raise Violation('helper-sizes', f'{nm} on {n} points: column {i} is {F[:, i].tolist()}, the point alone gives {o[:, 0].tolist()}')
    return 'ok'

_NARROW = {'longdouble': (np.longdouble, 1e-12), 'float32': (np.float32, 5e-5), 'float16': (np.float16, 5e-2), 'int': (np.int64, 1e-12)}

def check_precision_kinds(case):
    # class 23: span / y0 / mesh / guess / boundary values / evaluation points given directly as longdouble, float32, float16
    # or integer data (values exactly representable in every one of them): the float64 answer to the precision of the
    # narrower type, the argument unchanged, a second call with the same argument object equal to the first
    order, kind = case['order'], case['kind']
    CO = COEF[order]
    tf = eval(case['tf']) if case['tf'] else None
    fx = lambda x: 1.0 + 0 * np.asarray(x, dtype=float)
    y0 = [1.5, -0.25, 0.75][:order]
    mesh = np.linspace(1.0, 3.0, 9)
    pts = np.array([2.5, 1.0, 3.0, 1.75, 2.0, 1.0])
    ipts = np.array([3, 1, 2, 1])
    bdv = [0.5, -1.25, 2.0][:order]
    def solve(sp, yy, mm, gg, bv, pp):
        if kind == 'ivp':
            return np.atleast_2d(solve_ode_ivp(sp, fx, CO, yy, tf, rtol=1e-10, atol=1e-12)(pp))
        bd = [(0, j, bv[j]) for j in range(order)]
        return np.atleast_2d(solve_ode_bvp(mm, fx, CO, bd, tf, tol=1e-8, max_nodes=20000, initial_guess_y=gg, no_derivatives=False)(pp))
    base = dict(sp=(1.0, 3.0), yy=list(y0), mm=mesh, gg=np.zeros((order, 9)), bv=list(bdv), pp=pts)
    ref = solve(**base)
    refi = solve(**dict(base, pp=ipts.astype(float)))
    sc = 1 + np.max(np.abs(ref))
    for tname, what in case['variants']:
        T, tol = _NARROW[tname]
        args = dict(base)
        want = ref
        if what == 'span':
            args['sp'] = (T(1), T(3)) if tname == 'int' else (T(1.0), T(3.0))
        elif what == 'y0':
            args['yy'] = np.array(y0, dtype=T) if tname != 'int' else np.array([2, -1, 1][:order])
            if tname == 'int':
                want = solve(**dict(base, yy=[2.0, -1.0, 1.0][:order]))
        elif what == 'mesh':
            args['mm'] = mesh.astype(T) if tname != 'int' else np.arange(1, 4)
            if tname == 'int':
                args['gg'] = np.zeros((order, 3))
                want = solve(**dict(base, mm=np.array([1.0, 2.0, 3.0]), gg=np.zeros((order, 3))))
        elif what == 'guess':
            args['gg'] = np.zeros((order, 9), dtype=T)
        elif what == 'boundary-values':
            args['bv'] = [T(v) for v in bdv] if tname != 'int' else [np.int64(1), np.int64(-2), np.int64(2)][:order]
            if tname == 'int':
                want = solve(**dict(base, bv=[1.0, -2.0, 2.0][:order]))
        elif what == 'points':
            args['pp'] = pts.astype(T) if tname != 'int' else ipts
            if tname == 'int':
                want = refi
        if (what in ('span', 'y0') and kind != 'ivp') or (what in ('mesh', 'guess', 'boundary-values') and kind != 'bvp'):
            continue
        if tname == 'float16' and tf is not None and what in ('span', 'mesh', 'points'):
            continue     # (half-precision abscissae make rtransform compute in half precision: overflow to inf inside e.g.
                         #  InverseRTransform(HandyModRTransform(0.1, 10, 3)) on the unchanged tree - only without a transform)
        held = {k: v for k, v in args.items() if isinstance(v, np.ndarray)}
        snap = {k: (v.dtype, v.tobytes()) for k, v in held.items()}
        try:
            o1 = solve(**args)
            o2 = solve(**args)
        except Exception as e:
            raise Violation('precision-kinds', f'{what} given as {tname}: raised {type(e).__name__}: {e}')
        for k, v in held.items():
            if (v.dtype, v.tobytes()) != snap[k]:
                raise Violation('caller-data', f'{what} given as {tname}: the argument was modified (dtype {v.dtype}, now {v.tolist()})')
        if o1.shape != want.shape or not np.max(np.abs(o1 - want)) <= tol * sc:
            raise Violation('precision-kinds', f'{what} given as {tname}: differs from the float64 answer by '
                            f'{np.max(np.abs(o1 - want)) / sc if o1.shape == want.shape else o1.shape} (allowed {tol})')
        if not np.array_equal(o1, o2):
            raise Violation('precision-kinds', f'{what} given as {tname}: a second call with the same argument objects differs by {np.max(np.abs(o1 - o2))}')
    return 'ok'

def check_scale_sequence(case):
    # class 24: ONE transform object (its scale parameter given explicitly, or inferred by the library at its first use)
    # serves several different problems in sequence - different intervals, beyond b, initial- and boundary-value - each
    # answer against the exact solution (the solution does not depend on the scale)
    tf = eval(case['tf'])
    for step, (kind, prob) in enumerate(case['steps']):
        pts = np.linspace(prob['span'][0], prob['span'][1], 9)
        try:
            sol = _solver(prob, kind, False, tf)
            out = np.atleast_2d(sol(pts))
        except Exception as e:
            raise Violation('scale-parameter', f'step {step} ({kind} on {prob["span"]}) with the transform object {case["tf"]} used since step 0: raised {type(e).__name__}: {e}')
        ex, sc = _rows_exact(prob, pts)
        e = _rel(out, ex, sc) if out.shape == ex.shape else float('inf')
        if not e <= case['tol'][kind]:
            raise Violation('scale-parameter', f'step {step} ({kind} on {prob["span"]}) with the transform object {case["tf"]} used since step 0: off the exact '
                            f'solution by {e:.3g} > {case["tol"][kind]}')
    return 'ok'

def check_inplace_reuse(case):
    # class 25: the SAME array objects (y0, coefficients, mesh, guess, boundary list, evaluation points) are filled with new
    # contents in place between two calls: the second answer must be the one for fresh copies of the new contents, and the
    # callable obtained first must still give its first answer
    order, kind = case['order'], case['kind']
    tf = eval(case['tf']) if case['tf'] else None
    fx = lambda x: 1.0 + 0 * np.asarray(x, dtype=float)
    A = dict(y0=np.array([1.5, -0.25, 0.75][:order]), co=np.array(COEF[order], dtype=float), mesh=np.linspace(1.0, 2.0, 9),
             guess=np.zeros((order, 9)), bd=[[0, j, [0.5, -1.25, 2.0][j]] for j in range(order)], pts=np.array([1.75, 1.0, 2.0, 1.25]))
    def solve(a):
        if kind == 'ivp':
            return solve_ode_ivp((float(a['mesh'][0]), float(a['mesh'][-1])), fx, a['co'], a['y0'], tf, rtol=1e-10, atol=1e-12)
        return solve_ode_bvp(a['mesh'], fx, a['co'], a['bd'], tf, tol=1e-8, max_nodes=20000, initial_guess_y=a['guess'], no_derivatives=False)
    s1 = solve(A)
    o1 = np.array(s1(A['pts']))
    keep_pts = A['pts'].copy()
    # new contents, in place
    A['y0'][:] = [-0.5, 1.0, 0.25][:order]
    A['co'] *= -2.0
    A['mesh'][:] = np.linspace(1.5, 3.0, 9)
    A['guess'] += 1.0
    for j in range(order):
        A['bd'][j][2] = [1.0, 0.5, -0.75][j]
    A['pts'][:] = [2.75, 1.5, 3.0, 2.0]
    s2 = solve(A)
    o2 = np.array(s2(A['pts']))
    B = {k: (np.array(v, copy=True) if isinstance(v, np.ndarray) else [list(t) for t in v]) for k, v in A.items()}
    fresh = np.array(solve(B)(B['pts']))
    if o2.shape != fresh.shape or not np.array_equal(o2, fresh):
        raise Violation('inplace-reuse', f'second call with the same array objects refilled in place: differs from the call with fresh copies of the new contents by '
                        f'{np.max(np.abs(o2 - fresh)) if o2.shape == fresh.shape else o2.shape}')
    again = np.array(s1(keep_pts))
    # (solve_ode_ivp without a transform hands the caller's float64 y0 array itself to SciPy's solve_ivp, whose dense output keeps it
    #  as the start of its first segment: after `y0[:] = new` the callable obtained earlier starts from the new values - observed on
    #  the unchanged tree, reported, not asserted here; with a transform and for solve_ode_bvp the library builds its own arrays)
    if not (kind == 'ivp' and tf is None) and not np.array_equal(again, o1):
        raise Violation('inplace-reuse', f'the callable obtained before the arguments were refilled in place now answers differently (by {np.max(np.abs(again - o1))})')
    E = cc_exact_ivp(order, list(B['co']), 1.0, 0.0, 1.5, list(B['y0']))(B['pts']) if kind == 'ivp' else None
    if E is not None and not np.max(np.abs(o2 - E)) <= 1e-7 * (1 + np.max(np.abs(E))):
        raise Violation('inplace-reuse', f'second call: off the exact solution for the new contents by {np.max(np.abs(o2 - E)):.3g}')
    return 'ok'

def check_two_instances(case):
    # class 26: two problems P and Q that differ in exactly one hidden dependency, solved and evaluated in one process in
    # either order and interleaved; each answer against the one obtained when its problem came first
    P, Q = case['P'], case['Q']
    def run(first, second):
        s_a = _solver(first[1], first[0], first[2])
        pa = np.linspace(first[1]['span'][0], first[1]['span'][1], 7)[UNSORTED7]
        o_a = np.array(s_a(pa))
        s_b = _solver(second[1], second[0], second[2])
        pb = np.linspace(second[1]['span'][0], second[1]['span'][1], 7)[UNSORTED7]
        o_b = np.array(s_b(pb))
        o_a2 = np.array(s_a(pa))          # the first callable, after the second instance exists and was used
        o_b2 = np.array(s_b(pb))
        return o_a, o_b, o_a2, o_b2
    pa, qb, pa2, qb2 = run(P, Q)
    qa, pb, qa2, pb2 = run(Q, P)
    for label, x, y in (('P after Q', pb, pa), ('Q after P', qb, qa), ('P evaluated again after Q was built', pa2, pa),
                        ('Q evaluated again', qb2, qb), ('Q first, evaluated again after P was built', qa2, qa), ('P second, evaluated again', pb2, pb)):
        if x.shape != y.shape or not np.array_equal(x, y):
            raise Violation('two-instances', f'{case["what"]}: {label} differs from the answer obtained when it came first by '
                            f'{np.max(np.abs(x - y)) if x.shape == y.shape else (x.shape, y.shape)}')
    for name, (kind, prob, nod), o in (('P', P, pa), ('Q', Q, qa)):
        pts = np.linspace(prob['span'][0], prob['span'][1], 7)[UNSORTED7]
        ex, sc = _rows_exact(prob, pts)
        O = np.atleast_2d(o)
        e = _rel(O[:1], ex[:1], sc[:1])
        if not e <= case['tol']:
            raise Violation('accuracy', f'{case["what"]}: {name} alone is off the exact solution by {e:.3g}')
    return 'ok'
'''
exec(R5_HELPERS, _ns)
_AUDIT_HEADER = HELPERS + AUDIT_HELPERS + R3_HELPERS + R4_HELPERS + R5_HELPERS + "\nimport signal; signal.alarm(300)\n"


def _guarded(setup, call):
    """snippet tail: any exception of the library on a legitimate input counts as a failure (AssertionError)"""
    return (_AUDIT_HEADER + setup + "try:\n    " + call.replace("\n", "\n    ") +
            "\nexcept AssertionError:\n    raise\nexcept Exception as e:\n    raise AssertionError(f'raised {type(e).__name__}: {e}')\n")


def _audit_call(ctx, fn, args, key_of, describe, witness, snippet, case, tag, nontrivial=True):
    """Run one audit check of AUDIT_HELPERS; a Violation / any exception becomes an oracle failure with a stable key.
    `key_of(tag)` maps the class of the violation to the failure key."""
    if "_search_t0" in ctx.extra and _search_left(ctx) <= 0:
        return True          # the failing-input search after a broken tie has used up its wall-clock cap
    ctx.count(case, nontrivial=nontrivial, tag=tag)
    try:
        with time_limit(SOLVE_TIME_LIMIT):
            res = _ns[fn](*args)
        if isinstance(res, str) and res.startswith("rejected"):
            ctx.tagc(tag + ":" + res)
        return True
    except Violation as v:
        ctx.fail("oracle", key_of(v.tag), f"{describe}: {v}", witness=witness, snippet=snippet)
    except Exception as e:
        ctx.fail("oracle", key_of("raised"), f"{describe}: raised {type(e).__name__}: {e}", witness=witness, snippet=snippet)
    return False


# ---- class 2: container kind / dtype of every argument ------------------------------------------------------------------
_TYPED_TFS_12 = [        # transforms whose domain contains the interval [1, 3] of the typed cases (integers included)
    "InverseRTransform(BeckeRTransform(0.1, 1.5))",
    "ExpRTransform(0.1, 5.0, b=4.0)",
    "InverseRTransform(KnowlesRTransform(0.1, 1.5, 2))",
    "PowerRTransform(0.1, 5.0, b=4.0)",
    "InverseRTransform(HandyModRTransform(0.1, 10.0, 3))",
    "InverseRTransform(MultiExpRTransform(0.1, 1.5))",
]
_RO = "(lambda a: (a.setflags(write=False), a)[1])"        # make an array read-only

# round 4 (class 17): value kinds of what the user's callables return / of the numbers in coeffs and y0.  Complex values with a
# vanishing imaginary part are either treated as the real number or rejected (TypeError: NumPy refuses the cast into the float
# coefficient table); a right-hand side with a NON-zero imaginary part is outside the property (SciPy's real integrators drop it
# with a ComplexWarning).  (what, over, extra, "ivp" = only for solve_ode_ivp / "both")
_KINDS4 = "[np.full(np.shape(x), V), np.full(np.shape(x), V, dtype=np.float32), V, np.array(V)]"
R4_VALUE_KINDS = [
    ("fx=bool-array", {"fx": "lambda x: np.ones(np.shape(x), dtype=bool)"}, {"C": 1.0}, "both"),
    ("fx=longdouble-array", {"fx": "lambda x: np.full(np.shape(x), 0.75, dtype=np.longdouble)"}, {"C": 0.75, "eq_tol": 1e-9}, "both"),
    ("fx=complex128-zero-imaginary-part", {"fx": "lambda x: np.full(np.shape(x), 0.75 + 0j)"}, {"C": 0.75, "may_raise": ["TypeError"]}, "both"),
    ("fx=python-complex-zero-imaginary-part", {"fx": "lambda x: complex(0.75, 0.0)"}, {"C": 0.75, "may_raise": ["TypeError"]}, "both"),
    ("fx=0-d-array", {"fx": "lambda x: np.array(0.75)"}, {"C": 0.75}, "both"),
    ("fx=np.float32-scalar", {"fx": "lambda x: np.float32(0.75)"}, {"C": 0.75}, "both"),
    ("fx=kind-changes-from-call-to-call",
     {"fx": "(lambda n=[0], V=0.75: (lambda x: (n.__setitem__(0, n[0] + 1), " + _KINDS4 + "[n[0] % 4])[1]))()"}, {"C": 0.75}, "both"),
    ("coeffs=callables-returning-0-d-array", {"coeffs": "[(lambda x, c=c: np.array(c)) for c in CO]"}, {}, "both"),
    ("coeffs=callables-returning-longdouble", {"coeffs": "[(lambda x, c=c: np.full(x.shape, c, dtype=np.longdouble)) for c in CO]"}, {"eq_tol": 1e-9}, "both"),
    ("coeffs=callable-returning-bool-leading", {"coeffs": "list(CO[:-1]) + [lambda x: np.ones(x.shape, dtype=bool)]"}, {}, "both"),
    ("coeffs=callables-returning-complex-zero-imaginary-part", {"coeffs": "[(lambda x, c=c: np.full(x.shape, c + 0j)) for c in CO]"}, {"may_raise": ["TypeError"]}, "both"),
    ("coeffs=python-complex-zero-imaginary-part", {"coeffs": "[complex(c, 0.0) for c in CO]"}, {"may_raise": ["TypeError"]}, "both"),
    ("coeffs=np.longdouble", {"coeffs": "[np.longdouble(c) for c in CO]"}, {"eq_tol": 1e-9}, "both"),
    ("coeffs=kind-changes-from-call-to-call",
     {"coeffs": "[(lambda x, V=c, n=[0]: (n.__setitem__(0, n[0] + 1), " + _KINDS4 + "[n[0] % 4])[1]) for c in CO]"}, {}, "both"),
    ("y0=longdouble-array", {"y0": "np.array(Y0, dtype=np.longdouble)"}, {"eq_tol": 1e-9}, "ivp"),
    ("y0=list-of-0-d-arrays-and-bools", {"y0": "[np.array(2.0), True, np.float32(0.5)][:ORDER]"}, {}, "ivp"),
]

TYPED_IVP = [
    # (what, over, extra case fields)
    ("y0=tuple", {"y0": "tuple(Y0)"}, {}),
    ("y0=ndarray-float64", {"y0": "np.array(Y0)"}, {}),
    ("y0=ndarray-float32", {"y0": "np.array(Y0, dtype=np.float32)"}, {}),
    ("y0=list-of-np.float64", {"y0": "[np.float64(v) for v in Y0]"}, {}),
    ("y0=list-of-np.float32", {"y0": "[np.float32(v) for v in Y0]"}, {}),
    ("y0=python-ints", {"y0": "[2, -1, 1][:ORDER]"}, {}),
    ("y0=tuple-of-ints", {"y0": "(2, -1, 1)[:ORDER]"}, {}),
    ("y0=ndarray-int64", {"y0": "np.array([2, -1, 1][:ORDER], dtype=np.int64)"}, {}),
    ("y0=ndarray-int32", {"y0": "np.array([3, 1, -2][:ORDER], dtype=np.int32)"}, {}),
    ("y0=read-only-array", {"y0": _RO + "(np.array(Y0))"}, {}),
    ("y0=non-contiguous-array", {"y0": "np.array([1.5, 9.0, -0.25, 9.0, 0.75, 9.0])[:2 * ORDER:2]"}, {}),
    ("y0=list-of-0d-arrays", {"y0": "[np.array(v) for v in Y0]"}, {}),
    ("span=list", {"span": "[1.0, 2.0]"}, {}),
    ("span=ndarray", {"span": "np.array([1.0, 2.0])"}, {}),
    ("span=np.float64-tuple", {"span": "(np.float64(1.0), np.float64(2.0))"}, {}),
    ("span=python-ints", {"span": "(1, 2)"}, {}),
    ("span=python-ints-backward", {"span": "(3, 1)"}, {}),
    ("span=list-of-ints", {"span": "[1, 3]"}, {}),
    # np.float32 end points: the transform (its derivatives at x_span[0]) is then evaluated in single precision by
    # rtransform, the answer carries a 5e-8 error; not a documented input type -> only float32 accuracy is asked for
    ("span=np.float32-tuple", {"span": "(np.float32(1.0), np.float32(2.5))"}, {"eq_tol_tf": 1e-5}),
    ("coeffs=tuple", {"coeffs": "tuple(CO)"}, {}),
    ("coeffs=ndarray-float64", {"coeffs": "np.array(CO)"}, {}),
    ("coeffs=ndarray-float32", {"coeffs": "np.array(CO, dtype=np.float32)"}, {}),
    ("coeffs=list-of-np.float32", {"coeffs": "[np.float32(c) for c in CO]"}, {}),
    ("coeffs=list-of-np.float64", {"coeffs": "[np.float64(c) for c in CO]"}, {}),
    ("coeffs=python-ints", {"coeffs": "[int(c) for c in CO]"}, {"scale": 8.0, "C": 8.0}),
    ("coeffs=np.int64", {"coeffs": "[np.int64(c) for c in CO]"}, {"scale": -8.0, "C": 4.0}),
    ("coeffs=ndarray-int", {"coeffs": "np.array([int(c) for c in CO])"}, {"scale": 8.0, "C": -8.0}),
    ("coeffs=bool-leading", {"coeffs": "list(CO[:-1]) + [True]"}, {}),
    ("coeffs=callables-returning-scalar", {"coeffs": "[(lambda x, c=c: c) for c in CO]"}, {}),
    ("coeffs=callables-returning-array", {"coeffs": "[(lambda x, c=c: np.full(x.shape, c)) for c in CO]"}, {}),
    ("coeffs=callables-returning-float32-array", {"coeffs": "[(lambda x, c=c: np.full(x.shape, c, dtype=np.float32)) for c in CO]"}, {}),
    ("coeffs=callables-returning-int-array", {"coeffs": "[(lambda x, c=c: np.full(x.shape, int(c))) for c in CO]"}, {"scale": 8.0, "C": 8.0}),
    ("coeffs=callables-returning-read-only-array", {"coeffs": "[(lambda x, c=c: " + _RO + "(np.full(x.shape, c))) for c in CO]"}, {}),
    ("coeffs=callable-returning-cached-array",
     {"coeffs": "[(lambda x, c=c, m={}: m.setdefault(x.size, np.full(x.shape, c))) for c in CO]"}, {}),
    ("coeffs=numbers-and-callables-mixed", {"coeffs": "[CO[0], (lambda x: CO[1])] + [(lambda x, c=c: c + 0 * x) for c in CO[2:]]"}, {}),
    ("fx=int-array", {"fx": "lambda x: np.ones_like(x, dtype=int)"}, {"C": 1.0}),
    ("fx=float32-array", {"fx": "lambda x: np.full(np.shape(x), 0.75, dtype=np.float32)"}, {"C": 0.75}),
    ("fx=python-scalar", {"fx": "lambda x: 2.0"}, {"C": 2.0}),
    ("fx=python-int-scalar", {"fx": "lambda x: 2"}, {"C": 2.0}),
    ("fx=identity-returns-its-argument", {"fx": "EchoFx()"}, {"C": 0.0, "C1": 1.0}),
    ("fx=read-only-array", {"fx": "lambda x: " + _RO + "(np.full(np.shape(x), 1.0))"}, {}),
    ("fx=cached-array", {"fx": "lambda x, m={}: m.setdefault(np.size(x), np.full(np.shape(x), 1.0))"}, {}),
] + [(w, o, e) for w, o, e, k in R4_VALUE_KINDS]

TYPED_BVP = [
    ("bd_cond=list-of-tuples", {"bd": "[tuple(t) for t in BD]"}, {}),
    ("bd_cond=tuple-of-tuples", {"bd": "tuple(tuple(t) for t in BD)"}, {}),
    ("bd_cond=tuple-of-lists", {"bd": "tuple(list(t) for t in BD)"}, {}),
    ("bd_cond=np.int64-indices", {"bd": "[(np.int64(i), np.int64(j), c) for i, j, c in BD]"}, {"order": 3}),
    ("bd_cond=np.int32-indices-np.float64-value", {"bd": "[[np.int32(i), np.int32(j), np.float64(c)] for i, j, c in BD]"}, {"order": 3}),
    ("bd_cond=bool-end-index", {"bd": "[(bool(i), j, c) for i, j, c in BD]"}, {}),
    ("bd_cond=object-array-rows", {"bd": "[np.array([i, j, c], dtype=object) for i, j, c in BD]"}, {"order": 3}),
    # (index entries come back as floats: the library rejects them with TypeError - not a documented container)
    ("bd_cond=float-array-rows", {"bd": "[np.array([i, j, c]) for i, j, c in BD]"}, {"may_raise": ["TypeError", "IndexError"], "order": 3}),
    ("bd_cond=2d-float-array", {"bd": "np.array(BD)"}, {"may_raise": ["TypeError", "IndexError"], "order": 3}),
    ("bd_cond=reordered", {"bd": "[list(t) for t in BD][::-1]"}, {}),
    ("x=float32", {"x": "np.linspace(1.0, 2.0, 9).astype(np.float32)"}, {"eq_tol_tf": 1e-5}),
    ("x=int-array", {"x": "np.arange(1, 4)"}, {}),
    ("x=non-contiguous", {"x": "np.linspace(1.0, 3.0, 17)[::2]"}, {}),
    ("x=read-only", {"x": _RO + "(np.linspace(1.0, 2.0, 9))"}, {}),
    ("coeffs=tuple", {"coeffs": "tuple(CO)"}, {}),
    ("coeffs=ndarray-float32", {"coeffs": "np.array(CO, dtype=np.float32)"}, {}),
    ("coeffs=python-ints", {"coeffs": "[int(c) for c in CO]"}, {"scale": 8.0, "C": 8.0}),
    ("coeffs=callables-returning-scalar", {"coeffs": "[(lambda x, c=c: c) for c in CO]"}, {}),
    ("coeffs=callable-returning-cached-array",
     {"coeffs": "[(lambda x, c=c, m={}: m.setdefault(x.size, np.full(x.shape, c))) for c in CO]"}, {}),
    ("fx=int-array", {"fx": "lambda x: np.ones_like(x, dtype=int)"}, {"C": 1.0}),
    ("fx=float32-array", {"fx": "lambda x: np.full(np.shape(x), 0.75, dtype=np.float32)"}, {"C": 0.75}),
    ("fx=identity-returns-its-argument", {"fx": "EchoFx()"}, {"C": 0.0, "C1": 1.0}),
    ("fx=read-only-array", {"fx": "lambda x: " + _RO + "(np.full(np.shape(x), 1.0))"}, {}),
    ("fx=cached-array", {"fx": "lambda x, m={}: m.setdefault(np.size(x), np.full(np.shape(x), 1.0))"}, {}),
] + [(w, o, e) for w, o, e, k in R4_VALUE_KINDS if k != "ivp"]
_TYPED_BC = {1: [[(0, 0)], [(1, 0)]], 2: [[(0, 0), (1, 1)], [(0, 1), (1, 0)], [(0, 1), (1, 1)]],
             3: [[(0, 0), (1, 2), (0, 1)], [(1, 0), (0, 2), (1, 1)], [(0, 2), (1, 2), (0, 0)]]}


def _audit_containers(ctx, only=None):
    rng = ctx.rng
    kinds = (only or {}).get("kinds", {"ivp", "bvp"})
    orders = (only or {}).get("orders", {1, 2, 3})
    reps = ctx.n(1, 3) if not only else 2
    k = rng.randrange(100)
    for kind, table in (("ivp", TYPED_IVP), ("bvp", TYPED_BVP)):
        if kind not in kinds:
            continue
        fn = f"solve_ode_{kind}"
        for what, over, extra in table:
            for rep in range(reps):
                # each variant: once directly, once through a (rotating) non-affine transform; orders rotating
                tfs = _TYPED_TFS_12 if kind == "ivp" else _TYPED_TFS_12[:-1]      # the last one is decreasing: IVP only
                r4kind = any(what == w for w, _, _, _ in R4_VALUE_KINDS)
                pick_tf = (k // 2) % 2 == 1
                for tf in ("", tfs[k % len(tfs)]):
                    k += 1
                    if r4kind and reps == 1 and bool(tf) != pick_tf:
                        continue      # quick tier: the value kinds of round 4 once each, directly / through a transform alternating
                    order = extra.get("order", [3, 2, 3, 2, 1][k % 5])     # (index kinds: order 3, so that a (., 2) condition occurs)
                    if order not in orders:
                        order = sorted(orders)[-1]
                    case = {"order": order, "tf": tf, "what": what, "over": over,
                            "method": ["DOP853", "RK45", "LSODA", "DOP853", "BDF"][k % 5] if kind == "ivp" else None}
                    case.update({f: v for f, v in extra.items() if f not in ("order", "eq_tol_tf")})
                    if tf and "eq_tol_tf" in extra:
                        case["eq_tol"] = extra["eq_tol_tf"]
                    if kind == "bvp":
                        case["bc"] = _TYPED_BC[order][k % len(_TYPED_BC[order])]
                        case["amp"] = [rng.randrange(-8, 9) / 8 or 0.5 for _ in range(3)]
                    else:
                        case["y0"] = [rng.randrange(-16, 17) / 8 for _ in range(3)]

                    def key_of(tag, fn=fn, what=what):
                        return {"caller-data": f"ode.{fn}:caller-data", "repeat-call": f"ode.{fn}:repeat-call",
                                "canonical": f"ode.{fn}:constant-coefficients", "callback-argument": f"ode.{fn}:callback-argument"
                                }.get(tag, f"ode.{fn}:container:{what}")
                    _audit_call(ctx, f"check_typed_{kind}", (case,), key_of,
                                f"{fn}, order {order}, {tf or 'no transform'}, argument kind {what}",
                                case, _guarded(f"case = {case!r}\n", f"check_typed_{kind}(case)"),
                                ["typed", kind, case], f"audit:{kind}:container:{what.split('=')[0]}", nontrivial=bool(tf))


# ---- class 1/3: the same caller objects over successive solves ------------------------------------------------------------
def _bvp_functional_cond(prob, bc):
    """Conditioning of the boundary-value problem, independently of grid.ode: fundamental matrix of the homogeneous
    equation by SciPy in the ORIGINAL variable, boundary functionals as documented (derivatives w.r.t. r if a transform
    is given).  Used only to keep generated condition sets well-posed."""
    from scipy.integrate import solve_ivp
    order = len(prob["coeffs"]) - 1
    mesh = mesh_of(prob)
    ends = [float(mesh[0]), float(mesh[-1])]
    tf = make_tf(prob)

    def f(x, Y):
        Y = Y.reshape(order, order)
        a = [float(coeff_val(c, np.array([x]))[0]) for c in prob["coeffs"]]
        last = -sum(a[k] * Y[k] for k in range(order)) / a[order]
        return np.vstack((Y[1:], last[None, :])).ravel()
    res = solve_ivp(f, (ends[0], ends[1]), np.eye(order).ravel(), rtol=1e-8, atol=1e-10)
    phi = [np.eye(order), res.y[:, -1].reshape(order, order)]
    rows = []
    for i, j in bc:
        P = phi[i]
        if tf is not None and j >= 1:
            g1, g2 = float(tf.deriv(np.array([ends[i]]))[0]), float(tf.deriv2(np.array([ends[i]]))[0])
            rows.append(P[1] / g1 if j == 1 else (P[2] - g2 * P[1] / g1) / g1 ** 2)
        else:
            rows.append(P[j])
    F = np.array(rows)
    F = F / np.max(np.abs(F), axis=1, keepdims=True)
    return float(np.linalg.cond(F))


BC_KINDS = ["mixed", "derivatives-only", "one-end", "with-second-derivative", "mixed", "value-and-derivative-at-both-ends"]


def _choose_bc(rng, order, kind):
    pairs = [(i, j) for i in (0, 1) for j in range(order)]
    if order == 1:
        return [rng.choice(pairs)]
    if kind == "derivatives-only":                       # e.g. (0,1),(1,1); order 3: + a second-derivative condition
        sel = [(0, 1), (1, 1)] if order == 2 else rng.choice([[(0, 1), (1, 1), (0, 2)], [(0, 1), (1, 1), (1, 2)], [(0, 2), (1, 2), (0, 1)], [(0, 2), (1, 2), (1, 1)]])
    elif kind == "one-end":                              # IVP-like
        i = rng.randrange(2)
        sel = [(i, j) for j in range(order)]
    elif kind == "with-second-derivative" and order == 3:
        sel = [(rng.randrange(2), 2)] + rng.sample([(i, j) for i in (0, 1) for j in (0, 1)], 2)
    elif kind == "value-and-derivative-at-both-ends":
        sel = [(0, 0), (1, 1)] if order == 2 else [(0, 0), (1, 1), (rng.randrange(2), 2)]
    else:
        while True:
            sel = rng.sample(pairs, order)
            if any(j == 0 for _, j in sel):
                break
    sel = list(sel)
    rng.shuffle(sel)
    return sel


def _gen_bvp_problem(rng, order, name, cat, kind, max_cond=60.0):
    """a manufactured BVP whose boundary functionals are well conditioned (checked independently of the library)"""
    for attempt in range(12):
        prob = gen_problem(rng, order, name, cat)
        prob.update(nmesh=rng.choice([8, 12, 20]), tol=BVP_TOL, max_nodes=20000, reverse_mesh=bool(cat[name][2].get("decreasing")))
        for _ in range(3):
            sel = _choose_bc(rng, order, kind if attempt < 8 else "mixed")
            try:
                cond = _bvp_functional_cond(prob, sel)
            except Exception:
                cond = float("inf")
            if cond <= max_cond:
                prob.update(bc=[list(p) for p in sel], bc_kind=kind if attempt < 8 else "mixed", bc_cond=cond)
                return prob
    prob.update(bc=[[0, j] for j in range(order)], bc_kind="one-end", bc_cond=None)
    return prob


def _audit_sequences(ctx, cat, only=None):
    rng = ctx.rng
    orders = sorted((only or {}).get("orders", {1, 2, 3}))
    names = [n for n in cat if n != "none" and not cat[n][2].get("affine") and not cat[n][2].get("no_bvp")
             and not cat[n][2].get("decreasing") and not cat[n][2].get("np_span") and not cat[n][2].get("bvp_tol_factor")]
    nseq = ctx.n(3, 12) if not only else 4
    k = rng.randrange(100)
    for s in range(nseq):
        order = orders[::-1][s % len(orders)]
        nameP = names[(k + 5 * s) % len(names)]
        same = s % 2 == 0                           # P and Q through ONE transform object / through different transforms
        cands = [n for n in names if cat[n][1] == cat[nameP][1] and (n == nameP) == same]
        nameQ = rng.choice(cands or [nameP])
        P = _gen_bvp_problem(rng, order, nameP, cat, BC_KINDS[(k + s) % len(BC_KINDS)])
        Q = _gen_bvp_problem(rng, order, nameQ, cat, BC_KINDS[(k + s + 1) % len(BC_KINDS)])
        for p, m in ((P, ["DOP853", "RK45", "LSODA", "BDF"][(k + s) % 4]), (Q, ["RK45", "LSODA", "BDF", "DOP853"][(k + s) % 4])):
            p.update(method=m, rtol=METHODS[m], atol=METHODS[m] * 1e-2)
        seq = {"P": P, "Q": Q, "y0_kind": ["ndarray", "list"][s % 2], "np_seed": rng.randrange(2 ** 31)}

        def key_of(tag):
            return {"caller-data": "ode.solve_ode_ivp:caller-data", "shape": "ode.solve_ode:returned-shape",
                    "default-initial-guess": "ode.solve_ode_bvp:default-initial-guess",
                    "accuracy": f"ode.solve_ode_ivp:order{order}:{nameP}"}.get(tag, "ode.solve_ode:state-between-calls")
        _audit_call(ctx, "check_sequence", (seq,), key_of,
                    f"successive solves with the same caller objects (order {order}, P through {P['tf']}, Q through {Q['tf']})",
                    seq, _guarded(f"seq = {seq!r}\n", "check_sequence(seq)"), ["sequence", seq], f"audit:sequence:order{order}",
                    nontrivial=True)


def _audit_returned_callable(ctx, prob, sol, fn, nod, tol):
    """the callable just obtained (no extra solve): unsorted points, end points, repeats; one point at a time"""
    rng = ctx.rng
    u = [round(rng.uniform(0.05, 0.9), 3) for _ in range(3)]
    fr = [u[0], 1.0, u[1], 0.0, u[0], round(u[1] + 0.03, 3), u[2]]
    runner = "run_ivp(prob)" if fn == "solve_ode_ivp" else "run_bvp(prob)[0]"
    if nod:
        runner = ("solve_ode_ivp(span_of(prob), rhs(prob), [coeff_fn(c) for c in prob['coeffs']], "
                  "[float(y_deriv(prob['y'], k)(prob['span'][0])) for k in range(len(prob['coeffs']) - 1)], make_tf(prob), "
                  "method=prob['method'], rtol=prob['rtol'], atol=prob['atol'], no_derivatives=True)") if fn == "solve_ode_ivp" \
            else "run_bvp(prob, no_derivatives=True)[0]"
    snippet = _guarded(f"prob = {prob!r}\n", f"sol = {runner}\ncheck_callable(prob, sol, {bool(nod)}, {fr!r}, {tol!r})")

    def key_of(tag):
        return {"shape": f"ode.{fn}:returned-shape", "raised": f"ode.{fn}:returned-callable:raised"}.get(tag, f"ode.{fn}:returned-callable:{tag}")
    ok = _audit_call(ctx, "check_callable", (prob, sol, nod, fr, tol), key_of,
                     f"callable returned by {fn} (order {len(prob['coeffs']) - 1}, {prob['tf'] or 'no transform'}, no_derivatives={nod})",
                     {"problem": prob, "fractions_of_the_interval": fr}, snippet, ["callable", fn, bool(nod), fr, prob],
                     f"audit:{fn[10:]}:returned-callable" + (":no_derivatives" if nod else ""), nontrivial=bool(prob["tf"]))
    # round 4: the same callable on evaluation arrays of every kind (descending, negative / non-unit strides, read-only,
    # duplicates, 1 / 2 / `order` points, float32; lists, 0-d, 2-D shapes with unequal dimensions)
    fr3 = u
    # (single-precision points only for the ordinary problems of the catalogue: with extreme parameters / intervals the transform's
    #  own single-precision arithmetic - the precision the caller chose - costs more than the 5e-5 asked for)
    entry = _CATALOGUE.get(prob.get("tfname"))
    f32 = bool(entry and entry[0] == prob["tf"] and sorted(entry[1]) == sorted(float(v) for v in prob["span"]) and "x0" not in prob["y"])
    snippet2 = _guarded(f"prob = {prob!r}\n", f"sol = {runner}\ncheck_callable_kinds(prob, sol, {bool(nod)}, {fr3!r}, {tol!r}, {f32!r})")
    ok2 = _audit_call(ctx, "check_callable_kinds", (prob, sol, nod, fr3, tol, f32), key_of,
                      f"callable returned by {fn} (order {len(prob['coeffs']) - 1}, {prob['tf'] or 'no transform'}, no_derivatives={nod}) on evaluation arrays of every kind",
                      {"problem": prob, "fractions_of_the_interval": fr3}, snippet2, ["callable-kinds", fn, bool(nod), fr3, prob],
                      f"audit:{fn[10:]}:evaluation-array-kinds" + (":no_derivatives" if nod else ""), nontrivial=bool(prob["tf"]))
    return ok and ok2


def snippet_nod(prob, kind):
    run = {"ivp": "sol = run_ivp(prob)\n"
                  "s2 = solve_ode_ivp(span_of(prob), rhs(prob), [coeff_fn(c) for c in prob['coeffs']], "
                  "[float(y_deriv(prob['y'], k)(prob['span'][0])) for k in range(len(prob['coeffs']) - 1)], make_tf(prob), "
                  "method=prob['method'], rtol=prob['rtol'], atol=prob['atol'], no_derivatives=True)\n",
           "bvp": "sol = run_bvp(prob)[0]\ns2 = run_bvp(prob, no_derivatives=True)[0]\n"}[kind]
    return (HELPERS + f"\nimport signal; signal.alarm(300)\nprob = {prob!r}\n" + run +
            "p = np.linspace(prob['span'][0], prob['span'][1], 9)\no, o2 = np.atleast_2d(sol(p)), np.asarray(s2(p))\n"
            "o2 = o2 if prob['tf'] else o2[0]\n"
            "assert o2.shape == (9,) and np.max(np.abs(o2 - o[0])) <= 1e-9 * (1 + np.max(np.abs(o[0]))), "
            "f'no_derivatives=True: shape {o2.shape}; row 0 of the full answer {o[0]}, got {o2}'\n")


# ---- class 6: extreme but legitimate parameters ----------------------------------------------------------------------------
def _gentle_solution(rng, length):
    """a smooth solution whose variation over an interval of the given length stays moderate"""
    s = min(1.0, 3.0 / length)
    return {"ce": rng.uniform(-1, 1), "al": rng.uniform(-1.2, 1.2) * s, "cs": rng.uniform(-1, 1), "be": rng.uniform(0.5, 2.5) * s,
            "ph": rng.uniform(0, 6.28), "p": [rng.uniform(-1, 1), rng.uniform(-1, 1) * s, rng.uniform(-1, 1) * s ** 2, rng.uniform(-1, 1) * s ** 3]}


EXTREME_TFS = {
    # label -> (catalogue entry that carries the flags, constructor text, span of the ORIGINAL variable)
    "becke-next-to-lower-domain-end": ("BeckeRTransform", "BeckeRTransform(0.1, 1.5)", (-0.999, 0.5)),
    "becke-towards-upper-domain-end": ("BeckeRTransform", "BeckeRTransform(0.1, 1.5)", (0.0, 0.95)),
    "knowles3-next-to-lower-domain-end": ("KnowlesRTransform:k=3", "KnowlesRTransform(0.1, 1.5, 3)", (-0.97, 0.0)),
    "knowles3-towards-upper-domain-end": ("KnowlesRTransform:k=3", "KnowlesRTransform(0.1, 1.5, 3)", (0.0, 0.97)),
    "handymod3-next-to-upper-domain-end": ("HandyModRTransform:m=3", "HandyModRTransform(0.1, 10.0, 3)", (-0.9, 0.99)),
    "handymod2-next-to-both-domain-ends": ("HandyModRTransform:m=2", "HandyModRTransform(0.1, 10.0, 2)", (-0.99, 0.99)),
    "handy2-next-to-lower-domain-end": ("HandyRTransform:m=2", "HandyRTransform(0.1, 1.5, 2)", (-0.99, 0.5)),
    "multiexp-next-to-both-domain-ends": ("MultiExpRTransform", "MultiExpRTransform(0.1, 1.5)", (-0.99, 0.999)),
    "inverse-knowles2-r-from-1e-3": ("Inverse(KnowlesRTransform):k=2", "InverseRTransform(KnowlesRTransform(1e-4, 1.5, 2))", (1e-3, 1.0)),
    "exp-from-the-domain-end-0": ("ExpRTransform", "ExpRTransform(0.1, 5.0, b=4.0)", (0.0, 1.2)),
    # r over orders of magnitude (long integrations: one of them per quick run, all in the thorough tier)
    "inverse-becke-r-from-1e-3-to-50": ("Inverse(BeckeRTransform)", "InverseRTransform(BeckeRTransform(1e-4, 1.5))", (1e-3, 50.0)),
    "inverse-knowles2-r-from-1e-2-to-20": ("Inverse(KnowlesRTransform):k=2", "InverseRTransform(KnowlesRTransform(1e-4, 1.5, 2))", (1e-2, 20.0)),
    "inverse-handymod3-r-from-1e-3-to-50": ("Inverse(HandyModRTransform):m=3", "InverseRTransform(HandyModRTransform(1e-4, 100.0, 3))", (1e-3, 50.0)),
    "inverse-multiexp-r-from-1e-3-to-20": ("Inverse(MultiExpRTransform)", "InverseRTransform(MultiExpRTransform(1e-4, 1.5))", (1e-3, 20.0)),
    "identity-long-span": ("IdentityRTransform", "IdentityRTransform()", (1e-3, 40.0)),
    "no-transform-long-span": ("none", "", (-20.0, 20.0)),
    "becke-very-short-span": ("BeckeRTransform", "BeckeRTransform(0.1, 1.5)", (0.25, 0.251)),
    "inverse-becke-very-short-span": ("Inverse(BeckeRTransform)", "InverseRTransform(BeckeRTransform(0.1, 1.5))", (0.7, 0.7005)),
}
# calibration on the unchanged tree (6 seeds, both orders): solve_bvp (tol 1e-8) itself does not reach 1e-7 on these, with or
# without a transform (long intervals; dY/dr next to a domain end) - they are IVP-only
BVP_EXTREME_SKIP = {"becke-towards-upper-domain-end", "knowles3-next-to-lower-domain-end", "multiexp-next-to-both-domain-ends",
                    "identity-long-span", "no-transform-long-span"}
EXTREME_SCALES = {"equation-times-1e3": 1e3, "equation-times-minus-1e3": -1e3, "equation-times-1e-3": 1e-3}


def _extreme_list(rng, cat, more, kind):
    out = []
    k = rng.randrange(12)
    long_r = [l for l in EXTREME_TFS if "-r-from-" in l and "-to-" in l]
    for label, (name, text, span) in EXTREME_TFS.items():
        if kind == "bvp" and (cat[name][2].get("no_bvp") or label in BVP_EXTREME_SKIP or label in long_r):
            continue
        if label in long_r and not more and label != long_r[k % len(long_r)]:
            continue
        for order in ((2, 3) if more else ([2, 3][k % 2],)):
            k += 1
            prob = gen_problem(rng, order, name, cat)
            prob.update(tf=text, span=list(span), y=_gentle_solution(rng, abs(span[1] - span[0])))
            if abs(span[1] - span[0]) > 5:
                # long intervals: constant coefficients with decaying / oscillating homogeneous solutions (a growing mode
                # would amplify the integrator's own error beyond any fixed tolerance: not the library's business)
                prob["coeffs"] = [{"kind": "const", "c": c} for c in ([1.0, 1.0], [0.5, 0.4, 1.0], [0.5, 1.2, 1.1, 1.0])[order - 1]]
            out.append((label, prob))
    # orders of magnitude of the coefficients (the whole equation scaled; one lower coefficient large)
    for label, s in EXTREME_SCALES.items():
        k += 1
        order = [2, 3][k % 2]
        name = ["BeckeRTransform", "Inverse(KnowlesRTransform):k=3", "HandyModRTransform:m=2", "Inverse(HandyRTransform):m=3"][k % 4]
        prob = gen_problem(rng, order, name, cat)
        for c in prob["coeffs"]:
            for f in (("c",) if c["kind"] == "const" else ("c0", "c1") if c["kind"] == "lin" else ("s",)):
                c[f] = c[f] * s
        out.append((label, prob))
    for label, a0 in (("stiff-restoring-term-1e3", 1e3), ("small-lower-coefficients-1e-3", 1e-3)):
        k += 1
        name = ["BeckeRTransform", "Inverse(KnowlesRTransform):k=3", "HandyModRTransform:m=2", "Inverse(HandyRTransform):m=3"][k % 4]
        prob = gen_problem(rng, 2, name, cat)
        prob["coeffs"] = [{"kind": "const", "c": a0}, {"kind": "const", "c": a0 * 1e-2 if a0 > 1 else a0}, {"kind": "const", "c": 1.0}]
        out.append((label, prob))
    # leading coefficient negative and varying
    for order in (2, 3):
        k += 1
        name = ["KnowlesRTransform:k=2", "Inverse(HandyModRTransform):m=2", "PowerRTransform", "Inverse(BeckeRTransform)"][k % 4]
        prob = gen_problem(rng, order, name, cat)
        prob["coeffs"][-1] = {"kind": "trig", "s": -1.0, "c0": rng.uniform(0.8, 2), "c1": rng.uniform(0.3, 0.6) * rng.choice([-1, 1]), "w": rng.uniform(1, 3)}
        out.append(("leading-coefficient-negative-and-varying", prob))
    return out


def extreme_ivp_problems(rng, cat, more):
    out = []
    # the accurate explicit methods (next to a domain end dY/dr is tiny compared with the absolute tolerance of the
    # low-order implicit ones: BDF/LSODA lose the derivative rows there, with or without the library)
    methods = ["DOP853", "RK45"]
    for n, (label, prob) in enumerate(_extreme_list(rng, cat, more, "ivp")):
        prob["method"] = methods[n % len(methods)] if not label.startswith("stiff") else "Radau"
        if n % 3 == 1 and prob["tf"] and abs(prob["span"][1] - prob["span"][0]) <= 5:
            prob["span"] = prob["span"][::-1]          # (backwards over a long interval the decaying modes grow: not done)
        prob["np_span"] = n % 2 == 1
        out.append((label, prob))
    out += round3_extreme_ivp_problems(rng, cat, more)
    out += round5_scale_ivp_problems(rng, cat, more)
    return out


# ---- round 3 (class 8): transforms whose derivative is 1e-6 .. 1e6, intervals of length 1e-6 ---------------------------------
R3_EXTREME_TFS = {
    # label -> (catalogue entry that carries the flags, constructor text, span of the ORIGINAL variable)
    "transform-derivative-1e-6:linear": ("LinearFiniteRTransform", "LinearFiniteRTransform(0.5, 0.500002)", (-0.5, 0.4)),
    "transform-derivative-1e6:linear": ("LinearFiniteRTransform", "LinearFiniteRTransform(0.5, 2000000.5)", (-0.5, 0.4)),
    "transform-derivative-1e-6:becke": ("BeckeRTransform", "BeckeRTransform(0.1, 1e-06)", (-0.5, 0.4)),
    "transform-derivative-1e6:becke": ("BeckeRTransform", "BeckeRTransform(0.1, 1000000.0)", (-0.5, 0.4)),
    "transform-derivative-1e-3:knowles2": ("KnowlesRTransform:k=2", "KnowlesRTransform(0.1, 0.001, 2)", (-0.5, 0.4)),
    "transform-derivative-1e3:knowles2": ("KnowlesRTransform:k=2", "KnowlesRTransform(0.1, 1000.0, 2)", (-0.5, 0.4)),
    "transform-derivative-1e6:knowles2": ("KnowlesRTransform:k=2", "KnowlesRTransform(0.1, 1000000.0, 2)", (-0.5, 0.4)),
    "transform-derivative-1e-6:inverse-becke-r-of-order-1e6": ("Inverse(BeckeRTransform)", "InverseRTransform(BeckeRTransform(0.1, 1000000.0))", (500000.1, 2000000.1)),
    "transform-derivative-1e-6:inverse-handymod3-r-of-order-1e6": ("Inverse(HandyModRTransform):m=3", "InverseRTransform(HandyModRTransform(0.1, 100000000.0, 3))", (500000.1, 2000000.1)),
    "transform-derivative-1e6:inverse-becke-interval-1e-6": ("Inverse(BeckeRTransform)", "InverseRTransform(BeckeRTransform(0.1, 1e-06))", (0.1000005, 0.100002)),
    "transform-derivative-1e6:inverse-linear-interval-1e-6": ("Inverse(LinearFiniteRTransform)", "InverseRTransform(LinearFiniteRTransform(0.5, 0.500002))", (0.5000003, 0.5000018)),
    "interval-1e-6:no-transform": ("none", "", (0.7, 0.700001)),
    "interval-1e-6:becke": ("BeckeRTransform", "BeckeRTransform(0.1, 1.5)", (0.25, 0.250001)),
    "interval-1e-6:inverse-becke": ("Inverse(BeckeRTransform)", "InverseRTransform(BeckeRTransform(0.1, 1.5))", (0.7, 0.700001)),
    "interval-1e-6:inverse-becke-backward": ("Inverse(BeckeRTransform)", "InverseRTransform(BeckeRTransform(0.1, 1.5))", (0.700001, 0.7)),
    "interval-1e-6:knowles3": ("KnowlesRTransform:k=3", "KnowlesRTransform(0.1, 1.5, 3)", (-0.3, -0.299999)),
    "interval-1e-6:inverse-handymod3": ("Inverse(HandyModRTransform):m=3", "InverseRTransform(HandyModRTransform(0.1, 10.0, 3))", (1.2, 1.200001)),
    "interval-1e-6:exp": ("ExpRTransform", "ExpRTransform(0.1, 5.0, b=4.0)", (1.0, 1.000001)),
}


def local_problem(rng, order, name, text, span):
    """A manufactured problem living on the scale of its interval [a, b] (length L): y(x) = Y((x - a) / L) with Y of the
    usual kind, so y^(k) is of order L^-k, and constant coefficients a_k = c_k L^k (all terms of the equation of order one;
    the leading coefficient is c_K L^K: 1e-18 for a third-order equation on an interval of length 1e-6)."""
    a, b = span
    L = abs(b - a)
    y = gen_solution(rng)
    y = {"ce": y["ce"], "al": y["al"] / L, "cs": y["cs"], "be": y["be"] / L, "ph": y["ph"],
         "p": [y["p"][i] / L ** i for i in range(4)], "x0": a}
    return {"tf": text, "tfname": name, "span": [a, b], "np_span": False, "y": y,
            "coeffs": [{"kind": "const", "c": rng.choice([-1, 1]) * rng.uniform(0.5, 2) * L ** k} for k in range(order + 1)]}


# ---- round 5 (class 24): transforms with an explicit scale b on intervals beyond b / around b / from the end of the domain, and
#      transforms whose b the library infers at first use (b=None): the solution does not depend on the scale --------------------
R5_SCALE_TFS = {
    "scale:exp-b=4-beyond-b": ("ExpRTransform", "ExpRTransform(0.1, 5.0, b=4.0)", (3.0, 7.5)),
    "scale:exp-b=4-from-0-to-b": ("ExpRTransform", "ExpRTransform(0.1, 5.0, b=4.0)", (0.0, 4.0)),
    "scale:exp-b=4-around-b": ("ExpRTransform", "ExpRTransform(0.1, 5.0, b=4.0)", (3.5, 4.5)),
    "scale:power-b=4-beyond-b": ("PowerRTransform", "PowerRTransform(0.1, 5.0, b=4.0)", (2.0, 9.0)),
    "scale:linear-infinite-b=4-beyond-b": ("LinearInfiniteRTransform", "LinearInfiniteRTransform(0.1, 5.0, b=4.0)", (3.0, 9.0)),
    "scale:hyperbolic-to-15": ("HyperbolicRTransform", "HyperbolicRTransform(0.3, 0.05)", (0.0, 15.0)),
    "scale:inverse-exp-b=4": ("Inverse(ExpRTransform)", "InverseRTransform(ExpRTransform(0.1, 5.0, b=4.0))", (0.2, 4.5)),
    "scale:exp-b-inferred": ("ExpRTransform", "ExpRTransform(0.1, 5.0)", (0.3, 1.2)),
    "scale:power-b-inferred": ("PowerRTransform", "PowerRTransform(0.1, 5.0)", (0.3, 1.2)),
    "scale:linear-infinite-b-inferred": ("LinearInfiniteRTransform", "LinearInfiniteRTransform(0.1, 5.0)", (0.3, 1.2)),
}


def round5_scale_ivp_problems(rng, cat, more):
    out = []
    labels = list(R5_SCALE_TFS)
    k = rng.randrange(len(labels))
    for n, label in enumerate(labels if more else [labels[(k + 3 * i) % len(labels)] for i in range(3)]):
        name, text, span = R5_SCALE_TFS[label]
        for order in ((1, 2, 3) if more else ([3, 2, 3, 1][(k + n) % 4],)):
            prob = gen_problem(rng, order, name, cat)
            prob.update(tf=text, span=list(span), y=_gentle_solution(rng, abs(span[1] - span[0])))
            if abs(span[1] - span[0]) >= 4:
                # long intervals: constant coefficients with decaying / oscillating homogeneous solutions (a growing mode amplifies the
                # integrator's own error - seen on the unchanged tree: 4e-3 with RK45 on [2, 9], with or without the transform)
                prob["coeffs"] = [{"kind": "const", "c": c} for c in ([1.0, 1.0], [0.5, 0.4, 1.0], [0.5, 1.2, 1.1, 1.0])[order - 1]]
            prob["method"] = ["DOP853", "RK45"][(k + n + order) % 2]
            out.append((label, prob))
    return out


def round3_extreme_ivp_problems(rng, cat, more):
    out = []
    labels = list(R3_EXTREME_TFS)
    k = rng.randrange(len(labels))
    pick = labels if more else [labels[(k + 3 * i) % len(labels)] for i in range(6)]
    for n, label in enumerate(pick):
        name, text, span = R3_EXTREME_TFS[label]
        L = abs(span[1] - span[0])
        for order in ((1, 2, 3) if more else ([3, 2, 3, 1][(k + n) % 4],)):
            if L < 0.1 or L > 5:
                prob = local_problem(rng, order, name, text, span)
            else:
                prob = gen_problem(rng, order, name, cat)
                prob.update(tf=text, span=list(span))
            # (without a transform SciPy's DOP853 itself is off by 5e3 x rtol on an interval of 1e-6 at x = 0.7)
            prob["method"] = "RK45" if label == "interval-1e-6:no-transform" else ["DOP853", "RK45", "LSODA"][(k + n + order) % 3]
            out.append((label, prob))
    return out


def extreme_bvp_problems(rng, cat, more):
    out = []
    for n, (label, prob) in enumerate(_extreme_list(rng, cat, more, "bvp")):
        order = len(prob["coeffs"]) - 1
        prob.update(nmesh=20, tol=BVP_TOL, max_nodes=20000, reverse_mesh=bool(cat[prob["tfname"]][2].get("decreasing")))
        for attempt in range(6):
            sel = _choose_bc(rng, order, BC_KINDS[(n + attempt) % len(BC_KINDS)])
            try:
                cond = _bvp_functional_cond(prob, sel)
            except Exception:
                cond = float("inf")
            if cond <= 60.0:
                prob.update(bc=[list(p) for p in sel], bc_kind="extreme", bc_cond=cond)
                out.append((label, prob))
                break
    return out


# ---- round 3, part A: classes 7, 8, 11, 12, 13 ---------------------------------------------------------------------------------
R3_TF_NAMES = ["none", "BeckeRTransform", "Inverse(KnowlesRTransform):k=3", "HandyModRTransform:m=2", "Inverse(HandyRTransform):m=3",
               "Inverse(BeckeRTransform)", "ExpRTransform", "KnowlesRTransform:k=2", "Inverse(HandyModRTransform):m=3"]
# Envelope measured on the unchanged tree (7 transforms x 3 orders, see DESIGN / the report of round 3):
#  * equation multiplied through by 1e-12 .. 1e12 (either sign): rows move by <= 1.3e-14 (IVP, rtol 1e-10)
#  * solve_ode_ivp, atol = 1e-6 |a| passed along: V[a f]/a = V[f] bit for bit for a = 2^-300 .. 2^300, <= 3e-12 for other a
#  * solve_ode_ivp, all defaults (rtol 1e-8, atol 1e-6, DOP853): |V[a f]/a - V[f]| <= 6.1e-7 for 1 <= |a| <= 1e12, 2.3e-4 at
#    1e-3, 7.3e-4 at 1e-4, 4e-2 at 1e-6, O(1) below (the absolute tolerance takes over: nothing is asserted below 1e-3)
#  * solve_ode_bvp, all defaults (tol 1e-4, 5000 nodes): <= 2.8e-3 for 1e-12 <= a <= 1e6 where it converges; at a = 1e6 SciPy's
#    solve_bvp reports a singular Jacobian for 2 of 60 problems (third order), at 1e7 for 4 of 21, from 1e9 on for all of them
#    ("didn't converge": a rejection) - asserted for 1e-12 <= |a| <= 1e3 only
HOM_SCALED_ATOL = [(2.0 ** -40, 1e-13), (2.0 ** 40, 1e-13), (2.0 ** -300, 1e-13), (2.0 ** 300, 1e-13), (3e-7, 1e-9), (-7e5, 1e-9),
                   (1e12, 1e-9), (1e-12, 1e-9)]
HOM_DEFAULT_IVP = [(1e3, 2e-5), (1e12, 2e-5), (-1e6, 2e-5), (7.0, 2e-5), (1e-2, 5e-3), (1e-3, 5e-3), (-1e9, 2e-5)]
HOM_DEFAULT_BVP = [(1e-12, 3e-2), (1e-6, 3e-2), (1e3, 3e-2), (30.0, 3e-2), (-1e-3, 3e-2), (-1e2, 3e-2)]
ACC_DEFAULT_IVP, ACC_DEFAULT_BVP = 2e-5, 2e-3      # observed 6.1e-7 / 8.2e-5
SCALE_TOL_IVP, SCALE_TOL_BVP = 5e-9, 1e-7


# ---- intervals ending next to an end of the domain of the trimming transforms (seeded change: `_convert_inf` -> np.clip) ----
# (family, constructor without the trim flag, sign of the singular end, does g' stay away from 0 at the regular end)
TRIM_TFS = [
    ("Handy:m=2", "HandyRTransform(0.1, 1.5, 2{t})", +1, False), ("Handy:m=3", "HandyRTransform(0.1, 1.5, 3{t})", +1, False),
    ("Handy:m=4", "HandyRTransform(0.0, 1.0, 4{t})", +1, False), ("Handy:m=1", "HandyRTransform(0.1, 1.5, 1{t})", +1, True),
    ("HandyMod:m=3", "HandyModRTransform(0.1, 10.0, 3{t})", +1, False), ("HandyMod:m=2:rmax=1e6", "HandyModRTransform(0.1, 1000000.0, 2{t})", +1, False),
    ("Becke", "BeckeRTransform(0.1, 1.5{t})", +1, True), ("Becke:R=1e3", "BeckeRTransform(0.1, 1000.0{t})", +1, True),
    ("Knowles:k=3", "KnowlesRTransform(0.1, 1.5, 3{t})", +1, False), ("Knowles:k=2", "KnowlesRTransform(0.1, 1.5, 2{t})", +1, False),
    ("MultiExp", "MultiExpRTransform(0.1, 1.5{t})", -1, True),
]
# BVP: only where SciPy's solve_bvp is accurate on the unchanged tree (it accepts, with status 0, solutions that are off by
# 1e-5 .. 1e+7 through HandyRTransform m >= 2 next to the singular end: dY/dr ~ 1e-10 there and its acceptance test is
# relative to 1 + |dY/dr|); row 0 only
TRIM_BVP_OK = {"HandyMod:m=3", "HandyMod:m=2:rmax=1e6", "Knowles:k=3", "Knowles:k=2", "Becke", "Handy:m=1"}


def _end_of_domain_case(rng, cat, family, text, sign, regular_ok, trim, d, order, kind, end, method, backward=False):
    t = "" if trim is None else f", trim_inf={trim}"
    tf = text.format(t=t)
    inner = rng.uniform(-0.3, 0.45)
    if end == "singular":
        span = [inner, 1 - d] if sign > 0 else [-inner, -1 + d]
    else:
        span = [-1 + d, inner] if sign > 0 else [1 - d, -inner]
    if backward:       # (not generated: starting AT the singular end the mapped initial data lose 1e-4 .. 1 to cancellation in
        span = span[::-1]   # y'' - g'' Y' on the unchanged tree, with and without trimming: outside the accurate envelope)
    prob = gen_problem(rng, order, "BeckeRTransform", cat)
    prob.update(tf=tf, tfname="MultiExpRTransform" if sign < 0 else "BeckeRTransform", span=span, y=_gentle_solution(rng, 1.0))
    if kind == "ivp":
        rt = METHODS[method]
        prob.update(method=method, rtol=rt, atol=rt * 1e-2)
        base = IVP_FACTOR * rt * (1.0 if end == "singular" or regular_ok else 100.0)
        tol = [base * (1 + (0.2 / d) ** k) for k in range(order)] if end == "singular" else [base] * order
    else:
        prob.update(nmesh=20, tol=BVP_TOL, max_nodes=20000, reverse_mesh=sign < 0, bc=[[0, j] for j in range(order)], bc_kind="one-end")
        tol = [2e-5]
    return {"prob": prob, "kind": kind, "tol": tol, "direct": True, "family": family, "end": end, "d": d}


def _end_of_domain_cases(rng, cat, more, kinds, orders):
    cases = []
    k = rng.randrange(1000)
    ds = [1e-2, 1e-3, 1e-4]
    if more:
        for family, text, sign, regular_ok in TRIM_TFS:
            for trim in (True, False, None):
                for d in ds:
                    for order in orders:
                        k += 1
                        if "ivp" in kinds and (trim is not None or d == 1e-3):
                            cases.append(_end_of_domain_case(rng, cat, family, text, sign, regular_ok, trim, d, order, "ivp", "singular",
                                                             ["DOP853", "RK45"][k % 2]))
                        if "ivp" in kinds and trim is True and (regular_ok or d == 1e-2):
                            cases.append(_end_of_domain_case(rng, cat, family, text, sign, regular_ok, trim, d, order, "ivp", "regular", "DOP853"))
                        if "bvp" in kinds and family in TRIM_BVP_OK and trim is not None and (d == 1e-2 or family.startswith(("HandyMod:m=3", "Knowles"))):
                            cases.append(_end_of_domain_case(rng, cat, family, text, sign, regular_ok, trim, d, order, "bvp", "singular", None))
        return cases
    # quick tier: the cells in which a finite value exceeds 1e16 (HandyRTransform, d <= 1e-3, order >= 2; the default
    # trim_inf=True written out or left out) always, the rest of the table rotating
    if "ivp" in kinds:
        hot = [o for o in orders if o >= 2] or orders
        for j in range(3):
            k += 1
            family, text, sign, regular_ok = TRIM_TFS[(k + j) % 3]
            cases.append(_end_of_domain_case(rng, cat, family, text, sign, regular_ok, [True, None, True][j], [1e-3, 1e-4, 1e-4][(k + j) % 3],
                                             hot[::-1][(k + j) % len(hot)], "ivp", "singular", ["DOP853", "RK45"][(k + j) % 2]))
        for j in range(3):
            k += 1
            family, text, sign, regular_ok = TRIM_TFS[3 + (k + 3 * j) % (len(TRIM_TFS) - 3)]
            cases.append(_end_of_domain_case(rng, cat, family, text, sign, regular_ok, [True, False, True][j], ds[(k + j) % 3], orders[(k + j) % len(orders)],
                                             "ivp", "singular", ["DOP853", "RK45"][(k + j) % 2]))
        k += 1
        family, text, sign, regular_ok = TRIM_TFS[k % len(TRIM_TFS)]
        cases.append(_end_of_domain_case(rng, cat, family, text, sign, regular_ok, True, ds[k % 3] if regular_ok else 1e-2, orders[k % len(orders)],
                                         "ivp", "regular", "DOP853"))
        k += 1
        family, text, sign, regular_ok = TRIM_TFS[k % 3]
        cases.append(_end_of_domain_case(rng, cat, family, text, sign, regular_ok, False, ds[1 + k % 2], orders[k % len(orders)], "ivp", "singular", "DOP853"))
    if "bvp" in kinds:
        ok = [t for t in TRIM_TFS if t[0] in TRIM_BVP_OK]
        for j in range(2):
            k += 1
            family, text, sign, regular_ok = ok[(k + 2 * j) % len(ok)]
            d = ds[k % 3] if family.startswith(("HandyMod:m=3", "Knowles")) else 1e-2
            cases.append(_end_of_domain_case(rng, cat, family, text, sign, regular_ok, [True, False][j], d, orders[(k + j) % len(orders)], "bvp", "singular", None))
    return cases


def _lead_magnitude(prob):
    x = np.array([0.5 * (prob["span"][0] + prob["span"][1])])
    return float(abs(coeff_val(prob["coeffs"][-1], x)[0]))


def _oracle_round3(ctx, cat, only, large):
    rng = ctx.rng
    orders = sorted((only or {}).get("orders", {1, 2, 3}))
    kinds = (only or {}).get("kinds", {"ivp", "bvp"})
    more = large or ctx.thorough
    k = rng.randrange(1000)
    bvp_names = [n for n in R3_TF_NAMES if not cat[n][2].get("no_bvp")]

    def run(fn, case, keys, describe, tag, nontrivial=True):
        return _audit_call(ctx, fn, (case,), lambda t: keys.get(t, keys["*"]), describe, case,
                           _guarded(f"case = {case!r}\n", f"{fn}(case)"), [fn, case], tag, nontrivial=nontrivial)

    def part_scaled_equations():
        nonlocal k
        # ---- classes 7 / 8: the equation multiplied through by s -------------------------------------------------------------
        for kind, count in (("ivp", 12 if more else 4), ("bvp", 6 if more else 2)):
            if kind not in kinds:
                continue
            for i in range(count):
                k += 1
                name = (R3_TF_NAMES if kind == "ivp" else bvp_names)[k % (len(R3_TF_NAMES) if kind == "ivp" else len(bvp_names))]
                order = orders[::-1][k % len(orders)]
                if kind == "ivp":
                    prob = gen_problem(rng, order, name, cat)
                    prob.update(method="DOP853", rtol=1e-10, atol=1e-12)
                else:
                    prob = _gen_bvp_problem(rng, order, name, cat, BC_KINDS[k % len(BC_KINDS)])
                lead = _lead_magnitude(prob)
                w = WARN_WINDOW / lead
                pool = [1e-12, 0.99 * w, 1.01 * w, 1e12, -1e-12, 0.01 * w, 100 * w, -0.99 * w, 1e-11, 1e-6, 1e6, -1e12, 1e-8]
                scales = pool if more else [pool[(k + 4 * j) % len(pool)] for j in range(3)]
                case = {"prob": prob, "kind": kind, "scales": scales, "lead": lead,
                        "tol": SCALE_TOL_IVP if kind == "ivp" else SCALE_TOL_BVP, "acc": IVP_FACTOR * 1e-10 if kind == "ivp" else BVP_ACCEPT * cat[name][2].get("bvp_tol_factor", 1.0)}
                run("check_scaled_equation", case,
                    {"scaled-equation": f"ode.solve_ode_{kind}:scaled-equation", "accuracy": f"ode.solve_ode_{kind}:order{order}:{name}",
                     "*": f"ode.solve_ode_{kind}:scaled-equation:raised"},
                    f"solve_ode_{kind}, order {order}, {prob['tf'] or 'no transform'}: the whole equation multiplied through by {scales}",
                    f"oracle:{kind}:scaled-equation:order{order}", nontrivial=True)


    def part_homogeneity():
        nonlocal k
        # ---- class 13: amplitude homogeneity and additivity ------------------------------------------------------------------
        plans = []
        if "ivp" in kinds:
            plans += [("ivp", "scaled-atol", HOM_SCALED_ATOL, None, 0.0)] * (6 if more else 3)
            plans += [("ivp", "default", HOM_DEFAULT_IVP, ACC_DEFAULT_IVP, 4e-5)] * (6 if more else 3)
        if "bvp" in kinds:
            plans += [("bvp", "default", HOM_DEFAULT_BVP, ACC_DEFAULT_BVP, 4e-3)] * (5 if more else 2)
        for i, (kind, mode, table, acc, addb) in enumerate(plans):
            k += 1
            name = (R3_TF_NAMES if kind == "ivp" else bvp_names)[k % (len(R3_TF_NAMES) if kind == "ivp" else len(bvp_names))]
            order = orders[k % len(orders)]
            prob = gen_problem(rng, order, name, cat) if kind == "ivp" else _gen_bvp_problem(rng, order, name, cat, "mixed")
            amps = list(table) if more else [table[(k + 3 * j) % len(table)] for j in range(3 if mode == "scaled-atol" else 2)]
            case = {"prob": prob, "kind": kind, "mode": mode, "amplitudes": [list(t) for t in amps],
                    "acc": acc if acc is not None else ACC_DEFAULT_IVP}
            if mode == "default" and i % 2 == 0:
                case["second"] = gen_solution(rng)
                case["add_bound"] = addb
            run("check_homogeneity", case,
                {"homogeneity": f"ode.solve_ode_{kind}:amplitude-homogeneity:{mode}", "additivity": f"ode.solve_ode_{kind}:additivity",
                 "default-tolerances": f"ode.solve_ode_{kind}:default-tolerances", "*": f"ode.solve_ode_{kind}:amplitude-homogeneity:raised"},
                f"solve_ode_{kind}, order {order}, {prob['tf'] or 'no transform'}: right-hand side and data multiplied by {[t[0] for t in amps]} ({mode})",
                f"oracle:{kind}:homogeneity:{mode}:order{order}", nontrivial=True)


    def part_end_of_domain():
        nonlocal k
        # ---- intervals ending next to an end of the domain of the trimming transforms -------------------------------------------
        for case in _end_of_domain_cases(rng, cat, more, kinds, orders):
            p = case["prob"]
            kind = case["kind"]
            order = len(p["coeffs"]) - 1
            run("check_end_of_domain", case,
                {"*": f"ode.solve_ode_{kind}:end-of-domain:{case['family']}"},
                f"solve_ode_{kind}, order {order}, interval ending {case['d']:g} from the {case['end']} end of the domain of {p['tf']}",
                f"oracle:{kind}:end-of-domain:{case['end']}:{case['family'].split(':')[0]}:d={case['d']:g}", nontrivial=True)


    def part_small_meshes():
        nonlocal k
        # ---- class 12: the smallest meshes (two and three nodes) for solve_ode_bvp ------------------------------------------
        if "bvp" in kinds:
            for nmesh in (2, 3):
                k += 1
                name = bvp_names[k % len(bvp_names)]
                order = orders[k % len(orders)]
                prob = _gen_bvp_problem(rng, order, name, cat, "mixed")
                prob["nmesh"] = nmesh
                acc = BVP_ACCEPT * 5.0 * cat[name][2].get("bvp_tol_factor", 1.0)
                ctx.count(["bvp-small-mesh", prob], nontrivial=nontrivial_problem(prob, cat), tag=f"oracle:bvp:mesh-of-{nmesh}-nodes")
                key = f"ode.solve_ode_bvp:mesh-of-{nmesh}-nodes"
                try:
                    with time_limit(SOLVE_TIME_LIMIT):
                        sol, bd = run_bvp(prob)
                        errs, out = errors(prob, sol, np.linspace(prob["span"][0], prob["span"][1], 9))
                    if max(errs) > acc:
                        ctx.fail("oracle", key, f"solve_ode_bvp on a mesh of {nmesh} nodes, order {order}, {prob['tf'] or 'no transform'}: errors {errs} > {acc}",
                                 witness={"problem": prob, "errors": errs}, snippet=snippet_bvp(prob, acc))
                except Exception as e:
                    ctx.fail("oracle", key, f"solve_ode_bvp on a mesh of {nmesh} nodes raised {type(e).__name__}: {e}", witness=prob, snippet=snippet_bvp(prob, acc))


    def part_fresh_process():
        nonlocal k
        # ---- class 11: the first call of a fresh interpreter uses non-default options ------------------------------------------
        if only is None:
            _audit_fresh_process(ctx, cat, 2 * k)          # a boundary-value variant
            _audit_fresh_process(ctx, cat, 2 * k + 1)      # an initial-value variant



    _run_parts(ctx, "oracle", [("scaled-equations", part_scaled_equations), ("amplitude-homogeneity", part_homogeneity),
                               ("end-of-domain", part_end_of_domain), ("small-meshes", part_small_meshes),
                               ("fresh-process", part_fresh_process)])


def _audit_fresh_process(ctx, cat, k):
    """A new interpreter whose very first use of the library is a solve with non-default options (no_derivatives, method /
    tolerances, a b-scaled transform that was never used before): the answer must be the exact solution."""
    import subprocess
    import sys
    rng = ctx.rng
    grid_src = str(importlib.import_module("pathlib").Path(importlib.import_module("grid").__file__).resolve().parent.parent)
    variants = [
        ("bvp:no_derivatives=False", "Inverse(HandyModRTransform):m=3"), ("ivp:no_derivatives=True:Radau", "ExpRTransform"),
        ("bvp:no_derivatives=False", "PowerRTransform"), ("ivp:no_derivatives=True:LSODA", "Inverse(KnowlesRTransform):k=3"),
    ]
    what, name = variants[k % len(variants)]
    order = 2 + k % 2
    if what.startswith("bvp"):
        prob = _gen_bvp_problem(rng, order, name, cat, "mixed")
        body = ("sol, bd = run_bvp(prob, no_derivatives=False)\npts = np.linspace(prob['span'][0], prob['span'][1], 9)\n"
                "errs, out = errors(prob, sol, pts)\n"
                f"assert max(errs) <= {BVP_ACCEPT!r}, f'first call in a fresh interpreter, solve_ode_bvp(no_derivatives=False): errors {{errs}}'\n")
    else:
        method = what.split(":")[-1]
        prob = gen_problem(rng, order, name, cat)
        prob.update(method=method, rtol=1e-9, atol=1e-11)
        body = ("order = len(prob['coeffs']) - 1\npts = np.linspace(prob['span'][0], prob['span'][1], 9)\n"
                "s2 = solve_ode_ivp(span_of(prob), rhs(prob), [coeff_fn(c) for c in prob['coeffs']], "
                "[float(y_deriv(prob['y'], k)(prob['span'][0])) for k in range(order)], make_tf(prob), "
                "method=prob['method'], rtol=prob['rtol'], atol=prob['atol'], no_derivatives=True)\n"
                "o = np.asarray(s2(pts))\nex = y_deriv(prob['y'], 0)(pts)\n"
                "assert o.shape == (9,), f'first call in a fresh interpreter, no_derivatives=True: shape {o.shape}'\n"
                "err = float(np.max(np.abs(o - ex)) / (1 + np.max(np.abs(ex))))\n"
                f"assert err <= {IVP_FACTOR * 1e-9!r}, f'first call in a fresh interpreter, solve_ode_ivp(no_derivatives=True, method={{prob[\"method\"]!r}}): error {{err}}'\n")
    snippet = HELPERS + f"\nimport signal; signal.alarm(300)\nprob = {prob!r}\n" + body
    ctx.count(["fresh-process", what, prob], nontrivial=True, tag=f"audit:fresh-process:{what.split(':')[0]}")
    env = dict(importlib.import_module("os").environ, PYTHONPATH=grid_src, OMP_NUM_THREADS="1")
    try:
        p = subprocess.run([sys.executable, "-c", snippet], capture_output=True, text=True, cwd="/", env=env, timeout=120)
    except subprocess.TimeoutExpired:
        ctx.fail("oracle", "ode.solve_ode:first-call-in-fresh-process", f"{what} through {prob['tf']}: no result within 120 s", witness=prob, snippet=snippet)
        return
    if p.returncode != 0:
        last = p.stderr.strip().splitlines()[-1] if p.stderr.strip() else f"exit code {p.returncode}"
        ctx.fail("oracle", "ode.solve_ode:first-call-in-fresh-process",
                 f"a fresh interpreter whose first library call is {what} through {prob['tf']}: {last}", witness=prob, snippet=snippet)


# ---- round 4: classes 14, 15, 16, 18 ------------------------------------------------------------------------------------------
# (catalogue entry that carries the flags, constructor template, parameter values exactly representable in single precision, span)
PARAM_TFS = [
    ("BeckeRTransform", "BeckeRTransform({}, {})", (0.5, 2.0), (-0.5, 0.4)),
    ("KnowlesRTransform:k=3", "KnowlesRTransform({}, {}, {})", (0.5, 2.0, 3.0), (-0.5, 0.4)),
    ("HandyRTransform:m=2", "HandyRTransform({}, {}, {})", (0.5, 2.0, 2.0), (-0.5, 0.4)),
    ("HandyModRTransform:m=3", "HandyModRTransform({}, {}, {})", (0.5, 16.0, 3.0), (-0.5, 0.4)),
    ("MultiExpRTransform", "MultiExpRTransform({}, {})", (0.5, 2.0), (-0.5, 0.4)),
    ("ExpRTransform", "ExpRTransform({}, {}, b={})", (0.5, 8.0, 4.0), (0.3, 1.2)),
    ("PowerRTransform", "PowerRTransform({}, {}, b={})", (0.5, 8.0, 4.0), (0.3, 1.2)),
    ("LinearFiniteRTransform", "LinearFiniteRTransform({}, {})", (0.5, 8.0), (-0.5, 0.4)),
    ("Inverse(BeckeRTransform)", "InverseRTransform(BeckeRTransform({}, {}))", (0.25, 2.0), (0.4, 1.8)),
    ("LinearInfiniteRTransform", "LinearInfiniteRTransform({}, {}, b={})", (0.5, 8.0, 4.0), (0.3, 1.2)),
    ("HyperbolicRTransform", "HyperbolicRTransform({}, {})", (0.5, 0.0625), (0.3, 1.2)),
    ("Inverse(HandyModRTransform):m=3", "InverseRTransform(HandyModRTransform({}, {}, {}))", (0.25, 16.0, 3.0), (0.4, 1.8)),
]
# measured on the unchanged tree: int / np.int64 / np.float64 / 0-d parameters give bit-identical answers; np.float32 parameters
# make rtransform compute in single precision (rows off by up to 1e-6: the precision the caller chose, DESIGN 8.3) - asked: 5e-5
PARAM_KINDS = [
    ("python-int", lambda v: f"{int(v)}" if float(v).is_integer() else f"{v!r}", 1e-12),
    ("np.int64", lambda v: f"np.int64({int(v)})" if float(v).is_integer() else f"np.float64({v!r})", 1e-12),
    ("0-d-array", lambda v: f"np.array({v!r})", 1e-12),
    ("np.float64", lambda v: f"np.float64({v!r})", 1e-12),
    ("np.float32", lambda v: f"np.float32({v!r})", 5e-5),
    ("0-d-int-array", lambda v: f"np.array({int(v)})" if float(v).is_integer() else f"np.array({v!r})", 1e-12),
]
BAD_CALLS = ["ivp:too-few-initial-values", "ivp:order-4-with-transform", "ivp:span-outside-the-domain", "ivp:coefficient-of-a-wrong-type",
             "ivp:right-hand-side-raises", "ivp:unknown-method", "bvp:too-many-conditions", "bvp:node-budget-of-3",
             "bvp:condition-on-a-row-that-does-not-exist", "bvp:guess-of-a-wrong-shape", "callable:point-list"]


def _oracle_round4(ctx, cat, only, large):
    rng = ctx.rng
    orders = sorted((only or {}).get("orders", {1, 2, 3}))
    kinds = sorted((only or {}).get("kinds", {"ivp", "bvp"}))
    more = large or ctx.thorough
    k0 = rng.randrange(1000)

    def run(fn, case, keys, describe, tag):
        return _audit_call(ctx, fn, (case,), lambda t: keys.get(t, keys["*"]), describe, case,
                           _guarded(f"case = {case!r}\n", f"{fn}(case)"), [fn, case], tag, nontrivial=True)

    def part_param_kinds():
        k = k0
        plan = [(kind, i) for kind in kinds for i in range((len(PARAM_TFS) if more else 2) if kind == "ivp" else (4 if more else 1))]
        for kind, i in plan:
            k += 1
            name, tmpl, params, span = PARAM_TFS[(k0 + 5 * i + (3 if kind == "bvp" else 0)) % len(PARAM_TFS)]
            if kind == "bvp" and cat[name][2].get("no_bvp"):
                name, tmpl, params, span = PARAM_TFS[0]
            order = orders[k % len(orders)]
            if kind == "ivp":
                prob = gen_problem(rng, order, name, cat)
                prob.update(method="DOP853", rtol=1e-10, atol=1e-12, span=list(span))
            else:
                prob = _gen_bvp_problem(rng, order, name, cat, "mixed")
                prob.update(span=list(span))
            pick = PARAM_KINDS if more else [PARAM_KINDS[(k + 2 * j) % len(PARAM_KINDS)] for j in range(3)]
            case = {"prob": prob, "kind": kind, "tf_float": tmpl.format(*[repr(v) for v in params]),
                    "variants": [[label, tmpl.format(*[f(v) for v in params]), bound] for label, f, bound in pick],
                    "acc": IVP_FACTOR * 1e-10 if kind == "ivp" else BVP_ACCEPT * cat[name][2].get("bvp_tol_factor", 1.0)}
            prob["tf"] = case["tf_float"]
            run("check_param_kinds", case,
                {"transform-parameters": f"ode.solve_ode_{kind}:transform-parameter-kinds", "accuracy": f"ode.solve_ode_{kind}:order{order}:{name}",
                 "*": f"ode.solve_ode_{kind}:transform-parameter-kinds:raised"},
                f"solve_ode_{kind}, order {order}, {case['tf_float']} with its parameters as {[v[0] for v in case['variants']]}",
                f"audit:{kind}:transform-parameter-kinds")

    def part_argument_forms():
        k = k0
        for kind in kinds:
            for with_tf in ((True, False) if not more else (True, False, True, True)):
                k += 1
                pool = [n for n in R3_TF_NAMES if n != "none" and not cat[n][2].get("no_bvp")]
                name = pool[k % len(pool)] if with_tf else "none"
                order = orders[k % len(orders)]
                prob = gen_problem(rng, order, name, cat) if kind == "ivp" else _gen_bvp_problem(rng, order, name, cat, "mixed")
                case = {"prob": prob, "kind": kind, "acc": ACC_DEFAULT_IVP if kind == "ivp" else ACC_DEFAULT_BVP}
                run("check_argument_forms", case,
                    {"argument-form": f"ode.solve_ode_{kind}:argument-forms", "default-tolerances": f"ode.solve_ode_{kind}:default-tolerances",
                     "*": f"ode.solve_ode_{kind}:argument-forms:raised"},
                    f"solve_ode_{kind}, order {order}, {prob['tf'] or 'no transform'}: positional / keyword / omitted / explicit-default forms of the call",
                    f"audit:{kind}:argument-forms")

    def part_shared_arguments():
        k = k0
        for i in range(6 if more else 2):
            k += 1
            order = orders[(k + i) % len(orders)]
            tf = ([""] + _TYPED_TFS_12[:-1])[(k + 3 * i) % len(_TYPED_TFS_12)]
            steps = [["ivp", "bvp", "ivp", "bvp-guess-is-the-mesh", "bvp", "ivp"], ["bvp", "ivp", "bvp", "ivp"]][i % 2]
            steps = [st for st in steps if st.split("-")[0] in kinds] or ["ivp"]
            case = {"order": order, "tf": tf, "steps": steps, "method": ["DOP853", "RK45", "LSODA"][k % 3]}
            run("check_shared_arguments", case,
                {"caller-data": "ode.solve_ode:caller-data:views-into-larger-arrays", "shared-argument": "ode.solve_ode:shared-argument-objects",
                 "canonical": "ode.solve_ode_ivp:constant-coefficients", "*": "ode.solve_ode:shared-argument-objects:raised"},
                f"order {order}, {tf or 'no transform'}: one array object as y0 / boundary values, one mesh as mesh / evaluation points / guess, "
                f"views into larger arrays, steps {steps}", "audit:shared-argument-objects")

    def part_raising_calls():
        k = k0
        names = [n for n in cat if n != "none" and not cat[n][2].get("affine") and not cat[n][2].get("no_bvp")
                 and not cat[n][2].get("decreasing") and not cat[n][2].get("np_span") and not cat[n][2].get("bvp_tol_factor")]
        for i in range(4 if more else 1):
            k += 1
            name = "none" if (more and i == 3) else names[(k + 7 * i) % len(names)]
            order = orders[(k + i) % len(orders)]
            prob = _gen_bvp_problem(rng, order, name, cat, "mixed")
            prob.update(method="DOP853", rtol=1e-10, atol=1e-12)
            bad = list(BAD_CALLS)
            case = {"prob": prob, "bad": bad, "both": bool(more),
                    "acc": {"ivp": IVP_FACTOR * 1e-10, "bvp": BVP_ACCEPT * cat[name][2].get("bvp_tol_factor", 1.0)}}
            run("check_raise_no_trace", case,
                {"trace-of-a-raising-call": "ode.solve_ode:trace-of-a-raising-call", "caller-data": "ode.solve_ode:caller-data:after-a-raising-call",
                 "accuracy": f"ode.solve_ode_ivp:order{order}:{name}", "*": "ode.solve_ode:trace-of-a-raising-call:raised"},
                f"order {order}, {prob['tf'] or 'no transform'}: accepted solves before and after the calls {bad} that end in an exception",
                "audit:raising-calls-leave-no-trace")

    _run_parts(ctx, "oracle", [("transform-parameter-kinds", part_param_kinds), ("argument-forms", part_argument_forms),
                               ("shared-argument-objects", part_shared_arguments), ("raising-calls", part_raising_calls)])



# ---- coefficient functions and right-hand sides that vanish EXACTLY at mesh nodes / evaluation points (seeded change C15-g) ------
R6_HELPERS = r'''
def check_vanishing(case):
    # a_k(x) (any k below the leading one) or f(x) is exactly 0 at one / several / all-but-one nodes of the mesh the library
    # evaluates them on (with a transform: at inverse(transform(node)), which is where the zeros were put), or changes sign
    # between nodes; Legendre / Hermite equations with their polynomial solutions.  Through the transform against the exact
    # solution and against the direct solve.
    prob, kind = case['prob'], case['kind']
    pts = np.array(case['points'], dtype=float)
    try:
        out = np.atleast_2d(_solver(prob, kind)(pts))
    except Exception as e:
        raise Violation('vanishing', f'{case["what"]}: raised {type(e).__name__}: {e}')
    ex, sc = _rows_exact(prob, pts)
    e = _rel(out, ex, sc) if out.shape == ex.shape else float('inf')
    if not e <= case['tol']:
        raise Violation('vanishing', f'{case["what"]}: through {prob["tf"] or "no transform"} the rows are off the exact solution by {e:.3g} > {case["tol"]} '
                        f'(row-wise {[float(np.max(np.abs(out[k] - ex[k])) / sc[k]) for k in range(len(sc))] if out.shape == ex.shape else out.shape})')
    if prob['tf']:
        outd = np.atleast_2d(_solver(prob, kind, False, None)(pts))
        d = _rel(out, outd, sc) if out.shape == outd.shape else float('inf')
        if not d <= 2 * case['tol']:
            raise Violation('vanishing', f'{case["what"]}: through {prob["tf"]} differs from the direct solve by {d:.3g}')
    return 'ok'
'''
exec(R6_HELPERS, _ns)
_AUDIT_HEADER = HELPERS + AUDIT_HELPERS + R3_HELPERS + R4_HELPERS + R5_HELPERS + R6_HELPERS + "\nimport signal; signal.alarm(300)\n"

# (catalogue entry that carries the flags, constructor text, span of the original variable; the first: x = 0 <-> r = 1 exactly)
VAN_TFS = [
    ("BeckeRTransform", "BeckeRTransform(0.0, 1.0)", (-0.6, 0.6)), ("none", "", (-0.6, 0.6)),
    ("BeckeRTransform", "BeckeRTransform(0.1, 1.5)", (-0.6, 0.6)), ("KnowlesRTransform:k=2", "KnowlesRTransform(0.1, 1.5, 2)", (-0.6, 0.6)),
    ("HandyModRTransform:m=3", "HandyModRTransform(0.1, 10.0, 3)", (-0.6, 0.6)), ("LinearFiniteRTransform", "LinearFiniteRTransform(-1.0, 1.0)", (-0.6, 0.6)),
    ("HandyRTransform:m=2", "HandyRTransform(0.0, 1.0, 2)", (-0.6, 0.6)), ("Inverse(BeckeRTransform)", "InverseRTransform(BeckeRTransform(0.1, 1.5))", (0.4, 1.8)),
    ("IdentityRTransform", "IdentityRTransform()", (0.4, 1.8)), ("Inverse(KnowlesRTransform):k=3", "InverseRTransform(KnowlesRTransform(0.1, 1.5, 3))", (0.4, 1.8)),
]
VAN_FAMILIES = ["node-zero:one", "odd-on-symmetric-mesh", "node-zero:several", "legendre", "node-zero:all-but-one", "hermite", "rhs-zeros",
                "sign-change-between-nodes", "node-zero:span-start"]


def _vanishing_case(rng, cat, kind, order, ti, family, kk):
    name, text, span = VAN_TFS[ti]
    symmetric = span[0] == -span[1]
    if family in ("legendre", "hermite", "odd-on-symmetric-mesh") and not symmetric:
        family = "node-zero:one"
    if family in ("legendre", "hermite"):
        order = 2
    nmesh = 5 if family == "node-zero:all-but-one" else 9
    prob = gen_problem(rng, order, name, cat)
    prob.update(tf=text, span=list(span), method="DOP853", rtol=1e-10, atol=1e-12, nmesh=nmesh, tol=BVP_TOL, max_nodes=20000,
                reverse_mesh=False)
    tf = make_tf(prob)
    mesh = np.linspace(span[0], span[1], nmesh)

    def seen(x):        # where the library evaluates the coefficients for the node x (with a transform: after the round trip)
        if tf is None:
            return float(x)
        return float(np.atleast_1d(tf.inverse(tf.transform(np.array([float(x)]))))[0])
    k = kk % order                      # which coefficient vanishes (0 .. K-1: never the leading one)
    what = family
    if family == "legendre":
        n = 2 + kk % 2
        prob["coeffs"] = [{"kind": "const", "c": float(n * (n + 1))}, {"kind": "poly", "p": [0.0, -2.0]}, {"kind": "poly", "p": [1.0, 0.0, -1.0]}]
        prob["y"] = {"ce": 0.0, "al": 0.0, "cs": 0.0, "be": 1.0, "ph": 0.0, "p": [-0.5, 0.0, 1.5, 0.0] if n == 2 else [0.0, -1.5, 0.0, 2.5]}
        prob["f"] = "zero"
        what = f"Legendre equation, n = {n} (a_1 = -2x vanishes at the node 0, f = 0 everywhere)"
    elif family == "hermite":
        n = 2 + kk % 2
        prob["coeffs"] = [{"kind": "const", "c": 2.0 * n}, {"kind": "poly", "p": [0.0, -2.0]}, {"kind": "const", "c": 1.0}]
        prob["y"] = {"ce": 0.0, "al": 0.0, "cs": 0.0, "be": 1.0, "ph": 0.0, "p": [-0.25, 0.0, 0.5, 0.0] if n == 2 else [0.0, -1.5, 0.0, 1.0]}
        prob["f"] = "zero"
        what = f"Hermite equation, n = {n}"
    elif family == "odd-on-symmetric-mesh":
        prob["coeffs"][k] = {"kind": "lin", "c0": 0.0, "c1": rng.choice([-1, 1]) * rng.uniform(0.5, 2)}
        what = f"a_{k}(x) = c x (odd) on a symmetric mesh containing 0"
    elif family == "rhs-zeros":
        a = [rng.choice([-1, 1]) * rng.uniform(0.5, 2) for _ in range(order + 1)]
        z = [seen(mesh[2]), seen(mesh[nmesh - 3])]
        sgn = rng.choice([-1.0, 1.0]) * rng.uniform(0.5, 2)
        prob["coeffs"] = [{"kind": "const", "c": c} for c in a]
        prob["f"] = {"kind": "zeros", "s": sgn, "z": z, "t": 0.0}
        p2 = sgn / a[0]
        p1 = (-sgn * (z[0] + z[1]) - 2 * a[1] * p2) / a[0]
        p0 = (sgn * z[0] * z[1] - a[1] * p1 - (2 * a[2] * p2 if order >= 2 else 0.0)) / a[0]
        prob["y"] = {"ce": 0.0, "al": 0.0, "cs": 0.0, "be": 1.0, "ph": 0.0, "p": [p0, p1, p2, 0.0]}
        what = "constant coefficients, f(x) = s (x - x_2)(x - x_6) vanishes at two mesh nodes"
    else:
        if family == "node-zero:one":
            zs = [mesh[nmesh // 2 + (kk % 3 - 1)]]
        elif family == "node-zero:several":
            zs = [mesh[1], mesh[nmesh // 2], mesh[nmesh - 2]]
        elif family == "node-zero:all-but-one":
            zs = [m for j, m in enumerate(mesh) if j != kk % nmesh]
        elif family == "node-zero:span-start":
            zs = [mesh[0]]
        else:
            zs = [0.5 * (mesh[2] + mesh[3]), 0.5 * (mesh[5] + mesh[6])]
        z = [seen(v) if family != "sign-change-between-nodes" else float(v) for v in zs]
        grid = np.linspace(span[0], span[1], 101)
        size = float(np.max(np.abs(np.prod([grid - zj for zj in z], axis=0))))
        prob["coeffs"][k] = {"kind": "zeros", "s": rng.choice([-1, 1]) * rng.uniform(0.6, 1.6) / size, "z": z, "t": rng.uniform(-0.3, 0.3)}
        what = f"a_{k}(x) vanishes exactly at {len(z)} of the {nmesh} mesh nodes ({family})" if family != "sign-change-between-nodes" \
            else f"a_{k}(x) changes sign between mesh nodes"
    if kind == "bvp":
        for attempt in range(8):
            sel = _choose_bc(rng, order, BC_KINDS[(kk + attempt) % len(BC_KINDS)])
            try:
                cond = _bvp_functional_cond(prob, sel)
            except Exception:
                cond = float("inf")
            if cond <= 60.0:
                break
        else:
            sel = [(0, j) for j in range(order)]
        prob.update(bc=[list(t) for t in sel], bc_kind="vanishing")
    points = sorted({float(v) for v in mesh} | {0.5 * (span[0] + span[1]) + 0.37 * (span[1] - span[0]) * u for u in (-1.0, 0.3, 0.77)})
    return {"prob": prob, "kind": kind, "points": points, "what": what, "family": family,
            "tol": 3 * IVP_FACTOR * 1e-10 if kind == "ivp" else 5 * BVP_ACCEPT * cat[name][2].get("bvp_tol_factor", 1.0)}


def _vanishing_cases(rng, cat, more, kinds, orders):
    cases = []
    k0 = rng.randrange(1000)
    hot = [o for o in orders if o >= 2] or orders
    if "bvp" in kinds:
        # the cell that matters most: solve_ode_bvp (many points per call of the callbacks) through a transform, every k
        for i, fam in enumerate(VAN_FAMILIES if more else VAN_FAMILIES[:7]):
            for rep in range(3 if more else 1):
                ti = [0, 2, 3, 4, 5, 6, 7, 8, 9][(k0 + i + 4 * rep) % 9] if (i + rep) % 4 else 0
                cases.append(_vanishing_case(rng, cat, "bvp", hot[(k0 + i + rep) % len(hot)], ti, fam, k0 + i + rep))
        cases.append(_vanishing_case(rng, cat, "bvp", orders[k0 % len(orders)], 1, VAN_FAMILIES[k0 % 3], k0))          # without a transform
    if "ivp" in kinds:
        for i in range(9 if more else 3):
            fam = ["node-zero:span-start", "odd-on-symmetric-mesh", "legendre", "node-zero:several", "rhs-zeros", "hermite"][(k0 + i) % 6]
            cases.append(_vanishing_case(rng, cat, "ivp", orders[(k0 + i) % len(orders)], (k0 + 3 * i) % len(VAN_TFS), fam, k0 + i))
    return cases


# ---- round 5: classes 21, 23, 24, 25, 26 ------------------------------------------------------------------------------------------
BIG_SIZES = [1025, 4097, 20001, 31234, 65537]          # just above 2^10, 2^12, 2*10^4, -, 2^16: no multiple of a block size
PRECISION_VARIANTS = [(t, w) for t in ("longdouble", "float32", "float16", "int")
                      for w in ("span", "y0", "points", "mesh", "guess", "boundary-values") if not (t == "int" and w == "guess")]
INSTANCE_PAIRS = [
    # (what differs, transform text of P, of Q, order of P, of Q, no_derivatives of P, of Q)
    ("trim_inf", "HandyRTransform(0.1, 1.5, 2)", "HandyRTransform(0.1, 1.5, 2, trim_inf=False)", 0, 0, False, False),
    ("the exponent k", "KnowlesRTransform(0.1, 1.5, 2)", "KnowlesRTransform(0.1, 1.5, 3)", 0, 0, False, False),
    ("the order of the equation", "BeckeRTransform(0.1, 1.5)", "BeckeRTransform(0.1, 1.5)", 2, 3, False, False),
    ("no_derivatives", "KnowlesRTransform(0.1, 1.5, 3)", "KnowlesRTransform(0.1, 1.5, 3)", 3, 3, False, True),
    ("the scale R", "BeckeRTransform(0.1, 1.5)", "BeckeRTransform(0.1, 1000.0)", 0, 0, False, False),
    ("a transform or none", "HandyModRTransform(0.1, 10.0, 3)", "", 0, 0, False, False),
    ("the scale b", "ExpRTransform(0.1, 5.0, b=4.0)", "ExpRTransform(0.1, 5.0, b=2.0)", 0, 0, False, False),
    ("rmin", "MultiExpRTransform(0.1, 1.5)", "MultiExpRTransform(0.0, 1.5)", 0, 0, False, False),
]


def _oracle_round5(ctx, cat, only, large):
    rng = ctx.rng
    orders = sorted((only or {}).get("orders", {1, 2, 3}))
    kinds = sorted((only or {}).get("kinds", {"ivp", "bvp"}))
    more = large or ctx.thorough
    k0 = rng.randrange(1000)

    def run(fn, case, keys, describe, tag):
        return _audit_call(ctx, fn, (case,), lambda t: keys.get(t, keys["*"]), describe, case,
                           _guarded(f"case = {case!r}\n", f"{fn}(case)"), [fn, case], tag, nontrivial=True)

    def part_sizes():
        k = k0
        names = ["none", "BeckeRTransform", "Inverse(KnowlesRTransform):k=3", "HandyModRTransform:m=2", "MultiExpRTransform", "ExpRTransform"]
        # (n, order, no_derivatives): the Bell matrices cost ~0.8 ms per point at order 3
        plan = [(1025, 3, False), (4097, 2, False), (20001, 1, False)] + ([(65537, 2, True), (31234, 2, False), (4097, 3, False)] if more else [])
        if ctx.thorough:
            plan.append((2 ** 19 + 1, 2, True))
        for i, (n, order, nod) in enumerate(plan):
            k += 1
            if order not in orders:
                order = orders[-1]
            kind = kinds[(k + i) % len(kinds)]
            name = names[(k + 2 * i) % len(names)]
            if n > 2 ** 19:
                name = "none" if kind == "ivp" else "BeckeRTransform"
            if kind == "ivp":
                prob = gen_problem(rng, order, name, cat)
                prob.update(method="DOP853", rtol=1e-10, atol=1e-12)
                tol = IVP_FACTOR * 1e-10
            else:
                prob = _gen_bvp_problem(rng, order, name, cat, "mixed")
                tol = BVP_ACCEPT * cat[name][2].get("bvp_tol_factor", 1.0)
            case = {"prob": prob, "kind": kind, "n": n, "nod": nod, "seed": rng.randrange(2 ** 31), "tol": tol,
                    "splits": sorted({n // 2, 1024 if n > 1024 else 3, n - 1}) if more else [2 ** (n.bit_length() - 1)]}
            run("check_many_points", case,
                {"many-points": f"ode.solve_ode_{kind}:returned-callable:many-points", "shape": f"ode.solve_ode_{kind}:returned-shape",
                 "*": f"ode.solve_ode_{kind}:returned-callable:many-points:raised"},
                f"callable returned by solve_ode_{kind} (order {order}, {prob['tf'] or 'no transform'}, no_derivatives={nod}) on {n} shuffled points",
                f"audit:{kind}:many-points:n={n}")
        # a mesh with 1025 nodes for solve_ode_bvp (its callbacks then see arrays of that length)
        if "bvp" in kinds:
            k += 1
            name = ["BeckeRTransform", "Inverse(KnowlesRTransform):k=3", "none"][k % 3]
            prob = _gen_bvp_problem(rng, orders[k % len(orders)], name, cat, "mixed")
            prob["nmesh"] = [1025, 1537][k % 2]
            acc = BVP_ACCEPT * cat[name][2].get("bvp_tol_factor", 1.0)
            key = "ode.solve_ode_bvp:mesh-of-many-nodes"
            ctx.count(["bvp-big-mesh", prob], nontrivial=True, tag=f"oracle:bvp:mesh-of-{prob['nmesh']}-nodes")
            try:
                with time_limit(SOLVE_TIME_LIMIT):
                    sol, bd = run_bvp(prob)
                    errs, out = errors(prob, sol, np.linspace(prob["span"][0], prob["span"][1], 9))
                if max(errs) > acc:
                    ctx.fail("oracle", key, f"solve_ode_bvp on a mesh of {prob['nmesh']} nodes, {prob['tf'] or 'no transform'}: errors {errs} > {acc}",
                             witness={"problem": prob, "errors": errs}, snippet=snippet_bvp(prob, acc))
            except Exception as e:
                ctx.fail("oracle", key, f"solve_ode_bvp on a mesh of {prob['nmesh']} nodes raised {type(e).__name__}: {e}", witness=prob, snippet=snippet_bvp(prob, acc))
        # the array helpers themselves
        for i, n in enumerate([1025, 4097] + ([20001, 65537] if more else []) + ([2 ** 19 + 1] if ctx.thorough else [])):
            k += 1
            order = [3, 2, 1][(k + i) % 3]
            case = {"n": n, "order": order, "seed": rng.randrange(2 ** 31), "tf": ["BeckeRTransform(0.1, 1.5)", "KnowlesRTransform(0.1, 1.5, 3)", "HandyModRTransform(0.1, 10.0, 3)"][k % 3],
                    "a": [rng.choice([-1, 1]) * rng.uniform(0.5, 2) for _ in range(order + 1)], "splits": sorted({n // 2, 1024, n - 1})}
            run("check_helper_sizes", case, {"*": "ode.array-helpers:sizes-past-block-boundaries"},
                f"the array helpers of ode.py on {n} points (order {order}, {case['tf']})", f"audit:helpers:n={n}")

    def part_precision():
        k = k0
        for kind in kinds:
            for i in range(4 if more else 1):
                k += 1
                order = orders[(k + i) % len(orders)]
                tf = ([""] + _TYPED_TFS_12[:-1])[(k + 3 * i) % len(_TYPED_TFS_12)]
                own = [v for v in PRECISION_VARIANTS if (v[1] in ("span", "y0", "points")) == (kind == "ivp") or v[1] == "points"]
                pick = own if more else [own[(k + 5 * j) % len(own)] for j in range(5)]
                case = {"order": order, "kind": kind, "tf": tf, "variants": [list(v) for v in pick]}
                run("check_precision_kinds", case,
                    {"precision-kinds": f"ode.solve_ode_{kind}:precision-of-direct-inputs", "caller-data": f"ode.solve_ode_{kind}:caller-data",
                     "*": f"ode.solve_ode_{kind}:precision-of-direct-inputs:raised"},
                    f"solve_ode_{kind}, order {order}, {tf or 'no transform'}: inputs given directly as {pick}", f"audit:{kind}:precision-of-direct-inputs")

    def part_scale_sequence():
        k = k0
        texts = ["ExpRTransform(0.1, 5.0)", "ExpRTransform(0.1, 5.0, b=4.0)", "PowerRTransform(0.1, 5.0)", "LinearInfiniteRTransform(0.1, 5.0)",
                 "PowerRTransform(0.1, 5.0, b=4.0)", "LinearInfiniteRTransform(0.1, 5.0, b=4.0)"]
        for i in range(len(texts) if more else 2):
            k += 1
            text = texts[(k0 + i) % len(texts)]
            name = text.split("(")[0]
            spans = [(0.3, 1.2), (0.5, 3.0), (2.0, 6.5), (0.0, 0.9)]
            inferred = "b=" not in text
            steps = []
            for j in range(4):
                kind = kinds[(k + j) % len(kinds)]
                order = orders[(k + j) % len(orders)]
                span = spans[(k + j) % len(spans)]
                if inferred:
                    # b=None: the library takes b from the first thing the object sees - the largest node of the mesh in solve_ode_bvp,
                    # but the SCALAR x_span[0] in solve_ode_ivp (its first use is transform.deriv(x_span[0]); a span starting at 0 is then
                    # rejected: "b 0.0 ... can't be zero").  The solution does not depend on b, but with b = 0.3 the image of x = 3 is
                    # 1e16: the first problem therefore fixes b = 3 (backward span / mesh up to 3), the later ones stay below 3
                    span = ((3.0, 0.5) if kind == "ivp" else (0.5, 3.0)) if j == 0 else [(0.3, 1.2), (1.0, 2.5), (0.6, 2.0)][(k + j) % 3]
                if kind == "ivp":
                    prob = gen_problem(rng, order, name, cat)
                    prob.update(method="DOP853", rtol=1e-10, atol=1e-12)
                else:
                    prob = _gen_bvp_problem(rng, order, name, cat, "mixed")
                    prob["nmesh"] = [7, 12, 20][(k + j) % 3]
                prob.update(tf=text, span=list(span), y=_gentle_solution(rng, span[1] - span[0]))
                steps.append([kind, prob])
            case = {"tf": text, "steps": steps, "tol": {"ivp": 3 * IVP_FACTOR * 1e-10, "bvp": 5 * BVP_ACCEPT}}
            run("check_scale_sequence", case, {"*": "ode.solve_ode:one-transform-object-for-several-problems"},
                f"one {text} object for {[(kd, p['span']) for kd, p in steps]} in sequence", "audit:scale-parameter:one-object-several-problems")

    def part_inplace():
        k = k0
        for kind in kinds:
            for i in range(3 if more else 1):
                k += 1
                case = {"order": orders[(k + i) % len(orders)], "kind": kind, "tf": ([""] + _TYPED_TFS_12[:-1])[(k + 2 * i) % len(_TYPED_TFS_12)]}
                run("check_inplace_reuse", case, {"*": f"ode.solve_ode_{kind}:argument-objects-refilled-in-place"},
                    f"solve_ode_{kind}, order {case['order']}, {case['tf'] or 'no transform'}: the same argument arrays refilled in place between two calls",
                    f"audit:{kind}:arguments-refilled-in-place")

    def part_instances():
        k = k0
        for i in range(len(INSTANCE_PAIRS) if more else 2):
            k += 1
            what, tP, tQ, oP, oQ, nP, nQ = INSTANCE_PAIRS[(k0 + i) % len(INSTANCE_PAIRS)]
            kind = kinds[(k + i) % len(kinds)]
            order = orders[k % len(orders)]
            span = [0.3, 1.2] if tP.startswith("ExpRTransform") else [-0.5, 0.4]

            def make(text, o, y=None):
                o = o or order
                if o not in orders:
                    o = orders[-1]
                prob = gen_problem(rng, o, "BeckeRTransform", cat) if kind == "ivp" else _gen_bvp_problem(rng, o, "BeckeRTransform", cat, "one-end")
                prob.update(tf=text, span=list(span), tfname="MultiExpRTransform" if "MultiExp" in text else "BeckeRTransform",
                            reverse_mesh="MultiExp" in text, method="DOP853", rtol=1e-10, atol=1e-12)
                return prob
            P = make(tP, oP)
            Q = make(tQ, oQ)
            if oP == oQ:          # the same equation and solution: only the named thing differs
                Q.update(y=P["y"], coeffs=P["coeffs"])
                if kind == "bvp":
                    Q.update(bc=P["bc"], nmesh=P["nmesh"])
            case = {"what": f"two problems that differ in {what}", "P": [kind, P, nP], "Q": [kind, Q, nQ],
                    "tol": IVP_FACTOR * 1e-10 if kind == "ivp" else 5 * BVP_ACCEPT}
            run("check_two_instances", case, {"two-instances": "ode.solve_ode:two-instances-in-one-process", "*": "ode.solve_ode:two-instances-in-one-process:raised"},
                f"solve_ode_{kind}: {tP or 'no transform'} (order {len(P['coeffs']) - 1}, no_derivatives={nP}) and {tQ or 'no transform'} "
                f"(order {len(Q['coeffs']) - 1}, no_derivatives={nQ}) in either order", "audit:two-instances")

    _run_parts(ctx, "oracle", [("sizes-past-block-boundaries", part_sizes), ("precision-of-direct-inputs", part_precision),
                               ("scale-parameter", part_scale_sequence), ("arguments-refilled-in-place", part_inplace),
                               ("two-instances", part_instances)])


SEARCH_CAP_S = 200.0        # wall-clock cap of the failing-input search (oracle_at + large budget) of one run, as for C16


def _search_left(ctx):
    import time
    t0 = ctx.extra.setdefault("_search_t0", time.time())
    return SEARCH_CAP_S - (time.time() - t0)


def _run_parts(ctx, stage, parts):
    """Crash-proofing (round 4): every part runs; an exception raised by the library (innermost frame inside grid / scipy / numpy /
    sympy) is a failure of its own with the key `<part>:raises`, any other exception (harness, driver, translator) is kept and
    the first of them is raised again after all parts have run - so one part cannot hide what the others find."""
    import traceback
    first = None
    for name, fn in parts:
        try:
            fn()
        except Exception as e:          # noqa: BLE001
            tb = traceback.extract_tb(e.__traceback__)
            where = tb[-1].filename if tb else ""
            in_library = any(f"/{m}/" in where for m in ("grid", "scipy", "numpy", "sympy", "mpmath"))
            if in_library or isinstance(e, SolveTimeout):
                ctx.fail(stage, f"ode.{name}:raises",
                         f"part '{name}' of the {stage}: the library raised {type(e).__name__}: {e} at {where}:{tb[-1].lineno if tb else '?'} "
                         f"outside every guarded call", witness={"part": name, "traceback": traceback.format_exception(e)[-6:]})
            else:
                ctx.info(f"part '{name}' of the {stage} stopped with {type(e).__name__}: {e} (re-raised after the remaining parts)")
                if first is None:
                    first = e
    if first is not None:
        raise first


# ---- 7. a correspondence disagreement -> a concrete failing input of the property ------------------------------------------
def oracle_at(ctx: Ctx, failure):
    """Evaluate the property on manufactured problems of the order and kind (IVP / BVP) at which the model and the
    implementation disagreed: a restricted, dense run of the oracle (real transforms of the catalogue only)."""
    w = failure.witness if isinstance(failure.witness, dict) else {}
    key = failure.key or ""
    orders, kinds = None, {"ivp", "bvp"}
    if w.get("op") in ("func", "ivpinit", "back", "bc"):
        case = str(w.get("case", ""))
        kinds = {"ivp"} if case.startswith("ivp") or w["op"] == "ivpinit" else {"bvp"} if case.startswith("bvp") or w["op"] == "bc" else kinds
        for o in (1, 2, 3):
            if f"order{o}" in case:
                orders = {o}
        if w["op"] in ("ivpinit", "back") and orders == {1}:
            orders = {1, 2}
    elif key.startswith("_transform_ode_from_derivs") and "order" in w:
        orders = {min(3, max(1, int(w["order"])))}
    elif key.startswith("_derivative_transformation_matrix") and "order" in w:
        orders = {min(3, max(2, int(w["order"]) + 1))}       # the (K-1) x (K-1) matrix belongs to an ODE of order K
    elif key.startswith("sympy.bell"):
        orders = {2, 3}
    elif key.startswith("_rearrange_to_explicit_ode") or key.startswith("solve_ode"):
        orders = {1, 2, 3}
    if orders is None:
        return
    done = ctx.__dict__.setdefault("_c15_oracle_at", [])
    todo = [(o, k) for o in sorted(orders) for k in sorted(kinds) if (o, k) not in done]
    for o, k in todo:
        if sum(f.kind == "oracle" for f in ctx.failures) >= 3 or _search_left(ctx) <= 0:
            return
        done.append((o, k))
        oracle(ctx, "large", only={"orders": {o}, "kinds": {k}})


# ---- correspondence: what SciPy is handed for every container kind / dtype / direction of the arguments (no solves) ----------
def _corr_container_kinds(ctx: Ctx, ode):
    """t_span and y0 (op C15.ivpinit) and the boundary callback (op C15.bc) captured from solve_ode_ivp / solve_ode_bvp
    when y0 / x_span / bd_cond / x come as tuples, float32 / integer / read-only / non-contiguous arrays, NumPy scalars,
    with spans in both directions; the caller's objects must be left as they were."""
    rng = ctx.rng
    freeze = _ns["freeze"]
    rec = {}

    class Res:
        status = 0

        def __init__(self, K):
            self.K = K

        def sol(self, r):
            return np.zeros((self.K, np.size(r)))

    def fake_ivp(func, t_span, y0=None, **kw):
        rec.update(kind="ivp", t_span=[float(t) for t in t_span], y0=[float(v) for v in np.asarray(y0).ravel()])
        return Res(len(y0))

    def fake_bvp(func, bc, x, y=None, **kw):
        rec.update(kind="bvp", bc=bc, mesh=np.array(x, dtype=float))
        return Res(y.shape[0])

    y0_kinds = [("list", lambda v: list(v)), ("tuple", lambda v: tuple(v)), ("float64-array", lambda v: np.array(v, dtype=float)),
                ("float32-array", lambda v: np.array(v, dtype=np.float32)), ("list-of-np.float32", lambda v: [np.float32(u) for u in v]),
                ("read-only-array", lambda v: (lambda a: (a.setflags(write=False), a)[1])(np.array(v, dtype=float))),
                ("python-ints", lambda v: [int(round(u)) for u in v]), ("int64-array", lambda v: np.array([int(round(u)) for u in v], dtype=np.int64)),
                ("int32-array", lambda v: np.array([int(round(u)) for u in v], dtype=np.int32))]
    span_kinds = [("tuple", lambda a, b: (a, b)), ("list", lambda a, b: [a, b]), ("array", lambda a, b: np.array([a, b])),
                  ("np.float64-tuple", lambda a, b: (np.float64(a), np.float64(b)))]
    bd_kinds = [("list-of-lists", lambda bd: [list(t) for t in bd]), ("list-of-tuples", lambda bd: [tuple(t) for t in bd]),
                ("tuple-of-tuples", lambda bd: tuple(tuple(t) for t in bd)),
                ("np.int64-indices", lambda bd: [(np.int64(i), np.int64(j), c) for i, j, c in bd]),
                ("np.int32-indices-np.float64-value", lambda bd: [[np.int32(i), np.int32(j), np.float64(c)] for i, j, c in bd]),
                ("bool-end-index", lambda bd: [(bool(i), j, c) for i, j, c in bd])]
    mesh_kinds = [("float64", lambda m: m), ("read-only", lambda m: (lambda a: (a.setflags(write=False), a)[1])(m.copy())),
                  ("non-contiguous", lambda m: np.repeat(m, 2)[::2]), ("float32", lambda m: m.astype(np.float32))]
    orig = (ode.solve_ivp, ode.solve_bvp)
    cases, lines = [], []
    k = rng.randrange(1000)
    try:
        ode.solve_ivp, ode.solve_bvp = fake_ivp, fake_bvp
        for it in range(ctx.n(54, 540)):
            k += 1
            order = 1 + it % 3
            tf, (lo, hi) = _real_transforms()[(k // 3) % len(_real_transforms())]
            xa = rng.uniform(lo, lo + 0.3 * (hi - lo))
            xb = rng.uniform(lo + 0.6 * (hi - lo), hi)
            if it % 2:
                xa, xb = xb, xa                                   # backward integration
            coeffs = [rng.choice([-1, 1]) * rng.uniform(0.5, 2) for _ in range(order + 1)]
            fx = lambda x: 1.0 + 0 * x
            rec.clear()
            if it % 9 < 6:
                yk, ymake = y0_kinds[k % len(y0_kinds)]
                sk, smake = span_kinds[(k // 2) % len(span_kinds)]
                vals = [rng.randrange(-24, 25) / 8 for _ in range(order)]
                y0 = ymake(vals)
                y0f = [float(v) for v in y0]
                span = smake(xa, xb)
                tag = f"ivp:real:order{order}:y0={yk}:span={sk}" + (":backward" if it % 2 else "")
                snap = (freeze(y0), freeze(span), freeze(coeffs))
                try:
                    ode.solve_ode_ivp(span, fx, coeffs, y0, tf)
                except Exception as e:
                    ctx.fail("corr", "solve_ode:ivpinit:ivp", f"{tag}: solve_ode_ivp raised {type(e).__name__}: {e}",
                             witness={"op": "ivpinit", "case": tag, "span": [xa, xb], "y0": y0f, "transform": repr(type(tf).__name__)})
                    continue
                if (freeze(y0), freeze(span), freeze(coeffs)) != snap:
                    ctx.fail("corr", "solve_ode_ivp:caller-data", f"{tag}: the caller's y0 / x_span / coeffs were modified: y0 = {y0!r}, x_span = {span!r}",
                             witness={"op": "ivpinit", "case": tag, "y0_before": y0f, "y0_after": y0, "span": [xa, xb]})
                d0 = [float(np.atleast_1d(f(np.array([xa])))[0]) for f in (tf.deriv, tf.deriv2, tf.deriv3)]
                t0, t1 = float(tf.transform(np.array([xa]))[0]), float(tf.transform(np.array([xb]))[0])
                cases.append(("ivpinit", tag, dict(y0=y0f, d=d0, span=[xa, xb]), rec.get("t_span", []) + rec.get("y0", []),
                              max(1.0, max(abs(v) for v in y0f)) * max(1.0, abs(d0[1])) / min(1.0, abs(d0[0])) ** 3))
                lines.append(f"C15.ivpinit {f2b(xa)} {f2b(xb)} {f2b(t0)} {f2b(t1)} {f2b(d0[0])} {f2b(d0[1])} {f2b(d0[2])} {fvec(y0f)}")
            else:
                bk, bmake = bd_kinds[k % len(bd_kinds)]
                mk, mmake = mesh_kinds[(k // 2) % len(mesh_kinds)]
                order = 3 if "indices" in bk or "bool" in bk else order
                coeffs = coeffs + [1.0] * (order + 1 - len(coeffs))
                pairs = [(i, j) for i in (0, 1) for j in range(order)]
                sel = rng.sample(pairs, order)
                if order == 3 and not any(j == 2 for _, j in sel):
                    sel[0] = (rng.randrange(2), 2) if (0, 2) not in sel and (1, 2) not in sel else sel[0]
                plain = [(i, j, rng.uniform(-2, 2)) for i, j in sel]
                bd = bmake(plain)
                mesh0 = np.linspace(min(xa, xb), max(xa, xb), 6)
                mesh = mmake(mesh0)
                tag = f"bvp:real:order{order}:bd={bk}:x={mk}"
                snap = (freeze(bd), freeze(mesh))
                try:
                    ode.solve_ode_bvp(mesh, fx, coeffs, bd, tf, initial_guess_y=np.zeros((order, 6)))
                    ya = [rng.uniform(-2, 2) for _ in range(order)]
                    yb = [rng.uniform(-2, 2) for _ in range(order)]
                    res = [float(v) for v in rec["bc"](np.array(ya), np.array(yb))]
                except Exception as e:
                    ctx.fail("corr", "solve_ode:bc:bvp", f"{tag}: solve_ode_bvp / its boundary callback raised {type(e).__name__}: {e}",
                             witness={"op": "bc", "case": tag, "bd": plain})
                    continue
                if (freeze(bd), freeze(mesh)) != snap:
                    ctx.fail("corr", "solve_ode_bvp:caller-data", f"{tag}: the caller's bd_cond / x were modified",
                             witness={"op": "bc", "case": tag, "bd": plain})
                want_mesh = tf.transform(np.array(mesh, dtype=float))
                if not np.allclose(rec["mesh"], want_mesh, rtol=1e-5 if mk == "float32" else 1e-14, atol=0):
                    ctx.fail("corr", "solve_ode_bvp:mesh", f"{tag}: mesh handed to solve_bvp is not transform(x)",
                             witness={"op": "bc", "case": tag, "mesh": rec["mesh"], "expected": want_mesh})
                cases.append(("bc", tag, dict(bd=plain, ya=ya, yb=yb), res, 4.0))
                lines.append(f"C15.bc {len(plain)} " + " ".join(f"{i} {j} {f2b(c)}" for i, j, c in plain) + f" {fvec(ya)} {fvec(yb)}")
    finally:
        ode.solve_ivp, ode.solve_bvp = orig
    for (op, tag, inp, impl, scale), ans in zip(cases, driver_batch(lines)):
        ctx.count([op, inp, tag], nontrivial=True, tag=f"{op}:containers:{tag.split(':')[0]}:{tag.split(':')[2]}")
        got = _ok_vec(ans)
        if not _vec_close(got, impl, scale):
            ctx.fail("corr", f"solve_ode:{op}:{tag.split(':')[0]}",
                     f"{op} ({tag}) on {inp}: implementation {impl}, model {ans if got is None else got}",
                     witness={"op": op, "case": tag, "input": inp, "impl": impl, "model": got})

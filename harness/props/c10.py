"""C10 — local grids hold exactly the points inside the cutoff sphere, for any grid type."""
import importlib
import math

import numpy as np

from ..common import Ctx, driver_batch, f2b, fmat, fvec, vec

LEVEL = "proof"
LEVEL_TEXT = (
    "Lean theorems over every operation history of the state machine {points, weights, lazily built tree = snapshot "
    "of the points it was built from}: the invariant 'no tree, or the tree of the current points' holds initially and is "
    "kept by every operation (query, points/weights reassignment, selection), hence every query of every history returns "
    "exactly the positions of the current points within the radius (squared-distance comparison, equivalent to the "
    "Euclidean one for r >= 0), ascending and each once, with the current weights and points[k] = parent.points[indices[k]]; "
    "infinite radius = whole grid; empty sphere = empty grid; selection by int / NumPy int / slice (CPython slice "
    "semantics) / index array / mask returns the selected points and weights with the same class and domain. "
    "Tie to the code: the setters, get_localgrid and __getitem__ of basegrid.py are translated statement by statement "
    "(harness/translate/localgrid.py -> Gen/LocalGrid.lean, regenerated on every run) and proved equal to the hand model "
    "(gen_*_eq, genStep_eq_step), so the theorems hold for the generated text; the driver executes the generated "
    "definitions, which are compared with the implementation on random operation histories for every grid class. "
    "Round 3: Grid.__init__ and LocalGrid.__init__ are translated as well (harness/translate/localgrid_ctor.py -> "
    "Gen/LocalGridCtor.lean): what they accept, that the object holds exactly the given arrays, the index array and no "
    "tree (gen_grid_init_spec, gen_localgrid_init_spec), that the base constructor is the init of the state machine "
    "(gen_grid_init_eq) and that the return statement of the generated get_localgrid hands LocalGrid.__init__ arguments it "
    "accepts in every reachable state (gen_localgrid_of_query, _inf); the keyword arguments of cKDTree / query_ball_point "
    "(source literals, SciPy's signature defaults for the others) are regenerated as a constant and proved to select the "
    "exact Euclidean non-periodic search (gen_tree_args_exact). Round 4: the table of every Grid subclass of the package with the "
    "class whose get_localgrid / __getitem__ / points / weights it executes is regenerated (gridDispatch) and proved to be the "
    "dispatch the model assumes (gen_dispatch_pinned): a new override of get_localgrid in any subclass breaks the obligation. "
    "Round 6: the array effects of the two setters are regenerated (Grid_points_set_eff, Grid_weights_set_eff) and proved to be "
    "rebinds only over a reference/heap model (Model/LocalGridEff.lean): after a reassignment every array of the process — the "
    "old one still held by an infinite-radius local grid or the caller, the assigned one — keeps its contents (gen_setter_frame, "
    "gen_shared_weights_kept); the closed ball is stated over the generated get_localgrid (gen_boundary_point_included, "
    "gen_closed_ball_3_4_5, gen_closed_ball_radius_zero); the translator carries in-place setter assignments and direct scans "
    "(np.flatnonzero(dists < r)) so that such rewrites make these statements false instead of stopping the translator."
)
TECHNIQUE = "Lean 4 proof (state-machine invariant over all op histories) + differential op histories + brute-force oracle"
GEN = ["localgrid", "localgrid_ctor"]
LEAN_MODULES = ["GridVerif.Props.C10", "GridVerif.Props.C10.Gen", "GridVerif.Props.C10.Ctor", "GridVerif.Props.C10.Effects",
                "GridVerif.Props.C10.Boundary"]
THEOREMS = [
    "GridVerif.C10.inv_init",
    "GridVerif.C10.inv_step",
    "GridVerif.C10.inv_history",
    "GridVerif.C10.ballQuery_spec",
    "GridVerif.C10.query_spec",
    "GridVerif.C10.localgrid_correct",
    "GridVerif.C10.query_inf_whole_grid",
    "GridVerif.C10.query_empty_sphere",
    "GridVerif.C10.query_rejects",
    "GridVerif.C10.inBall_iff_sqrt",
    "GridVerif.C10.stale_tree_would_fail",
    "GridVerif.C10.select_lt",
    "GridVerif.C10.getitem_spec",
    "GridVerif.C10.select_int",
    "GridVerif.C10.select_array",
    "GridVerif.C10.select_mask",
    "GridVerif.C10.select_slice",
    "GridVerif.C10.select_slice_default_step",
    "GridVerif.C10.getitem_unsupported",
    "GridVerif.C10.setters_spec",
    # tie to the source: theorems about the generated definitions (Gen/LocalGrid.lean)
    "GridVerif.C10.gen_setter_effects",
    "GridVerif.C10.gen_points_set_eq",
    "GridVerif.C10.gen_weights_set_eq",
    "GridVerif.C10.gen_query_eq",
    "GridVerif.C10.getitem_branches",
    "GridVerif.C10.gen_getitem_eq",
    "GridVerif.C10.gen_oned_getitem_eq",
    "GridVerif.C10.genStep_eq_step",
    "GridVerif.C10.genRun_eq_run",
    "GridVerif.C10.gen_inv_step",
    "GridVerif.C10.gen_localgrid_correct",
    # round 3: the constructors behind a local grid (Gen/LocalGridCtor.lean) and the keyword arguments of the search
    "GridVerif.C10.gen_grid_init_spec",
    "GridVerif.C10.gen_localgrid_init_spec",
    "GridVerif.C10.gen_grid_init_eq",
    "GridVerif.C10.gen_localgrid_of_query",
    "GridVerif.C10.gen_localgrid_of_query_inf",
    "GridVerif.C10.gen_tree_args_exact",
    # round 4: which class's get_localgrid / __getitem__ / points / weights every grid class executes
    "GridVerif.C10.gen_dispatch_pinned",
    # round 6: the setters rebind and never write through (effects over the generated setters); the ball is closed
    "GridVerif.C10.gen_setters_never_write_through",
    "GridVerif.C10.gen_setter_frame",
    "GridVerif.C10.gen_setter_rebinds",
    "GridVerif.C10.gen_shared_weights_kept",
    "GridVerif.C10.write_through_would_overwrite",
    "GridVerif.C10.gen_boundary_point_included",
    "GridVerif.C10.gen_closed_ball_3_4_5",
    "GridVerif.C10.gen_closed_ball_radius_zero",
]
RULE = (
    "one evaluation = one operation (get_localgrid / points= / weights= / __getitem__) of a random history run on the "
    "implementation object and on the Lean state machine (answers compared bit for bit after sorting the kd-tree's "
    "index set); classes Grid (1-D array and (N,1..3)), OneDGrid, AtomGrid, MolGrid, UniformGrid, Tensor1DGrids, "
    "LocalGrid; radii 0 / tiny / inside / huge / inf and rejected ones; centres on a point, near, far; all index kinds. "
    "non-trivial = a history with at least one reassignment of points or weights between two queries (hash of the whole "
    "history line). Round 3 adds scripted histories (harness/props/c10_ext.py): exact = dyadic grids (scaled 2^-40..2^40, "
    "translated 2^10..2^20) with radii equal to / one ulp / 1e-10 / 1% / 100x around a point distance, 0.0, -0.0, 5e-324, "
    "largest double, inf (radii whose double comparison d2 <= r*r is not the exact one are left out); special = identical "
    "points, one-point grids, an atomic shell of radius 0, centres up to 1e150 away; handout = the caller edits the local "
    "grid it was handed (in place / setters) and asks again, the handed-out grid lives through its own history; orders = every "
    "sequence of <= 2 (thorough 3) operations of {query A, query B, inf query, points=, weights=, selection} on every class; "
    "domain = both sides of the 1e-7 slack of OneDGrid.__init__ through __getitem__; ctor = the generated constructors on "
    "every rank/length combination and the keyword arguments the neighbour search receives at run time. Round 4 "
    "(harness/props/c10_r4.py): one-dimensional point arrays ascending / descending / permuted / with repeated values in every "
    "class that carries them (OneDGrid, the real MultiExp / Becke / Handy radial grids, rule objects, Tensor1DGrids, radial grids "
    "of AtomGrid / MolGrid), AngularGrid, unequal shapes and (n, d) in {1,2,3}^2, points / weights / axes / radial grids as "
    "bool / int / float32 / negative-stride / strided / Fortran / read-only arrays, reversed and permuted selections queried "
    "themselves, every keyword spelling of get_localgrid and of the constructors, one centre / value / index array shared by "
    "several requests (guard bytes around a view), every rejected call in every position of a short history; corr and oracle run "
    "as independent parts (run_parts): an exception in one part does not hide the findings of the others. Round 5 "
    "(harness/props/c10_r5.py): plain grids of 1025 / 4097 / 20001 / 65537 (thorough 31234, 2^19+1) points, 1-D ones ascending / "
    "descending / shuffled, against a per-point evaluation and additivity over a split; points / weights / centre / radius / "
    "assigned values given directly as longdouble, float16, float32 and integer arrays or scalars (second call with the same "
    "objects, arguments unchanged); the centre, the radius (0-d array), the index array and the value array edited in place "
    "between two calls; two or three objects differing in one hidden dependency (same shape, reversed order, shared radial or "
    "1-D grid object, node at r = 0, a grid and its selections) used alternately in either order"
)
TRUSTED_BASE = [
    "Lean 4.33 kernel; axioms propext, Classical.choice, Quot.sound only (audited per theorem)",
    "translator harness/translate/localgrid.py (Python AST -> Gen/LocalGrid.lean) and the vocabulary Model/LocalGridPy.lean it maps NumPy/SciPy expressions to; the generated definitions are executed by the driver and compared with the implementation on differential op histories",
    "hand model Model/LocalGrid.lean (proved equal to the generated definitions); the class dispatch (AtomGrid has no points setter, OneDGrid overrides __getitem__) and the constructors of the non-periodic classes remain hand-modelled",
    "contract of scipy cKDTree.query_ball_point (= exactly the positions with distance <= r) for the keyword arguments pinned by gen_tree_args_exact (p = 2, eps = 0, boxsize None); NumPy indexing semantics as modelled",
    "translator harness/translate/localgrid_ctor.py (Grid.__init__, LocalGrid.__init__ -> Gen/LocalGridCtor.lean) and its vocabulary Model/LocalGridCtor.lean (an array argument = its ndim and its entries along the first axis); executed by the driver (C10.ginit / C10.lginit) against the constructors on every rank/length combination",
]
ASSUMPTIONS = [
    "reassignment = the points/weights setter with a new array; editing the stored array in place is outside (C19/C20)",
    "ties at distance == radius under rounding are outside the claim (random radii keep a relative margin 1e-7 from every point distance, exact zero distance excepted; the dyadic class of round 3 has radii equal to and one ulp around a distance and keeps exactly those whose double comparison d2 <= r*r agrees with exact rational arithmetic)",
    "overflow is outside the model: a centre farther than ~1.3e154 from the grid makes the squared distance overflow and cKDTree raises ValueError (recorded as an observation by the oracle); generated centres stay within 1e150",
    "an infinite-radius local grid shares its arrays with the parent (no copy): in-place edits of a handed-out local grid are generated for finite radii only (there the arrays are copies); for the infinite radius the caller uses the setters (recorded as an observation; aliasing is C19/C20)",
    "MolGrid.__getitem__ (atom selection) is another operation and is not part of the selection clause",
]

ERR = {ValueError: "value-error", TypeError: "type-error", IndexError: "index-error", AttributeError: "attribute-error"}
PATH = {
    "grid": "basegrid.Grid", "grid1": "basegrid.Grid", "oned": "basegrid.OneDGrid", "atom": "atomgrid.AtomGrid",
    "mol": "molgrid.MolGrid", "uniform": "cubic.UniformGrid", "tensor": "cubic.Tensor1DGrids", "loc": "basegrid.LocalGrid",
    "periodic": "periodicgrid.PeriodicGrid", "angular": "angular.AngularGrid",
}
MODEL_CLS = {"grid": "grid", "grid1": "grid", "oned": "oned", "atom": "atom", "mol": "mol", "uniform": "rect",
             "tensor": "rect", "loc": "loc", "angular": "rect"}
KINDS = ["grid", "grid1", "oned", "atom", "mol", "uniform", "tensor", "loc"]


def _mods():
    m = {}
    for n in ("basegrid", "atomgrid", "molgrid", "cubic", "becke", "periodicgrid", "angular", "onedgrid", "rtransform"):
        m[n] = importlib.import_module("grid." + n)
    return m


def _errtag(e):
    for k, v in ERR.items():
        if type(e) is k:
            return v
    return "other:" + type(e).__name__


def _coords(rng, shape, structured):
    if structured:
        return np.array([rng.randrange(-8, 9) / 4.0 for _ in range(int(np.prod(shape)))]).reshape(shape)
    return np.array([rng.uniform(-2, 2) for _ in range(int(np.prod(shape)))]).reshape(shape)


def _weights(rng, n):
    return np.array([rng.choice([1.0, 0.5, rng.uniform(-1, 3)]) for _ in range(n)])


def _dress(rng, a, tags=None):
    """The same numbers in another dtype / memory layout (class 2 of the round-2 audit):
    float32 (values are rounded to float32 first, so the float64 computation on the stored
    values is exact), int64/int32 (only for integral values), a non-contiguous view, a read-only
    array, Fortran order.  -> array (the caller reads the values back from the object)."""
    a = np.asarray(a, dtype=float)
    k = rng.choice(["f64"] * 6 + ["f32", "f32", "int", "strided", "readonly", "fortran"])
    if k == "int":
        a = np.round(a)        # (the caller reads the values back from the array it gets)
    if k == "f32":
        out = a.astype(np.float32)
    elif k == "int":
        out = a.astype(rng.choice([np.int64, np.int32]))
    elif k == "strided":
        big = np.zeros((2 * len(a),) + a.shape[1:]) if a.ndim else a
        if a.ndim:
            big[::2] = a
            out = big[::2]
        else:
            out = a
    elif k == "readonly":
        out = a.copy()
        out.flags.writeable = False
    elif k == "fortran" and a.ndim == 2:
        out = np.asfortranarray(a)
    else:
        out = a.copy()
    if tags is not None:
        tags.append(k)
    return out


def _clone(a):
    """A new array object with the same values, dtype, layout kind and writeable flag."""
    a = np.asarray(a)
    if a.ndim >= 1 and len(a) > 1 and not a.flags.c_contiguous and not a.flags.f_contiguous:
        big = np.zeros((2 * len(a),) + a.shape[1:], dtype=a.dtype)
        big[::2] = a
        out = big[::2]
    elif a.ndim == 2 and a.flags.f_contiguous and not a.flags.c_contiguous:
        out = np.asfortranarray(a.copy())
    else:
        out = a.copy()
    out.flags.writeable = a.flags.writeable
    return out


def _same_value(x, y):
    return bool(np.array_equal(np.asarray(x, dtype=float), np.asarray(y, dtype=float)))


def _size(rng):
    return rng.choice([0, 1, 1, 2, 2, 3, 3, 4, 5, 7, 12])


def _reorder(rng, p):
    """One-dimensional point arrays in every order the classes accept: ascending, descending, permuted (radial grids
    of `MultiExpRTransform` are descending; selections and user-built grids come in any order)."""
    p = np.sort(p)
    k = rng.random()
    if k < 0.4 or len(p) < 2:
        return p
    if k < 0.7:
        return p[::-1].copy()
    idx = list(range(len(p)))
    rng.shuffle(idx)
    return p[idx].copy()


def build(kind, rng, M):
    """-> implementation object of the requested kind (small); `_gv_ctor` = python text rebuilding it."""
    g = _build(kind, rng, M)
    try:
        g._gv_ctor = _ctor_text(kind, g)
    except Exception:  # noqa: BLE001
        g._gv_ctor = f"Grid({_descr(np.asarray(g.points))}, {_descr(np.asarray(g.weights))})  # points/weights of the {kind} object"
    return g


def _build(kind, rng, M):
    bg = M["basegrid"]
    st = rng.random() < 0.4
    if kind == "grid":
        n, d = _size(rng), rng.choice([1, 2, 3])
        return bg.Grid(_dress(rng, _coords(rng, (n, d), st)), _dress(rng, _weights(rng, n)))
    if kind == "grid1":
        n = _size(rng)
        return bg.Grid(_dress(rng, _coords(rng, (n,), st)), _dress(rng, _weights(rng, n)))
    if kind == "oned":
        n = _size(rng)
        p = _reorder(rng, _dress(rng, _coords(rng, (n,), st)))
        dom = None
        if rng.random() < 0.6:
            lo = (p.min() if n else 0.0) - rng.choice([0.0, 0.5, 5e-8])
            hi = (p.max() if n else 1.0) + rng.choice([0.0, 0.5, 5e-8])
            dom = (float(lo), float(hi)) if n or rng.random() < 0.5 else None
        if n == 0 and dom is not None:
            dom = None  # np.min of an empty array: such a OneDGrid cannot be constructed
        return bg.OneDGrid(p, _dress(rng, _weights(rng, n)), dom)
    if kind in ("atom", "mol"):
        def atom():
            nr = rng.choice([1, 1, 2])
            r = _reorder(rng, np.array([rng.uniform(0.2, 2.0) for _ in range(nr)]))
            rg = bg.OneDGrid(r, np.ones(nr), (0, np.inf))
            degs = [rng.choice([3, 5])] if rng.random() < 0.6 else [rng.choice([3, 5]) for _ in range(nr)]
            c = None if rng.random() < 0.2 else _coords(rng, (3,), st)
            return M["atomgrid"].AtomGrid(rg, degrees=degs, center=c, rotate=rng.choice([0, 0, 7]))
        if kind == "atom":
            return atom()
        na = rng.choice([1, 2])
        ats = []
        while len(ats) < na:
            a = atom()
            if all(np.linalg.norm(a.center - b.center) > 0.3 for b in ats):
                ats.append(a)
        return M["molgrid"].MolGrid(np.array([rng.choice([1, 6, 8]) for _ in range(na)]), ats, M["becke"].BeckeWeights(), store=True)
    if kind == "uniform":
        d = rng.choice([2, 3])
        while True:
            ax = _coords(rng, (d, d), st) * 0.5
            if abs(np.linalg.det(ax)) > 1e-2:
                break
        shape = np.array([rng.choice([2, 2, 3]) for _ in range(d)])
        wt = rng.choice(["Trapezoid", "Rectangle"])
        g = M["cubic"].UniformGrid(_coords(rng, (d,), st), ax, shape, weight=wt)
        g._gv_weight = wt
        return g
    if kind == "tensor":
        d = rng.choice([2, 3])
        gs = []
        for _ in range(d):
            n = rng.choice([2, 2, 3])
            gs.append(bg.OneDGrid(_reorder(rng, _coords(rng, (n,), False)), _weights(rng, n)))
        g = M["cubic"].Tensor1DGrids(*gs)
        g._gv_oned = gs
        return g
    if kind == "loc":
        n, d = rng.choice([1, 2, 3, 5]), rng.choice([1, 2, 3])
        return bg.LocalGrid(_coords(rng, (n, d), st), _weights(rng, n), np.zeros(d), np.arange(n))
    raise KeyError(kind)


def header(kind, g):
    """Driver line prefix describing the object as it is now."""
    pts = g._points
    oned = pts.ndim == 1
    dim = 1 if oned else pts.shape[1]
    rows = pts.reshape(len(pts), dim)
    cen = "1 " + fvec(g._center) if kind == "atom" else "0"
    dom = "0"
    if kind == "oned" and g.domain is not None:
        dom = f"1 {f2b(g.domain[0])} {f2b(g.domain[1])}"
    m = fmat(rows) if len(rows) else f"0 {dim}"
    return f"C10.hist {MODEL_CLS[kind]} {int(oned)} {dim} {m} {cen} {fvec(g._weights)} {dom}"


def _mat(a):
    a = np.asarray(a)
    if len(a) == 0:
        return "0 0"
    return fmat(a.reshape(len(a), -1))


def _margin_ok(d, r):
    return all(abs(x - r) > 1e-7 * max(x, r) or (x == 0.0 and r == 0.0) for x in d)


def _radius(rng, pts, c, oned):
    """A radius class and value, keeping a relative margin from every point distance."""
    rows = np.asarray(pts, dtype=float).reshape(len(pts), -1) if len(pts) else np.zeros((0, 1))
    cc = np.atleast_1d(np.asarray(c, dtype=float))
    d = np.sqrt(((rows - cc) ** 2).sum(axis=1)) if len(rows) else np.zeros(0)
    cls = rng.choice(["zero", "tiny", "inside", "inside", "inside", "huge", "inf", "empty"])
    if cls == "zero":
        r = 0.0
    elif cls == "tiny":
        r = rng.choice([1e-12, 1e-6, 1e-3])
    elif cls == "huge":
        r = rng.choice([1e6, 1e100, 1e300])
    elif cls == "inf":
        return cls, math.inf, d
    elif cls == "empty":
        pos = d[d > 0]
        r = 0.5 * float(pos.min()) if len(pos) else 0.25
    else:
        r = float(rng.choice(list(d))) * rng.choice([0.5, 1.0, 1.5]) + rng.choice([0.0, 0.1]) if len(d) else 1.0
    for _ in range(60):
        if _margin_ok(d, r):
            break
        r = r * (1 + 3e-6) + 1e-9
    return cls, float(r), d


def _radius_obj(rng, r, d):
    """The radius as another scalar type with the *same* comparison outcome against every point
    distance (np.float64, np.float32, Python int, np.int64, np.float32(inf)); the numeric value the
    model receives is float(<object>).  -> (object, kind)"""
    k = rng.choice(["float"] * 5 + ["f64", "f32", "f32", "int", "npint"])
    if math.isinf(r):
        return (np.float32(r), "f32") if k in ("f32", "int", "npint") else ((np.float64(r), "f64") if k == "f64" else (r, "float"))
    if k == "f64":
        return np.float64(r), k
    if k == "f32" and r < 1e38:
        r32 = float(np.float32(r))
        if _margin_ok(d, r32):
            return np.float32(r32), k
    if k in ("int", "npint") and 1.0 <= r < 1e9:
        ri = float(int(r))
        if _margin_ok(d, ri):
            return (int(ri), k) if k == "int" else (np.int64(int(ri)), k)
    return r, "float"


def _centre(rng, g, oned, dim):
    """-> (numeric centre as float64 scalar/array, how)"""
    pts = np.asarray(g.points, dtype=float)
    how = rng.choice(["on", "on", "near", "near", "far", "origin"])
    if how == "on" and len(pts):
        c = np.array(pts[rng.randrange(len(pts))], dtype=float)
    elif how == "near" and len(pts):
        c = np.array(pts[rng.randrange(len(pts))], dtype=float) + np.array([rng.uniform(-0.3, 0.3) for _ in range(dim)]).reshape(np.shape(pts[0]))
    elif how == "far":
        c = np.full(() if oned else (dim,), rng.choice([1e3, -1e5]))
    else:
        c = np.zeros(() if oned else (dim,))
    # a quarter of the centres are made integral / float32-representable so that the other
    # scalar and container kinds can carry exactly the same numbers
    q = rng.random()
    if q < 0.15:
        c = np.round(c)
    elif q < 0.3:
        c = c.astype(np.float32).astype(float)
    return (float(c) if oned else c), how


def _centre_obj(rng, c, oned):
    """The centre in another scalar / container kind holding exactly the same numbers:
    1-D: float, np.float64, 0-d array, np.float32, Python int, np.int64;  N-D: float64 array, list,
    tuple, float32 array, int array, non-contiguous view, read-only array.  -> (object, kind)"""
    if oned:
        ks = ["float", "f64", "arr0"]
        if float(np.float32(c)) == c:
            ks += ["f32", "arr0f32"]
        if c == round(c) and abs(c) < 1e9:
            ks += ["int", "int", "npint"]
        k = rng.choice(ks)
        return {"float": lambda: c, "f64": lambda: np.float64(c), "arr0": lambda: np.array(c), "f32": lambda: np.float32(c),
                "arr0f32": lambda: np.array(c, dtype=np.float32), "int": lambda: int(c), "npint": lambda: np.int64(int(c))}[k](), k
    ks = ["arr"] * 4 + ["list", "tuple", "strided", "readonly"]
    if np.array_equal(c.astype(np.float32).astype(float), c):
        ks += ["f32"]
    if np.array_equal(np.round(c), c) and np.all(np.abs(c) < 1e9):
        ks += ["intarr", "intlist"]
    k = rng.choice(ks)
    if k == "list":
        return c.tolist(), k
    if k == "tuple":
        return tuple(c.tolist()), k
    if k == "strided":
        big = np.zeros(2 * len(c))
        big[::2] = c
        return big[::2], k
    if k == "readonly":
        o = c.copy()
        o.flags.writeable = False
        return o, k
    if k == "f32":
        return c.astype(np.float32), k
    if k == "intarr":
        return c.astype(np.int64), k
    if k == "intlist":
        return [int(v) for v in c], k
    return c, k


def _index(rng, n):
    """-> (kind, python index object, driver tokens).  Besides Python/NumPy integers, slices, index
    arrays and masks: Python lists of ints / of bools (NumPy reads them as index array / mask) and
    slices, arrays, masks wrapped in a 1-tuple (NumPy reads `a[(s,)]` as `a[s]`)."""
    k = rng.choice(["int", "npint", "slice", "slice", "array", "mask", "list", "boollist", "tuple"])
    bad = rng.random() < 0.12
    wrap = (lambda o: o)
    if k == "tuple":
        k = rng.choice(["slice", "array", "mask"])
        wrap = (lambda o: (o,))
        tagk = "tuple-" + k
    else:
        tagk = k
    if k in ("int", "npint"):
        i = rng.randrange(-n, n) if n and not bad else rng.choice([n, -n - 1, n + 3])
        if k == "int":
            return k, i, f"gi i {i}"
        ty = rng.choice([np.int64, np.int32, np.intp, np.int16, np.int8, np.uint8, np.uint16, np.uint64]) if 0 <= i < 100 \
            else rng.choice([np.int64, np.int32, np.int16])
        return k, ty(i), f"gi n {i}"
    if k == "slice":
        def part(zero_ok=True):
            if rng.random() < 0.35:
                return None
            return rng.randrange(-n - 2, n + 3)
        a, b = part(), part()
        c = rng.choice([None, None, 1, 2, 3, -1, -2, -3, n + 1, -(n + 1)]) if not bad else 0
        t = lambda v: "N" if v is None else str(v)
        return tagk, wrap(slice(a, b, c)), f"gi s {t(a)} {t(b)} {t(c)}"
    if k in ("array", "list"):
        m = rng.randrange(0, 6)
        arr = [rng.randrange(-n, n) for _ in range(m)] if n else []
        if bad:
            arr.insert(rng.randrange(len(arr) + 1), rng.choice([n, -n - 1]))
        if k == "list":
            if not arr:
                arr = [0] if n else [0]   # (an empty Python list is a float index array for NumPy: not an index kind)
                if not n:
                    return "list", [0], "gi a 1 0"
            return "list", list(arr), "gi a " + vec(arr)
        return tagk, wrap(np.array(arr, dtype=rng.choice([np.int64, np.int32, np.int16]))), "gi a " + vec(arr)
    mlen = n if not bad else n + rng.choice([1, 2])
    if bad and n >= 2 and rng.random() < 0.5:
        mlen = n - 1   # (NumPy accepts a zero-length mask for any array: never generated)
    mk = [rng.random() < 0.5 for _ in range(mlen)]
    if rng.random() < 0.1:
        mk = [False] * mlen
    if k == "boollist":
        if not mk:
            return "mask", np.array(mk, dtype=bool), "gi m " + vec([int(b) for b in mk])
        return "boollist", list(mk), "gi m " + vec([int(b) for b in mk])
    return tagk, wrap(np.array(mk, dtype=bool)), "gi m " + vec([int(b) for b in mk])


def _canon_local(lg):
    idx = np.asarray(lg.indices)
    order = np.argsort(idx, kind="stable")
    p = np.asarray(lg.points)[order] if len(idx) else np.asarray(lg.points)
    w = np.asarray(lg.weights)[order] if len(idx) else np.asarray(lg.weights)
    return "L " + vec(int(i) for i in idx[order]) + " " + _mat(p) + " " + fvec(w)


def _descr(x):
    if isinstance(x, np.ndarray):
        return f"np.array({x.tolist()!r}, dtype=np.{x.dtype})"
    if isinstance(x, np.generic):
        return f"np.{type(x).__name__}({x.item()!r})"
    if isinstance(x, float) and math.isinf(x):
        return "np.inf" if x > 0 else "-np.inf"
    if isinstance(x, float) and math.isnan(x):
        return "np.nan"
    return repr(x)


class History:
    """Generates one op at a time against a live implementation object, recording the
    driver tokens, the implementation's canonical answers, a readable transcript and the
    operations themselves (`self.ops`: callables of the object) so that the same history can be
    replayed on a second build of the object."""

    def __init__(self, kind, g, rng, M):
        self.kind, self.g, self.rng, self.M = kind, g, rng, M
        self.tokens, self.impl, self.text, self.tags, self.ops = [], [], [], [], []
        self.mutated_between = False
        self._seen_query = False
        self._mut_since = False
        self._queries = []      # (token, text, tag, op) of earlier accepted queries, for repetition

    def shape(self):
        pts = self.g._points
        oned = pts.ndim == 1
        return oned, (1 if oned else pts.shape[1]), len(pts)

    def op(self):
        """Generate one op (outside any try), then run it on the implementation."""
        rng, g = self.rng, self.g
        oned, dim, n = self.shape()
        k = rng.choice(["q", "q", "q", "q2", "sp", "sp", "sw", "gi"])
        if self.kind == "mol" and k == "gi":
            k = "q"
        if k == "q2" and not self._queries:
            k = "q"
        LG = self.M["basegrid"].LocalGrid
        if k == "q2":
            # the very same query again (same arguments, possibly after reassignments): the answer
            # must be for the object as it is now
            tok, txt, tag, run = rng.choice(self._queries)
            self.tokens.append(tok)
            self.text.append(txt)
            self.tags.append(tag + ":repeated")
            if self._mut_since:
                self.mutated_between = True
            self._seen_query, self._mut_since = True, False
        elif k == "q":
            c, how = _centre(rng, g, oned, dim)
            rc, r, dist = _radius(rng, np.asarray(g.points), c, oned)
            cobj, ck = _centre_obj(rng, c, oned)
            robj, rk = _radius_obj(rng, r, dist)
            if rng.random() < 0.08:
                what = rng.choice(["neg", "nan", "ninf", "shape"])
                if what == "shape":
                    cobj = np.zeros(dim + 1) if not oned else np.zeros(1)
                else:
                    r = {"neg": -abs(r) - 0.5 if math.isfinite(r) else -1.0, "nan": math.nan, "ninf": -math.inf}[what]
                    robj = rng.choice([r, np.float64(r), np.float32(r)]) if what != "neg" else r
                rc = "bad-" + what
            cs = np.asarray(cobj)
            csf = np.asarray(cobj, dtype=float)
            rf = float(robj)
            tok = ("q s " + f2b(float(csf)) if cs.ndim == 0 else "q v " + fvec(csf)) + " " + f2b(rf)
            self.tokens.append(tok)
            self.text.append(f"g.get_localgrid({_descr(cobj)}, {_descr(robj)})")
            self.tags.append(f"query:{rc}")
            if self._seen_query and self._mut_since:
                self.mutated_between = True
            self._seen_query, self._mut_since = True, False

            def run(g, cobj=cobj, robj=robj, cs=cs):
                lg = g.get_localgrid(cobj, robj)
                if type(lg) is not LG:
                    return "wrong-type:" + type(lg).__name__
                if not np.array_equal(np.asarray(lg.center), cs):
                    return "wrong-center"
                return _canon_local(lg)
            if not rc.startswith("bad-"):
                self._queries.append((tok, self.text[-1], f"query:{rc}", run))
            self.ctag = f"centre:{ck}", f"radius:{rk}"
        elif k == "sp":
            bad = rng.random() < 0.1
            how = rng.choice(["fresh", "shift", "permute", "far"])
            old = np.asarray(g.points)
            oldf = np.asarray(old, dtype=float)
            if how == "fresh" or n == 0:
                new = _coords(rng, old.shape, rng.random() < 0.4)
            elif how == "shift":
                new = oldf + rng.choice([0.5, -1.25, 3.0])
            elif how == "permute":
                new = oldf[::-1].copy()
            else:
                new = oldf * 1.0 + 1e3
            if bad:
                what = rng.choice(["rows", "cols", "ndim"])
                if what == "rows":
                    new = _coords(rng, (n + 1,) + old.shape[1:], False)
                elif what == "cols" and not oned:
                    new = _coords(rng, (n, dim + 1), False)
                else:
                    new = _coords(rng, (n,) if not oned else (n, 1), False)
            dk = []
            new = _dress(rng, new, dk)
            newf = np.asarray(new, dtype=float)
            ncol = 1 if new.ndim == 1 else new.shape[1]
            self.tokens.append(f"sp {int(new.ndim == 1)} " + (fmat(newf.reshape(len(new), ncol)) if len(new) else f"0 {ncol}"))
            # a third of the valid reassignments update the grid's own array in place and then assign
            # that very object again (p = g.points; p[...] = new; g.points = p): still a reassignment
            same_obj = ((not bad) and n > 0 and new.shape == old.shape and rng.random() < 0.35 and self.kind != "atom"
                        and old.dtype == np.float64 and old.flags.writeable)
            if same_obj:
                self.text.append(f"p = g.points; p[...] = {_descr(newf)}; g.points = p")
            else:
                self.text.append(f"g.points = {_descr(new)}")
            self.tags.append("setpoints:" + ("bad" if bad else how) + (":same-object" if same_obj else ":" + dk[0]))
            self._mut_since = True

            def run(g, new=new, newf=newf, same_obj=same_obj):
                if same_obj:
                    cur = g.points
                    cur[...] = newf
                    g.points = cur
                else:
                    g.points = _clone(new)   # (a new object per run: the grid keeps it and a later same-object op edits it)
                return "D"
        elif k == "sw":
            bad = rng.random() < 0.1
            dk = []
            new = _dress(rng, _weights(rng, n + (1 if bad else 0)), dk)
            newf = np.asarray(new, dtype=float)
            oldw = g._weights
            same_obj = (not bad) and n > 0 and rng.random() < 0.3 and oldw.dtype == np.float64 and oldw.flags.writeable
            self.tokens.append("sw " + fvec(newf))
            if same_obj:
                self.text.append(f"w = g.weights; w[...] = {_descr(newf)}; g.weights = w")
            else:
                self.text.append(f"g.weights = {_descr(new)}")
            self.tags.append("setweights:" + ("bad" if bad else "ok") + (":same-object" if same_obj else ":" + dk[0]))
            self._mut_since = True

            def run(g, new=new, newf=newf, same_obj=same_obj):
                if same_obj:
                    cur = g.weights
                    cur[...] = newf
                    g.weights = cur
                else:
                    g.weights = _clone(new)
                return "D"
        else:
            for _try in range(20):
                ik, idx, tok = _index(rng, n)
                try:
                    if _py_select(n, idx):
                        break
                except (IndexError, ValueError):
                    break  # a rejected index: the error class is compared
            else:
                ik, idx, tok = "int", n + 1, f"gi i {n + 1}"
            self.tokens.append(tok)
            self.text.append(f"g[{_descr(idx)}]")
            self.tags.append("getitem:" + ik)
            kind = self.kind

            def run(g, idx=idx):
                sub = g[idx]
                if type(sub) is not type(g):
                    return "wrong-type:" + type(sub).__name__
                dom = "0"
                if kind == "oned" and sub.domain is not None:
                    dom = f"1 {f2b(sub.domain[0])} {f2b(sub.domain[1])}"
                return f"G {MODEL_CLS[kind]} {_mat(sub.points)} {fvec(sub.weights)} {dom}"
        self.ops.append(run)
        self.impl.append(_observe(run, g))


def _observe(run, g):
    try:
        return run(g)
    except Exception as e:  # noqa: BLE001 - the exception class is the observation
        return "E " + _errtag(e)


def run_parts(ctx, stage, parts):
    """Run the independent parts of `corr` / `oracle` one after the other; an exception inside one part does not
    hide what the others find.  An exception that comes out of the library itself (innermost frame inside the `grid`
    package: the harness observes every library call it expects to fail, so this one was not expected) is recorded
    as a failure of that part with the traceback; the first other exception (harness, driver, translator) is kept
    and re-raised after all parts have run (the runner reports it as a broken tie)."""
    import traceback
    first = None
    for name, fn in parts:
        try:
            fn()
        except Exception as e:  # noqa: BLE001
            tb = traceback.extract_tb(e.__traceback__)
            inner = tb[-1].filename.replace("\\", "/") if tb else ""
            if "/grid/" in inner and "/harness/" not in inner:
                ctx.fail(stage, f"{name}:raises",
                         f"part `{name}` of the {stage}: the library raised {type(e).__name__}: {str(e)[:160]} "
                         f"({inner.split('/')[-1]}:{tb[-1].lineno} in {tb[-1].name}) where the harness expected an answer",
                         witness=traceback.format_exc()[-2500:])
            elif first is None:
                first = e
            else:
                ctx.info(f"part `{name}` of the {stage} also raised {type(e).__name__}: {str(e)[:160]}")
    if first is not None:
        raise first


def corr(ctx: Ctx):
    M = _mods()
    from . import c10_ext, c10_r4, c10_r5
    run_parts(ctx, "corr", [("histories", lambda: _corr_histories(ctx, M))] + c10_ext.corr_parts(ctx, M) + c10_r4.corr_parts(ctx, M)
              + c10_r5.corr_parts(ctx, M))


def _corr_histories(ctx, M):
    rng = ctx.rng
    nh = ctx.n(9000, 45000)
    hs, lines = [], []
    for i in range(nh):
        kind = KINDS[i % len(KINDS)] if i < 4 * len(KINDS) else rng.choice(KINDS)
        st0 = rng.getstate()
        g = build(kind, rng, M)
        head = header(kind, g)
        h = History(kind, g, rng, M)
        h.ctor = getattr(g, "_gv_ctor", None)
        for _ in range(rng.choice([1, 2, 3, 3, 4, 5, 6, 8])):
            h.op()
            for tg in getattr(h, "ctag", ()):
                ctx.tagc(tg)
            h.ctag = ()
        # a quarter of the objects are built a second time from the same arguments and the same
        # history is replayed on the second build (state carried between builds / calls)
        h.second = None
        if i % 4 == 0:
            st1 = rng.getstate()
            rng.setstate(st0)
            g2 = build(kind, rng, M)
            rng.setstate(st1)
            if header(kind, g2) == head:
                h.second = [_observe(run, g2) for run in h.ops]
            else:
                ctx.fail("corr", f"hist:{kind}:rebuild", f"{PATH[kind]}: a second build from the same arguments is another grid",
                         witness={"class": PATH[kind], "constructor": h.ctor})
        hs.append(h)
        lines.append(f"{head} {len(h.tokens)} " + " ".join(h.tokens))
    _compare(ctx, hs, lines, driver_batch(lines))


def _compare(ctx, hs, lines, answers):
    """Implementation answers of the histories `hs` against the driver's answers to `lines`."""
    for h, line, ans in zip(hs, lines, answers):
        ctx.traces += 1
        outs = [o.strip() for o in ans[3:].split("|")] if ans.startswith("ok ") else None
        if outs is None or len(outs) != len(h.impl):
            ctx.count(line, nontrivial=False, tag="hist:" + h.kind, n=len(h.impl))
            ctx.fail("corr", f"hist:{h.kind}:header", f"driver answered {ans[:80]!r} for a {h.kind} history of {len(h.impl)} ops",
                     witness={"class": PATH[h.kind], "constructor": h.ctor, "history": h.text})
            continue
        ctx.count(line, nontrivial=h.mutated_between, tag="hist:" + h.kind, n=len(outs))
        runs = [("", h.impl)] + ([(" (second build of the same object)", h.second)] if h.second is not None else [])
        if h.second is not None:
            ctx.traces += 1
            ctx.tagc("second-build", len(outs))
        for label, impl in runs:
            stop = False
            for j, (a, b) in enumerate(zip(impl, outs)):
                if not label:
                    ctx.tagc(h.tags[j] + (":error" if a.startswith("E ") else ""))
                if a != b:
                    ctx.fail("corr", f"hist:{h.kind}:{h.tags[j].split(':')[0]}",
                             f"{PATH[h.kind]}{label}: op {j} `{h.text[j][:120]}` of the history: implementation {a[:100]!r}, model {b[:100]!r}",
                             witness={"class": PATH[h.kind], "kind": h.kind, "constructor": h.ctor, "history": h.text[: j + 1],
                                      "implementation": a, "model": b})
                    stop = True
                    break
            if stop:
                break


# ----------------------------------------------------------------------------
# oracle: the property on the implementation, brute force
# ----------------------------------------------------------------------------
SNIP_HEAD = """import warnings; warnings.filterwarnings('ignore')
import numpy as np
from grid.basegrid import Grid, OneDGrid, LocalGrid
from grid.periodicgrid import PeriodicGrid
from grid.atomgrid import AtomGrid
from grid.molgrid import MolGrid
from grid.becke import BeckeWeights
from grid.cubic import UniformGrid, Tensor1DGrids
from grid.angular import AngularGrid
"""


def _atom_text(a):
    return (f"AtomGrid(OneDGrid({_descr(np.asarray(a.rgrid.points))}, {_descr(np.asarray(a.rgrid.weights))}, (0, np.inf)), "
            f"degrees={list(map(int, a.degrees))!r}, center={_descr(np.asarray(a.center))}, rotate={int(a.rotate)})")


def _ctor_text(kind, g):
    """Python expression rebuilding the object."""
    if kind in ("grid", "grid1"):
        return f"Grid({_descr(np.asarray(g.points))}, {_descr(np.asarray(g.weights))})"
    if kind == "oned":
        dom = "None" if g.domain is None else f"({_descr(float(g.domain[0]))}, {_descr(float(g.domain[1]))})"
        return f"OneDGrid({_descr(np.asarray(g.points))}, {_descr(np.asarray(g.weights))}, {dom})"
    if kind == "atom":
        return _atom_text(g)
    if kind == "mol":
        return f"MolGrid({_descr(np.asarray(g.atnums))}, [{', '.join(_atom_text(a) for a in g._atgrids)}], BeckeWeights(), store=True)"
    if kind == "uniform":
        return f"UniformGrid({_descr(g.origin)}, {_descr(g.axes)}, {_descr(np.asarray(g.shape))}, weight={g._gv_weight!r})"
    if kind == "tensor":
        return "Tensor1DGrids(" + ", ".join(f"OneDGrid({_descr(np.asarray(o.points))}, {_descr(np.asarray(o.weights))})" for o in g._gv_oned) + ")"
    if kind == "loc":
        return f"LocalGrid({_descr(np.asarray(g.points))}, {_descr(np.asarray(g.weights))}, {_descr(np.asarray(g.center))}, {_descr(np.asarray(g.indices))})"
    if kind == "angular":
        return f"AngularGrid(degree={int(g.degree)})"
    if kind == "periodic":
        return f"PeriodicGrid({_descr(np.asarray(g.points))}, {_descr(np.asarray(g.weights))}, {_descr(np.asarray(g.realvecs))})"
    raise KeyError(kind)


def _brute_ball(pts, c, r):
    rows = [list(np.atleast_1d(p)) for p in pts]
    cc = list(np.atleast_1d(np.asarray(c, dtype=float)))
    if math.isinf(r):
        return list(range(len(rows)))
    # exact rational arithmetic on the stored doubles (no overflow for far centres / huge radii, no rounding)
    from fractions import Fraction
    r2 = Fraction(float(r)) ** 2
    cq = [Fraction(float(b)) for b in cc]
    return [i for i, p in enumerate(rows) if sum((Fraction(float(a)) - b) ** 2 for a, b in zip(p, cq)) <= r2]


QUERY_SNIP = """c, r = {c}, {r}
pts, w = np.asarray(g.points), np.asarray(g.weights)
lg = g.get_localgrid(c, r)   # (an exception here is the failure)
d = np.sqrt(((pts.reshape(len(pts), -1) - np.atleast_1d(c)) ** 2).sum(axis=1))
want = [i for i in range(len(pts)) if r == np.inf or d[i] <= r]
assert isinstance(lg, LocalGrid)
assert sorted(map(int, lg.indices)) == want, f'indices {{sorted(map(int, lg.indices))}}, inside the sphere are {{want}}'
assert np.array_equal(lg.points, pts[lg.indices]) and np.array_equal(lg.weights, w[lg.indices]), 'points/weights are not the parent entries'
"""


def _check_query(ctx, kind, g, c, r, prev_pts, pre, path):
    """One get_localgrid observation against brute force.  `pre` = python lines that rebuild
    the object and replay the history so far."""
    pts, w = np.array(g.points, copy=True), np.array(g.weights, copy=True)
    want = _brute_ball(pts, c, r)
    snippet = SNIP_HEAD + "\n".join(pre) + "\n" + QUERY_SNIP.format(c=_descr(c), r=_descr(r))
    wit = {"class": path, "history": pre, "center": c, "radius": r, "expected_indices": want}
    try:
        lg = g.get_localgrid(c, r)
    except Exception as e:  # noqa: BLE001
        sub = "empty" if not want else ("inf" if math.isinf(r) else "raises")
        ctx.fail("oracle", f"{path}.get_localgrid:{sub}",
                 f"{path}.get_localgrid(center={_descr(c)}, radius={_descr(r)}) raised {type(e).__name__}: {str(e)[:80]}; "
                 f"{len(want)} point(s) lie inside the sphere", witness=dict(wit, raised=repr(e)), snippet=snippet)
        return None
    got = sorted(int(i) for i in lg.indices)
    ok_sel = got == want
    ok_val = (len(lg.indices) == len(lg.points) == len(lg.weights)
              and np.array_equal(np.asarray(lg.points), pts[np.asarray(lg.indices, dtype=int)])
              and np.array_equal(np.asarray(lg.weights), w[np.asarray(lg.indices, dtype=int)]))
    if ok_sel and ok_val and isinstance(lg, ctx._M["basegrid"].LocalGrid):
        return lg
    sub = "membership"
    if not ok_sel and prev_pts is not None and got == _brute_ball(prev_pts, c, r):
        sub = "stale-tree"
    elif ok_sel and not ok_val:
        sub = "values"
    ctx.fail("oracle", f"{path}.get_localgrid:{sub}",
             f"{path}.get_localgrid(center={_descr(c)}, radius={_descr(r)}) after {len(pre) - 1} earlier op(s): indices {got[:12]}, "
             f"points of the current grid inside the sphere: {want[:12]}"
             + ("; this is the answer for the points before the last reassignment" if sub == "stale-tree" else ""),
             witness=dict(wit, got_indices=got), snippet=snippet)
    return lg


def _py_select(n, idx):
    """Reference selection without NumPy indexing."""
    if isinstance(idx, tuple) and len(idx) == 1:
        idx = idx[0]
    if isinstance(idx, list):
        idx = np.array(idx, dtype=bool if (idx and isinstance(idx[0], bool)) else int)
    if isinstance(idx, (int, np.integer)) and not isinstance(idx, (bool, np.bool_)):
        return [list(range(n))[int(idx)]]
    if isinstance(idx, slice):
        if idx.step == 0:
            raise ValueError
        return list(range(n))[idx]
    if idx.dtype == bool:
        if len(idx) != n:
            raise IndexError
        return [i for i, b in enumerate(idx) if b]
    return [list(range(n))[int(i)] for i in idx]


def _check_getitem(ctx, kind, g, ik, idx, pre, path):
    pts, w = np.array(g.points, copy=True), np.array(g.weights, copy=True)
    try:
        sel = _py_select(len(w), idx)
    except (IndexError, ValueError):
        return
    snippet = (SNIP_HEAD + "\n".join(pre) + f"\nidx = {_descr(idx)}\npts, w = np.array(g.points), np.array(g.weights)\n"
               f"sub = g[idx]\nsel = {sel!r}\nassert type(sub) is type(g)\n"
               "assert np.array_equal(sub.points, pts[sel]) and np.array_equal(sub.weights, w[sel])\n"
               + ("assert sub.domain == g.domain\n" if kind == "oned" else "")
               + ("assert np.array_equal(sub.realvecs, g.realvecs)\n" if kind == "periodic" else ""))
    sub_key = ik
    if not sel:
        # scope decision (lead): the selection clause speaks of "the selected points"; an empty
        # selection is outside the property.  The behaviour is only recorded.
        try:
            seen = type(g[idx]).__name__ + " of size 0"
        except Exception as e:  # noqa: BLE001
            seen = type(e).__name__
        tag = f"empty selection (out of scope): {path}" + (" with a domain" if kind == "oned" and g.domain is not None else "") + f" -> {seen}"
        if not any(m.startswith(tag) for m in ctx.infos):
            ctx.info(tag + f"   e.g. grid[{_descr(idx)}]")
        return
    wit = {"class": path, "history": pre, "index": _descr(idx), "selected": sel}
    try:
        sub = g[idx]
    except Exception as e:  # noqa: BLE001
        ctx.fail("oracle", f"{path}.__getitem__:{sub_key}",
                 f"{path}: grid[{_descr(idx)}] raised {type(e).__name__}: {str(e)[:80]} (selects positions {sel[:10]})",
                 witness=dict(wit, raised=repr(e)), snippet=snippet)
        return
    ok = (type(sub) is type(g) and np.array_equal(np.asarray(sub.points), pts[sel] if sel else pts[:0])
          and np.array_equal(np.asarray(sub.weights), w[sel] if sel else w[:0]))
    if ok and kind == "oned":
        ok = sub.domain == g.domain
    if ok and kind == "periodic":
        ok = np.array_equal(sub.realvecs, g.realvecs)
    if not ok:
        ctx.fail("oracle", f"{path}.__getitem__:{sub_key}",
                 f"{path}: grid[{_descr(idx)}] is not the grid of the selected points/weights (positions {sel[:10]}) with the same type and domain/lattice",
                 witness=wit, snippet=snippet)


def oracle(ctx: Ctx, budget: str):
    M = _mods()
    ctx._M = M
    from . import c10_ext, c10_r4, c10_r5
    run_parts(ctx, "oracle", [("histories", lambda: _oracle_histories(ctx, M, budget))] + c10_ext.oracle_parts(ctx, M, budget)
              + c10_r4.oracle_parts(ctx, M, budget) + c10_r5.oracle_parts(ctx, M, budget))


def _oracle_histories(ctx, M, budget):
    rng = ctx.rng
    nh = (1500 if budget == "small" else 12000) * (4 if ctx.thorough else 1)
    kinds = KINDS + ["periodic"]
    from .c11 import brute_images, build_periodic  # periodic grids: image enumeration as reference
    for i in range(nh):
        kind = kinds[i % len(kinds)]
        if kind == "periodic":
            g = build_periodic(rng, M)
        else:
            g = build(kind, rng, M)
        path = PATH[kind]
        pre = ["g = " + (g._gv_ctor if hasattr(g, "_gv_ctor") else _ctor_text(kind, g))]
        prev_pts = None
        supports = kind in ("grid", "grid1", "oned", "periodic")
        for _ in range(rng.choice([2, 3, 4, 6])):
            pts = np.asarray(g.points)
            oned = pts.ndim == 1
            dim = 1 if oned else pts.shape[1]
            n = len(pts)
            k = rng.choice(["q", "q", "q", "sp", "sw", "gi"])
            if k == "gi" and not supports:
                k = "q"
            if k == "sp" and kind == "atom":
                k = "sw"
            if k == "q" and n == 0:
                # scope decision: a grid without any point is outside the property (finite radius:
                # ValueError from reshape(0, -1); infinite radius: the empty grid)
                msg = f"zero-point grid (out of scope): {path}.get_localgrid with a finite radius raises ValueError (reshape)"
                if msg not in ctx.infos:
                    ctx.info(msg)
                continue
            if k == "q":
                c, _ = _centre(rng, g, oned, dim)
                if kind == "periodic" and len(np.atleast_1d(g.realvecs).reshape(-1)) > 0:
                    _check_periodic_query(ctx, g, c, rng, pre, path, brute_images)
                    pre.append("# (query)")
                    continue
                _, r, dist = _radius(rng, pts, c, oned)
                if kind == "periodic" and math.isinf(r):
                    r = 1e6
                c, _ck = _centre_obj(rng, c, oned)
                r, _rk = _radius_obj(rng, r, dist)
                _check_query(ctx, kind, g, c, r, prev_pts, pre, path)
                pre.append(f"g.get_localgrid({_descr(c)}, {_descr(r)})")
            elif k == "sp":
                prev_pts = np.array(pts, copy=True)
                new = rng.choice([pts + rng.choice([0.5, -1.25, 3.0]), pts[::-1].copy(), _coords(rng, pts.shape, False)])
                if kind == "oned" and g.domain is not None:
                    # a OneDGrid whose points left its domain is not a valid OneDGrid (its own
                    # constructor rejects it): reassign inside the domain only
                    lo, hi = max(g.domain[0], -50.0), min(g.domain[1], 50.0)
                    new = rng.choice([pts[::-1].copy(), np.array([rng.uniform(lo, hi) for _ in range(n)])])
                if rng.random() < 0.4:
                    cand = _dress(rng, new)     # (rounding to float32 / integers must not leave the domain of a OneDGrid)
                    if not (kind == "oned" and g.domain is not None and n > 0
                            and (float(np.min(cand)) < g.domain[0] or float(np.max(cand)) > g.domain[1])):
                        new = cand
                if rng.random() < 0.35 and np.shape(new) == np.shape(pts) and n > 0 and pts.dtype == np.float64 \
                        and pts.flags.writeable and np.asarray(new).dtype == np.float64:
                    cur = g.points          # in-place update of the grid's own array, then the same
                    cur[...] = new          # object is assigned again
                    g.points = cur
                    pre.append(f"p = g.points; p[...] = {_descr(new)}; g.points = p")
                else:
                    g.points = new
                    pre.append(f"g.points = {_descr(new)}")
                if not np.array_equal(np.asarray(g.points), new):
                    ctx.fail("oracle", f"{path}.points:setter", f"{path}: points read back differ from the assigned array", witness={"history": pre})
            elif k == "sw":
                new = _dress(rng, _weights(rng, n)) if rng.random() < 0.4 else _weights(rng, n)
                g.weights = new
                pre.append(f"g.weights = {_descr(new)}")
            else:
                ik, idx, _ = _index(rng, n)
                _check_getitem(ctx, kind, g, ik, idx, pre, path)


def oracle_at(ctx: Ctx, failure):
    """A correspondence disagreement on a history -> the property itself evaluated on the
    implementation along that very history (every query against brute force, every selection
    against the reference selection)."""
    import ast
    w = failure.witness or {}
    if not (isinstance(w, dict) and w.get("constructor") and isinstance(w.get("history"), list) and w.get("kind") in PATH):
        return
    kind = w["kind"]
    path = PATH[kind]
    ctx._M = _mods()
    ns = {}
    exec(SNIP_HEAD, ns)
    try:
        g = eval(w["constructor"].split("  #")[0], ns)
    except Exception as e:  # noqa: BLE001
        ctx.info(f"oracle_at: cannot rebuild the object of the disagreement ({type(e).__name__})")
        return
    ns["g"] = g
    pre = ["g = " + w["constructor"]]
    prev_pts = None
    for line in w["history"]:
        try:
            body = ast.parse(line).body
        except SyntaxError:
            return
        # (one op of a scripted history may be several statements: the caller's edits of a local grid it was
        #  handed, then the next call)
        for st in body:
            text = ast.unparse(st)
            call = st.value if isinstance(st, (ast.Expr, ast.Assign)) else None
            if isinstance(call, ast.Call) and ast.unparse(call.func) == "g.get_localgrid" and len(call.args) == 2:
                c, r = (eval(ast.unparse(a), ns) for a in call.args)
                try:
                    ok_args = np.asarray(c).shape == np.asarray(g.points).shape[1:] and float(r) >= 0
                except Exception:  # noqa: BLE001
                    ok_args = False
                if ok_args and len(np.asarray(g.points)):
                    lg = _check_query(ctx, kind, g, c, r, prev_pts, pre, path)
                else:
                    lg = None
                    try:
                        lg = g.get_localgrid(c, r)
                    except Exception:  # noqa: BLE001
                        pass
                if isinstance(st, ast.Assign) and len(st.targets) == 1 and isinstance(st.targets[0], ast.Name):
                    ns[st.targets[0].id] = lg
            elif isinstance(st, ast.Expr) and isinstance(st.value, ast.Subscript) and ast.unparse(st.value.value) == "g":
                idx = eval(ast.unparse(st.value.slice), ns)
                if kind in ("grid", "grid1", "oned", "periodic"):
                    _check_getitem(ctx, kind, g, type(idx).__name__, idx, pre, path)
            else:
                if "g.points" in text:
                    prev_pts = np.array(g.points, copy=True)
                try:
                    exec(text, ns)
                except Exception:  # noqa: BLE001 - rejected reassignment
                    pass
            pre.append(text)


def _check_periodic_query(ctx, g, c, rng, pre, path, brute_images):
    """History clause for PeriodicGrid with lattice vectors: the query answers for the current
    points (reference: brute-force image enumeration of c11)."""
    pts = np.asarray(g.points)
    rv = np.asarray(g.realvecs)
    a = rv.reshape(len(np.atleast_1d(rv)) if rv.ndim > 1 else 1, -1)
    scale = float(np.linalg.norm(a, axis=1).min())
    r = rng.choice([0.0, 0.05, 0.3, 0.8, 1.7]) * scale
    margin = 1.0
    if rv.dtype != np.float64:
        # (float32 / integer lattice vectors: the class computes its reciprocal vectors and the intervals of the
        #  fractional coordinates in that precision — with wrap=True a query of radius ~1e-9 centred on a point then
        #  misses the point itself.  That is C11's subject (reported there); the history clause of C10 is evaluated
        #  with radii and margins above the float32 noise.)
        r = max(r, 1e-3 * scale)
        margin = 100.0
    want, r = brute_images(pts, a, c, r, rng, margin=margin)
    snippet = (SNIP_HEAD + "\n".join(pre) + f"\nc, r = {_descr(c)}, {_descr(r)}\nlg = g.get_localgrid(c, r)\n"
               f"want = {sorted(i for i, _ in want)!r}  # parent index of every periodic image inside the sphere (brute force)\n"
               "assert sorted(map(int, lg.indices)) == want, f'indices {sorted(map(int, lg.indices))}, images inside the sphere have parents {want}'\n")
    try:
        lg = g.get_localgrid(c, r)
    except Exception as e:  # noqa: BLE001
        ctx.fail("oracle", f"{path}.get_localgrid:raises", f"{path}.get_localgrid raised {type(e).__name__} after {len(pre) - 1} op(s)",
                 witness={"history": pre, "center": c, "radius": r, "raised": repr(e)}, snippet=snippet)
        return
    got = sorted(int(i) for i in lg.indices)
    if got != sorted(i for i, _ in want):
        stale = any(p.startswith("g.points =") for p in pre)
        ctx.fail("oracle", f"{path}.get_localgrid:" + ("stale-after-points-setter" if stale else "images"),
                 f"{path}.get_localgrid(center={_descr(c)}, radius={r}) after {len(pre) - 1} op(s): parent indices {got[:12]}, "
                 f"brute-force image enumeration of the current points gives {sorted(i for i, _ in want)[:12]}",
                 witness={"history": pre, "center": c, "radius": r, "got": got, "want": sorted(i for i, _ in want)}, snippet=snippet)

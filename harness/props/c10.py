"""C10 — local grids hold exactly the points inside the cutoff sphere, for any grid type."""
import importlib
import math

import numpy as np

from ..common import Ctx, driver_batch, f2b, fmat, fvec, vec

LEVEL = "proof"
LEVEL_TEXT = (
    "Lean theorems over every operation history of the state machine {points, weights, lazily built tree = snapshot "
    "of the points it was built from}: the invariant 'no tree, or the tree of the current points' holds initially and is "
    "kept by every operation (query, points/weights reassignment, selection), hence every query of every history returns "
    "exactly the positions of the current points within the radius (squared-distance comparison, equivalent to the "
    "Euclidean one for r >= 0), ascending and each once, with the current weights and points[k] = parent.points[indices[k]]; "
    "infinite radius = whole grid; empty sphere = empty grid; selection by int / NumPy int / slice (CPython slice "
    "semantics) / index array / mask returns the selected points and weights with the same class and domain. "
    "Tie to the code: hand model compared with the implementation on random operation histories for every grid class."
)
TECHNIQUE = "Lean 4 proof (state-machine invariant over all op histories) + differential op histories + brute-force oracle"
GEN = []
LEAN_MODULES = ["GridVerif.Props.C10"]
THEOREMS = [
    "GridVerif.C10.inv_init",
    "GridVerif.C10.inv_step",
    "GridVerif.C10.inv_history",
    "GridVerif.C10.ballQuery_spec",
    "GridVerif.C10.query_spec",
    "GridVerif.C10.localgrid_correct",
    "GridVerif.C10.query_inf_whole_grid",
    "GridVerif.C10.query_empty_sphere",
    "GridVerif.C10.query_rejects",
    "GridVerif.C10.inBall_iff_sqrt",
    "GridVerif.C10.stale_tree_would_fail",
    "GridVerif.C10.select_lt",
    "GridVerif.C10.getitem_spec",
    "GridVerif.C10.select_int",
    "GridVerif.C10.select_array",
    "GridVerif.C10.select_mask",
    "GridVerif.C10.select_slice",
    "GridVerif.C10.select_slice_default_step",
    "GridVerif.C10.getitem_unsupported",
    "GridVerif.C10.setters_spec",
]
RULE = (
    "one evaluation = one operation (get_localgrid / points= / weights= / __getitem__) of a random history run on the "
    "implementation object and on the Lean state machine (answers compared bit for bit after sorting the kd-tree's "
    "index set); classes Grid (1-D array and (N,1..3)), OneDGrid, AtomGrid, MolGrid, UniformGrid, Tensor1DGrids, "
    "LocalGrid; radii 0 / tiny / inside / huge / inf and rejected ones; centres on a point, near, far; all index kinds. "
    "non-trivial = a history with at least one reassignment of points or weights between two queries (hash of the whole "
    "history line)"
)
TRUSTED_BASE = [
    "Lean 4.33 kernel; axioms propext, Classical.choice, Quot.sound only (audited per theorem)",
    "hand model Model/LocalGrid.lean of get_localgrid / setters / __getitem__, tied by differential op histories",
    "contract of scipy cKDTree.query_ball_point (= exactly the positions with distance <= r); NumPy indexing semantics as modelled",
]
ASSUMPTIONS = [
    "reassignment = the points/weights setter with a new array; editing the stored array in place is outside (C19/C20)",
    "ties at distance == radius under rounding are outside the claim (generated radii keep a relative margin 1e-7 from every point distance, exact zero distance excepted)",
    "MolGrid.__getitem__ (atom selection) is another operation and is not part of the selection clause",
]

ERR = {ValueError: "value-error", TypeError: "type-error", IndexError: "index-error", AttributeError: "attribute-error"}
PATH = {
    "grid": "basegrid.Grid", "grid1": "basegrid.Grid", "oned": "basegrid.OneDGrid", "atom": "atomgrid.AtomGrid",
    "mol": "molgrid.MolGrid", "uniform": "cubic.UniformGrid", "tensor": "cubic.Tensor1DGrids", "loc": "basegrid.LocalGrid",
    "periodic": "periodicgrid.PeriodicGrid",
}
MODEL_CLS = {"grid": "grid", "grid1": "grid", "oned": "oned", "atom": "atom", "mol": "mol", "uniform": "rect",
             "tensor": "rect", "loc": "loc"}
KINDS = ["grid", "grid1", "oned", "atom", "mol", "uniform", "tensor", "loc"]


def _mods():
    m = {}
    for n in ("basegrid", "atomgrid", "molgrid", "cubic", "becke", "periodicgrid"):
        m[n] = importlib.import_module("grid." + n)
    return m


def _errtag(e):
    for k, v in ERR.items():
        if type(e) is k:
            return v
    return "other:" + type(e).__name__


def _coords(rng, shape, structured):
    if structured:
        return np.array([rng.randrange(-8, 9) / 4.0 for _ in range(int(np.prod(shape)))]).reshape(shape)
    return np.array([rng.uniform(-2, 2) for _ in range(int(np.prod(shape)))]).reshape(shape)


def _weights(rng, n):
    return np.array([rng.choice([1.0, 0.5, rng.uniform(-1, 3)]) for _ in range(n)])


def _size(rng):
    return rng.choice([0, 1, 1, 2, 2, 3, 3, 4, 5, 7, 12])


def build(kind, rng, M):
    """-> implementation object of the requested kind (small); `_gv_ctor` = python text rebuilding it."""
    g = _build(kind, rng, M)
    try:
        g._gv_ctor = _ctor_text(kind, g)
    except Exception:  # noqa: BLE001
        g._gv_ctor = f"Grid({_descr(np.asarray(g.points))}, {_descr(np.asarray(g.weights))})  # points/weights of the {kind} object"
    return g


def _build(kind, rng, M):
    bg = M["basegrid"]
    st = rng.random() < 0.4
    if kind == "grid":
        n, d = _size(rng), rng.choice([1, 2, 3])
        return bg.Grid(_coords(rng, (n, d), st), _weights(rng, n))
    if kind == "grid1":
        n = _size(rng)
        return bg.Grid(_coords(rng, (n,), st), _weights(rng, n))
    if kind == "oned":
        n = _size(rng)
        p = np.sort(_coords(rng, (n,), st))
        dom = None
        if rng.random() < 0.6:
            lo = (p.min() if n else 0.0) - rng.choice([0.0, 0.5, 5e-8])
            hi = (p.max() if n else 1.0) + rng.choice([0.0, 0.5, 5e-8])
            dom = (float(lo), float(hi)) if n or rng.random() < 0.5 else None
        if n == 0 and dom is not None:
            dom = None  # np.min of an empty array: such a OneDGrid cannot be constructed
        return bg.OneDGrid(p, _weights(rng, n), dom)
    if kind in ("atom", "mol"):
        def atom():
            nr = rng.choice([1, 1, 2])
            r = np.sort(np.array([rng.uniform(0.2, 2.0) for _ in range(nr)]))
            rg = bg.OneDGrid(r, np.ones(nr), (0, np.inf))
            degs = [rng.choice([3, 5])] if rng.random() < 0.6 else [rng.choice([3, 5]) for _ in range(nr)]
            c = None if rng.random() < 0.2 else _coords(rng, (3,), st)
            return M["atomgrid"].AtomGrid(rg, degrees=degs, center=c, rotate=rng.choice([0, 0, 7]))
        if kind == "atom":
            return atom()
        na = rng.choice([1, 2])
        ats = []
        while len(ats) < na:
            a = atom()
            if all(np.linalg.norm(a.center - b.center) > 0.3 for b in ats):
                ats.append(a)
        return M["molgrid"].MolGrid(np.array([rng.choice([1, 6, 8]) for _ in range(na)]), ats, M["becke"].BeckeWeights(), store=True)
    if kind == "uniform":
        d = rng.choice([2, 3])
        while True:
            ax = _coords(rng, (d, d), st) * 0.5
            if abs(np.linalg.det(ax)) > 1e-2:
                break
        shape = np.array([rng.choice([2, 2, 3]) for _ in range(d)])
        wt = rng.choice(["Trapezoid", "Rectangle"])
        g = M["cubic"].UniformGrid(_coords(rng, (d,), st), ax, shape, weight=wt)
        g._gv_weight = wt
        return g
    if kind == "tensor":
        d = rng.choice([2, 3])
        gs = []
        for _ in range(d):
            n = rng.choice([2, 2, 3])
            gs.append(bg.OneDGrid(np.sort(_coords(rng, (n,), False)), _weights(rng, n)))
        g = M["cubic"].Tensor1DGrids(*gs)
        g._gv_oned = gs
        return g
    if kind == "loc":
        n, d = rng.choice([1, 2, 3, 5]), rng.choice([1, 2, 3])
        return bg.LocalGrid(_coords(rng, (n, d), st), _weights(rng, n), np.zeros(d), np.arange(n))
    raise KeyError(kind)


def header(kind, g):
    """Driver line prefix describing the object as it is now."""
    pts = g._points
    oned = pts.ndim == 1
    dim = 1 if oned else pts.shape[1]
    rows = pts.reshape(len(pts), dim)
    cen = "1 " + fvec(g._center) if kind == "atom" else "0"
    dom = "0"
    if kind == "oned" and g.domain is not None:
        dom = f"1 {f2b(g.domain[0])} {f2b(g.domain[1])}"
    m = fmat(rows) if len(rows) else f"0 {dim}"
    return f"C10.hist {MODEL_CLS[kind]} {int(oned)} {dim} {m} {cen} {fvec(g._weights)} {dom}"


def _mat(a):
    a = np.asarray(a)
    if len(a) == 0:
        return "0 0"
    return fmat(a.reshape(len(a), -1))


def _radius(rng, pts, c, oned):
    """A radius class and value, keeping a relative margin from every point distance."""
    rows = pts.reshape(len(pts), -1).astype(float) if len(pts) else np.zeros((0, 1))
    cc = np.atleast_1d(np.asarray(c, dtype=float))
    d = np.sqrt(((rows - cc) ** 2).sum(axis=1)) if len(rows) else np.zeros(0)
    cls = rng.choice(["zero", "tiny", "inside", "inside", "inside", "huge", "inf", "empty"])
    if cls == "zero":
        r = 0.0
    elif cls == "tiny":
        r = rng.choice([1e-12, 1e-6, 1e-3])
    elif cls == "huge":
        r = rng.choice([1e6, 1e100, 1e300])
    elif cls == "inf":
        return cls, math.inf
    elif cls == "empty":
        pos = d[d > 0]
        r = 0.5 * float(pos.min()) if len(pos) else 0.25
    else:
        r = float(rng.choice(list(d))) * rng.choice([0.5, 1.0, 1.5]) + rng.choice([0.0, 0.1]) if len(d) else 1.0
    for _ in range(60):
        if all(abs(x - r) > 1e-7 * max(x, r) or (x == 0.0 and r == 0.0) for x in d):
            break
        r = r * (1 + 3e-6) + 1e-9
    return cls, float(r)


def _centre(rng, g, oned, dim):
    pts = np.asarray(g.points)
    how = rng.choice(["on", "on", "near", "near", "far", "origin"])
    if how == "on" and len(pts):
        c = np.array(pts[rng.randrange(len(pts))], dtype=float)
    elif how == "near" and len(pts):
        c = np.array(pts[rng.randrange(len(pts))], dtype=float) + np.array([rng.uniform(-0.3, 0.3) for _ in range(dim)]).reshape(np.shape(pts[0]))
    elif how == "far":
        c = np.full(() if oned else (dim,), rng.choice([1e3, -1e5]))
    else:
        c = np.zeros(() if oned else (dim,))
    if oned:
        c = float(c)
        return rng.choice([c, np.float64(c), np.array(c)]), how
    return c, how


def _index(rng, n):
    """-> (kind, python index object, driver tokens)"""
    k = rng.choice(["int", "npint", "slice", "slice", "array", "mask"])
    bad = rng.random() < 0.12
    if k in ("int", "npint"):
        i = rng.randrange(-n, n) if n and not bad else rng.choice([n, -n - 1, n + 3])
        if k == "int":
            return k, i, f"gi i {i}"
        ty = rng.choice([np.int64, np.int32, np.intp, np.int16, np.uint8]) if i >= 0 else rng.choice([np.int64, np.int32, np.int16])
        return k, ty(i), f"gi n {i}"
    if k == "slice":
        def part(zero_ok=True):
            if rng.random() < 0.35:
                return None
            return rng.randrange(-n - 2, n + 3)
        a, b = part(), part()
        c = rng.choice([None, None, 1, 2, 3, -1, -2]) if not bad else 0
        t = lambda v: "N" if v is None else str(v)
        return k, slice(a, b, c), f"gi s {t(a)} {t(b)} {t(c)}"
    if k == "array":
        m = rng.randrange(0, 6)
        arr = [rng.randrange(-n, n) for _ in range(m)] if n else []
        if bad:
            arr.insert(rng.randrange(len(arr) + 1), rng.choice([n, -n - 1]))
        return k, np.array(arr, dtype=rng.choice([np.int64, np.int32])), "gi a " + vec(arr)
    mlen = n if not bad else n + rng.choice([1, 2])
    if bad and n >= 2 and rng.random() < 0.5:
        mlen = n - 1   # (NumPy accepts a zero-length mask for any array: never generated)
    mk = [rng.random() < 0.5 for _ in range(mlen)]
    if rng.random() < 0.1:
        mk = [False] * mlen
    return k, np.array(mk, dtype=bool), "gi m " + vec([int(b) for b in mk])


def _canon_local(lg):
    idx = np.asarray(lg.indices)
    order = np.argsort(idx, kind="stable")
    p = np.asarray(lg.points)[order] if len(idx) else np.asarray(lg.points)
    w = np.asarray(lg.weights)[order] if len(idx) else np.asarray(lg.weights)
    return "L " + vec(int(i) for i in idx[order]) + " " + _mat(p) + " " + fvec(w)


def _descr(x):
    if isinstance(x, np.ndarray):
        return f"np.array({x.tolist()!r}, dtype=np.{x.dtype})"
    if isinstance(x, np.generic):
        return f"np.{type(x).__name__}({x.item()!r})"
    if isinstance(x, float) and math.isinf(x):
        return "np.inf" if x > 0 else "-np.inf"
    if isinstance(x, float) and math.isnan(x):
        return "np.nan"
    return repr(x)


class History:
    """Generates one op at a time against a live implementation object, recording the
    driver tokens, the implementation's canonical answers and a readable transcript."""

    def __init__(self, kind, g, rng, M):
        self.kind, self.g, self.rng, self.M = kind, g, rng, M
        self.tokens, self.impl, self.text, self.tags = [], [], [], []
        self.mutated_between = False
        self._seen_query = False
        self._mut_since = False

    def shape(self):
        pts = self.g._points
        oned = pts.ndim == 1
        return oned, (1 if oned else pts.shape[1]), len(pts)

    def op(self):
        """Generate one op (outside any try), then run it on the implementation."""
        rng, g = self.rng, self.g
        oned, dim, n = self.shape()
        k = rng.choice(["q", "q", "q", "sp", "sp", "sw", "gi"])
        if self.kind == "mol" and k == "gi":
            k = "q"
        if k == "q":
            c, how = _centre(rng, g, oned, dim)
            rc, r = _radius(rng, np.asarray(g.points), c, oned)
            if rng.random() < 0.08:
                what = rng.choice(["neg", "nan", "ninf", "shape"])
                if what == "shape":
                    c = np.zeros(dim + 1) if not oned else np.zeros(1)
                else:
                    r = {"neg": -abs(r) - 0.5 if math.isfinite(r) else -1.0, "nan": math.nan, "ninf": -math.inf}[what]
                rc = "bad-" + what
            cs = np.asarray(c)
            self.tokens.append(("q s " + f2b(float(cs)) if cs.ndim == 0 else "q v " + fvec(cs)) + " " + f2b(r))
            self.text.append(f"g.get_localgrid({_descr(c)}, {_descr(r)})")
            self.tags.append(f"query:{rc}")
            if self._seen_query and self._mut_since:
                self.mutated_between = True
            self._seen_query, self._mut_since = True, False

            def run():
                lg = g.get_localgrid(c, r)
                if type(lg) is not self.M["basegrid"].LocalGrid:
                    return "wrong-type:" + type(lg).__name__
                if not np.array_equal(np.asarray(lg.center), cs):
                    return "wrong-center"
                return _canon_local(lg)
        elif k == "sp":
            bad = rng.random() < 0.1
            how = rng.choice(["fresh", "shift", "permute", "far"])
            old = np.asarray(g.points)
            if how == "fresh" or n == 0:
                new = _coords(rng, old.shape, rng.random() < 0.4)
            elif how == "shift":
                new = old + rng.choice([0.5, -1.25, 3.0])
            elif how == "permute":
                new = old[::-1].copy()
            else:
                new = old * 1.0 + 1e3
            if bad:
                what = rng.choice(["rows", "cols", "ndim"])
                if what == "rows":
                    new = _coords(rng, (n + 1,) + old.shape[1:], False)
                elif what == "cols" and not oned:
                    new = _coords(rng, (n, dim + 1), False)
                else:
                    new = _coords(rng, (n,) if not oned else (n, 1), False)
            ncol = 1 if new.ndim == 1 else new.shape[1]
            self.tokens.append(f"sp {int(new.ndim == 1)} " + (fmat(new.reshape(len(new), ncol)) if len(new) else f"0 {ncol}"))
            # a third of the valid reassignments update the grid's own array in place and then assign
            # that very object again (p = g.points; p[...] = new; g.points = p): still a reassignment
            same_obj = (not bad) and n > 0 and new.shape == old.shape and rng.random() < 0.35
            if same_obj:
                self.text.append(f"p = g.points; p[...] = {_descr(new)}; g.points = p")
            else:
                self.text.append(f"g.points = {_descr(new)}")
            self.tags.append("setpoints:" + ("bad" if bad else how) + (":same-object" if same_obj else ""))
            self._mut_since = True

            def run():
                if same_obj:
                    cur = g.points
                    cur[...] = new
                    g.points = cur
                else:
                    g.points = new
                return "D"
        elif k == "sw":
            bad = rng.random() < 0.1
            new = _weights(rng, n + (1 if bad else 0))
            self.tokens.append("sw " + fvec(new))
            self.text.append(f"g.weights = {_descr(new)}")
            self.tags.append("setweights:" + ("bad" if bad else "ok"))
            self._mut_since = True

            def run():
                g.weights = new
                return "D"
        else:
            for _try in range(20):
                ik, idx, tok = _index(rng, n)
                try:
                    if _py_select(n, idx):
                        break
                except (IndexError, ValueError):
                    break  # a rejected index: the error class is compared
            else:
                ik, idx, tok = "int", n + 1, f"gi i {n + 1}"
            self.tokens.append(tok)
            self.text.append(f"g[{_descr(idx)}]")
            self.tags.append("getitem:" + ik)

            def run():
                sub = g[idx]
                if type(sub) is not type(g):
                    return "wrong-type:" + type(sub).__name__
                dom = "0"
                if self.kind == "oned" and sub.domain is not None:
                    dom = f"1 {f2b(sub.domain[0])} {f2b(sub.domain[1])}"
                return f"G {MODEL_CLS[self.kind]} {_mat(sub.points)} {fvec(sub.weights)} {dom}"
        try:
            self.impl.append(run())
        except Exception as e:  # noqa: BLE001 - the exception class is the observation
            self.impl.append("E " + _errtag(e))


def corr(ctx: Ctx):
    M = _mods()
    rng = ctx.rng
    nh = ctx.n(12000, 60000)
    hs, lines = [], []
    for i in range(nh):
        kind = KINDS[i % len(KINDS)] if i < 4 * len(KINDS) else rng.choice(KINDS)
        g = build(kind, rng, M)
        head = header(kind, g)
        h = History(kind, g, rng, M)
        for _ in range(rng.choice([1, 2, 3, 3, 4, 5, 6, 8])):
            h.op()
        hs.append(h)
        lines.append(f"{head} {len(h.tokens)} " + " ".join(h.tokens))
    answers = driver_batch(lines)
    for h, line, ans in zip(hs, lines, answers):
        ctx.traces += 1
        outs = [o.strip() for o in ans[3:].split("|")] if ans.startswith("ok ") else None
        if outs is None or len(outs) != len(h.impl):
            ctx.count(line, nontrivial=False, tag="hist:" + h.kind, n=len(h.impl))
            ctx.fail("corr", f"hist:{h.kind}:header", f"driver answered {ans[:80]!r} for a {h.kind} history of {len(h.impl)} ops",
                     witness={"class": PATH[h.kind], "history": h.text})
            continue
        ctx.count(line, nontrivial=h.mutated_between, tag="hist:" + h.kind, n=len(outs))
        for j, (a, b) in enumerate(zip(h.impl, outs)):
            ctx.tagc(h.tags[j] + (":error" if a.startswith("E ") else ""))
            if a != b:
                ctx.fail("corr", f"hist:{h.kind}:{h.tags[j].split(':')[0]}",
                         f"{PATH[h.kind]}: op {j} `{h.text[j][:120]}` of the history: implementation {a[:100]!r}, model {b[:100]!r}",
                         witness={"class": PATH[h.kind], "history": h.text[: j + 1], "implementation": a, "model": b})
                break


# ----------------------------------------------------------------------------
# oracle: the property on the implementation, brute force
# ----------------------------------------------------------------------------
SNIP_HEAD = """import warnings; warnings.filterwarnings('ignore')
import numpy as np
from grid.basegrid import Grid, OneDGrid, LocalGrid
from grid.periodicgrid import PeriodicGrid
from grid.atomgrid import AtomGrid
from grid.molgrid import MolGrid
from grid.becke import BeckeWeights
from grid.cubic import UniformGrid, Tensor1DGrids
"""


def _atom_text(a):
    return (f"AtomGrid(OneDGrid({_descr(np.asarray(a.rgrid.points))}, {_descr(np.asarray(a.rgrid.weights))}, (0, np.inf)), "
            f"degrees={list(map(int, a.degrees))!r}, center={_descr(np.asarray(a.center))}, rotate={int(a.rotate)})")


def _ctor_text(kind, g):
    """Python expression rebuilding the object."""
    if kind in ("grid", "grid1"):
        return f"Grid({_descr(np.asarray(g.points))}, {_descr(np.asarray(g.weights))})"
    if kind == "oned":
        dom = "None" if g.domain is None else f"({_descr(float(g.domain[0]))}, {_descr(float(g.domain[1]))})"
        return f"OneDGrid({_descr(np.asarray(g.points))}, {_descr(np.asarray(g.weights))}, {dom})"
    if kind == "atom":
        return _atom_text(g)
    if kind == "mol":
        return f"MolGrid({_descr(np.asarray(g.atnums))}, [{', '.join(_atom_text(a) for a in g._atgrids)}], BeckeWeights(), store=True)"
    if kind == "uniform":
        return f"UniformGrid({_descr(g.origin)}, {_descr(g.axes)}, {_descr(np.asarray(g.shape))}, weight={g._gv_weight!r})"
    if kind == "tensor":
        return "Tensor1DGrids(" + ", ".join(f"OneDGrid({_descr(np.asarray(o.points))}, {_descr(np.asarray(o.weights))})" for o in g._gv_oned) + ")"
    if kind == "loc":
        return f"LocalGrid({_descr(np.asarray(g.points))}, {_descr(np.asarray(g.weights))}, {_descr(np.asarray(g.center))}, {_descr(np.asarray(g.indices))})"
    if kind == "periodic":
        return f"PeriodicGrid({_descr(np.asarray(g.points))}, {_descr(np.asarray(g.weights))}, {_descr(np.asarray(g.realvecs))})"
    raise KeyError(kind)


def _brute_ball(pts, c, r):
    rows = [list(np.atleast_1d(p)) for p in pts]
    cc = list(np.atleast_1d(np.asarray(c, dtype=float)))
    if math.isinf(r):
        return list(range(len(rows)))
    return [i for i, p in enumerate(rows) if math.sqrt(math.fsum((float(a) - float(b)) ** 2 for a, b in zip(p, cc))) <= r]


QUERY_SNIP = """c, r = {c}, {r}
pts, w = np.asarray(g.points), np.asarray(g.weights)
lg = g.get_localgrid(c, r)   # (an exception here is the failure)
d = np.sqrt(((pts.reshape(len(pts), -1) - np.atleast_1d(c)) ** 2).sum(axis=1))
want = [i for i in range(len(pts)) if r == np.inf or d[i] <= r]
assert isinstance(lg, LocalGrid)
assert sorted(map(int, lg.indices)) == want, f'indices {{sorted(map(int, lg.indices))}}, inside the sphere are {{want}}'
assert np.array_equal(lg.points, pts[lg.indices]) and np.array_equal(lg.weights, w[lg.indices]), 'points/weights are not the parent entries'
"""


def _check_query(ctx, kind, g, c, r, prev_pts, pre, path):
    """One get_localgrid observation against brute force.  `pre` = python lines that rebuild
    the object and replay the history so far."""
    pts, w = np.array(g.points, copy=True), np.array(g.weights, copy=True)
    want = _brute_ball(pts, c, r)
    snippet = SNIP_HEAD + "\n".join(pre) + "\n" + QUERY_SNIP.format(c=_descr(c), r=_descr(r))
    wit = {"class": path, "history": pre, "center": c, "radius": r, "expected_indices": want}
    try:
        lg = g.get_localgrid(c, r)
    except Exception as e:  # noqa: BLE001
        sub = "empty" if not want else ("inf" if math.isinf(r) else "raises")
        ctx.fail("oracle", f"{path}.get_localgrid:{sub}",
                 f"{path}.get_localgrid(center={_descr(c)}, radius={_descr(r)}) raised {type(e).__name__}: {str(e)[:80]}; "
                 f"{len(want)} point(s) lie inside the sphere", witness=dict(wit, raised=repr(e)), snippet=snippet)
        return None
    got = sorted(int(i) for i in lg.indices)
    ok_sel = got == want
    ok_val = (len(lg.indices) == len(lg.points) == len(lg.weights)
              and np.array_equal(np.asarray(lg.points), pts[np.asarray(lg.indices, dtype=int)])
              and np.array_equal(np.asarray(lg.weights), w[np.asarray(lg.indices, dtype=int)]))
    if ok_sel and ok_val and isinstance(lg, ctx._M["basegrid"].LocalGrid):
        return lg
    sub = "membership"
    if not ok_sel and prev_pts is not None and got == _brute_ball(prev_pts, c, r):
        sub = "stale-tree"
    elif ok_sel and not ok_val:
        sub = "values"
    ctx.fail("oracle", f"{path}.get_localgrid:{sub}",
             f"{path}.get_localgrid(center={_descr(c)}, radius={_descr(r)}) after {len(pre) - 1} earlier op(s): indices {got[:12]}, "
             f"points of the current grid inside the sphere: {want[:12]}"
             + ("; this is the answer for the points before the last reassignment" if sub == "stale-tree" else ""),
             witness=dict(wit, got_indices=got), snippet=snippet)
    return lg


def _py_select(n, idx):
    """Reference selection without NumPy indexing."""
    if isinstance(idx, (int, np.integer)) and not isinstance(idx, (bool, np.bool_)):
        return [list(range(n))[int(idx)]]
    if isinstance(idx, slice):
        if idx.step == 0:
            raise ValueError
        return list(range(n))[idx]
    if idx.dtype == bool:
        if len(idx) != n:
            raise IndexError
        return [i for i, b in enumerate(idx) if b]
    return [list(range(n))[int(i)] for i in idx]


def _check_getitem(ctx, kind, g, ik, idx, pre, path):
    pts, w = np.array(g.points, copy=True), np.array(g.weights, copy=True)
    try:
        sel = _py_select(len(w), idx)
    except (IndexError, ValueError):
        return
    snippet = (SNIP_HEAD + "\n".join(pre) + f"\nidx = {_descr(idx)}\npts, w = np.array(g.points), np.array(g.weights)\n"
               f"sub = g[idx]\nsel = {sel!r}\nassert type(sub) is type(g)\n"
               "assert np.array_equal(sub.points, pts[sel]) and np.array_equal(sub.weights, w[sel])\n"
               + ("assert sub.domain == g.domain\n" if kind == "oned" else "")
               + ("assert np.array_equal(sub.realvecs, g.realvecs)\n" if kind == "periodic" else ""))
    sub_key = ik
    if not sel:
        # scope decision (lead): the selection clause speaks of "the selected points"; an empty
        # selection is outside the property.  The behaviour is only recorded.
        try:
            seen = type(g[idx]).__name__ + " of size 0"
        except Exception as e:  # noqa: BLE001
            seen = type(e).__name__
        tag = f"empty selection (out of scope): {path}" + (" with a domain" if kind == "oned" and g.domain is not None else "") + f" -> {seen}"
        if not any(m.startswith(tag) for m in ctx.infos):
            ctx.info(tag + f"   e.g. grid[{_descr(idx)}]")
        return
    wit = {"class": path, "history": pre, "index": _descr(idx), "selected": sel}
    try:
        sub = g[idx]
    except Exception as e:  # noqa: BLE001
        ctx.fail("oracle", f"{path}.__getitem__:{sub_key}",
                 f"{path}: grid[{_descr(idx)}] raised {type(e).__name__}: {str(e)[:80]} (selects positions {sel[:10]})",
                 witness=dict(wit, raised=repr(e)), snippet=snippet)
        return
    ok = (type(sub) is type(g) and np.array_equal(np.asarray(sub.points), pts[sel] if sel else pts[:0])
          and np.array_equal(np.asarray(sub.weights), w[sel] if sel else w[:0]))
    if ok and kind == "oned":
        ok = sub.domain == g.domain
    if ok and kind == "periodic":
        ok = np.array_equal(sub.realvecs, g.realvecs)
    if not ok:
        ctx.fail("oracle", f"{path}.__getitem__:{sub_key}",
                 f"{path}: grid[{_descr(idx)}] is not the grid of the selected points/weights (positions {sel[:10]}) with the same type and domain/lattice",
                 witness=wit, snippet=snippet)


def oracle(ctx: Ctx, budget: str):
    M = _mods()
    ctx._M = M
    rng = ctx.rng
    nh = (1500 if budget == "small" else 12000) * (4 if ctx.thorough else 1)
    kinds = KINDS + ["periodic"]
    from .c11 import brute_images, build_periodic  # periodic grids: image enumeration as reference
    for i in range(nh):
        kind = kinds[i % len(kinds)]
        if kind == "periodic":
            g = build_periodic(rng, M)
        else:
            g = build(kind, rng, M)
        path = PATH[kind]
        pre = ["g = " + (g._gv_ctor if hasattr(g, "_gv_ctor") else _ctor_text(kind, g))]
        prev_pts = None
        supports = kind in ("grid", "grid1", "oned", "periodic")
        for _ in range(rng.choice([2, 3, 4, 6])):
            pts = np.asarray(g.points)
            oned = pts.ndim == 1
            dim = 1 if oned else pts.shape[1]
            n = len(pts)
            k = rng.choice(["q", "q", "q", "sp", "sw", "gi"])
            if k == "gi" and not supports:
                k = "q"
            if k == "sp" and kind == "atom":
                k = "sw"
            if k == "q" and n == 0:
                # scope decision: a grid without any point is outside the property (finite radius:
                # ValueError from reshape(0, -1); infinite radius: the empty grid)
                msg = f"zero-point grid (out of scope): {path}.get_localgrid with a finite radius raises ValueError (reshape)"
                if msg not in ctx.infos:
                    ctx.info(msg)
                continue
            if k == "q":
                c, _ = _centre(rng, g, oned, dim)
                if kind == "periodic" and len(np.atleast_1d(g.realvecs).reshape(-1)) > 0:
                    _check_periodic_query(ctx, g, c, rng, pre, path, brute_images)
                    pre.append("# (query)")
                    continue
                _, r = _radius(rng, pts, c, oned)
                if kind == "periodic" and math.isinf(r):
                    r = 1e6
                _check_query(ctx, kind, g, c, r, prev_pts, pre, path)
                pre.append(f"g.get_localgrid({_descr(c)}, {_descr(r)})")
            elif k == "sp":
                prev_pts = np.array(pts, copy=True)
                new = rng.choice([pts + rng.choice([0.5, -1.25, 3.0]), pts[::-1].copy(), _coords(rng, pts.shape, False)])
                if kind == "oned" and g.domain is not None:
                    # a OneDGrid whose points left its domain is not a valid OneDGrid (its own
                    # constructor rejects it): reassign inside the domain only
                    lo, hi = max(g.domain[0], -50.0), min(g.domain[1], 50.0)
                    new = rng.choice([pts[::-1].copy(), np.array([rng.uniform(lo, hi) for _ in range(n)])])
                if rng.random() < 0.35 and np.shape(new) == np.shape(pts) and n > 0:
                    cur = g.points          # in-place update of the grid's own array, then the same
                    cur[...] = new          # object is assigned again
                    g.points = cur
                    pre.append(f"p = g.points; p[...] = {_descr(new)}; g.points = p")
                else:
                    g.points = new
                    pre.append(f"g.points = {_descr(new)}")
                if not np.array_equal(np.asarray(g.points), new):
                    ctx.fail("oracle", f"{path}.points:setter", f"{path}: points read back differ from the assigned array", witness={"history": pre})
            elif k == "sw":
                new = _weights(rng, n)
                g.weights = new
                pre.append(f"g.weights = {_descr(new)}")
            else:
                ik, idx, _ = _index(rng, n)
                _check_getitem(ctx, kind, g, ik, idx, pre, path)


def _check_periodic_query(ctx, g, c, rng, pre, path, brute_images):
    """History clause for PeriodicGrid with lattice vectors: the query answers for the current
    points (reference: brute-force image enumeration of c11)."""
    pts = np.asarray(g.points)
    rv = np.asarray(g.realvecs)
    a = rv.reshape(len(np.atleast_1d(rv)) if rv.ndim > 1 else 1, -1)
    scale = float(np.linalg.norm(a, axis=1).min())
    r = rng.choice([0.0, 0.05, 0.3, 0.8, 1.7]) * scale
    want, r = brute_images(pts, a, c, r, rng)
    snippet = (SNIP_HEAD + "\n".join(pre) + f"\nc, r = {_descr(c)}, {_descr(r)}\nlg = g.get_localgrid(c, r)\n"
               f"want = {sorted(i for i, _ in want)!r}  # parent index of every periodic image inside the sphere (brute force)\n"
               "assert sorted(map(int, lg.indices)) == want, f'indices {sorted(map(int, lg.indices))}, images inside the sphere have parents {want}'\n")
    try:
        lg = g.get_localgrid(c, r)
    except Exception as e:  # noqa: BLE001
        ctx.fail("oracle", f"{path}.get_localgrid:raises", f"{path}.get_localgrid raised {type(e).__name__} after {len(pre) - 1} op(s)",
                 witness={"history": pre, "center": c, "radius": r, "raised": repr(e)}, snippet=snippet)
        return
    got = sorted(int(i) for i in lg.indices)
    if got != sorted(i for i, _ in want):
        stale = any(p.startswith("g.points =") for p in pre)
        ctx.fail("oracle", f"{path}.get_localgrid:" + ("stale-after-points-setter" if stale else "images"),
                 f"{path}.get_localgrid(center={_descr(c)}, radius={r}) after {len(pre) - 1} op(s): parent indices {got[:12]}, "
                 f"brute-force image enumeration of the current points gives {sorted(i for i, _ in want)[:12]}",
                 witness={"history": pre, "center": c, "radius": r, "got": got, "want": sorted(i for i, _ in want)}, snippet=snippet)

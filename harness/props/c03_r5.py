"""C03, round 5 (AGENT_ROUND5.md): generator classes 21-26 for the radial transforms — implementation-only, reference-free or
against closed forms written here in mpmath (nothing of rtransform.py is re-typed from the source: the three b-scaled maps are
stated from the class docstrings' mathematics, r(0) = rmin, r(b) = rmax).

  * class 21 — argument sizes past block boundaries (1025, 4097, 20001, 31234, 65537; thorough: 2^19 + 1 and 1000003): every method
      of every class is element-wise, so f(a) == concat(f(a[:k]), f(a[k:])) for two cuts, and the last / first elements equal the
      one-element evaluation.
  * class 22 — descending and shuffled arguments (also the descending radii a decreasing map produces from an ascending grid, and
      such a grid as the first grid of a b=None object): f(a[perm]) == f(a)[perm].
  * class 23 — np.longdouble / float16 / float32 / int8..int64 / uint8 arrays given directly: the float64 answer to the precision of
      the narrower type, the argument unchanged, a second call with the same object equal to the first.
  * class 24 — an explicit scale is independent of the grid: b-scaled maps with b given (and with b fixed by a first grid) on grids
      reaching far beyond b, on 0 and its neighbours, two different grids in sequence: b unchanged, every node against the closed form
      (40 digits) of the map with that b; trim_inf / R / rmin likewise never change with the data (second grid = fresh object).
  * class 25 — the same array object modified in place between two calls (`a[:] = new`, `a *= c`, `a += c`), every method: the
      second answer is the answer for a fresh copy of the new contents on a fresh object.
  * class 26 — two instances that differ in exactly one thing (trim_inf, exponent integer / non-integer, b given / None, rmin = 0 or
      not, plain / wrapped) used alternately in one process in either order: each answer equals the one recorded before the other
      instance existed.
"""
import importlib
import math
import warnings

import numpy as np

from ..common import Ctx
from .c03_r3 import B_SCALED, H_FINITE, _int_points, _quiet, _vals, run_parts

SIZES_QUICK = [1025, 4097, 31234, 65537]
SIZES_THOROUGH = [20001, 2 ** 19 + 1, 1000003]


def rt():
    return importlib.import_module("grid.rtransform")


def _ctor_src(H, cls, ps, trim, wrapped=False, b_none=False):
    args = [repr(p) for p in (ps[:2] if b_none else ps)] + ([f"trim_inf={bool(trim)}"] if cls in H.HAS_TRIM else [])
    return f"def make():\n    T = rt.{cls}({', '.join(args)})\n" + ("    T = rt.InverseRTransform(T)\n" if wrapped else "") + "    return T\nT = make()"


def _benign_array(H, cls, ps, trim, n, np_rng, fwd):
    """n benign points of the domain (forward side) or their images (other side), as a float64 array"""
    if cls in H_FINITE:
        x = np_rng.uniform(-0.7, 0.7, n)
    elif cls == "HyperbolicRTransform":
        x = np_rng.uniform(0.05, 0.9, n) / ps[1]
    elif cls in B_SCALED:
        x = np_rng.uniform(0.05, 2.0, n) * ps[2]
    else:
        x = np_rng.uniform(0.05, 30.0, n)
    if fwd:
        return x
    with _quiet():
        return np.asarray(H.construct(cls, ps, trim).transform(x), dtype=float)


def _params_for_size(H, cls, rng, n):
    ps, trim = H.gen_params(cls, rng)
    if cls == "HyperbolicRTransform":
        ps = [ps[0], 0.5 / n]           # b (size - 1) < 1 is the class's own condition on the size of the argument
    return ps, trim


def _same(g, w, rtol=1e-10):
    """element-wise agreement up to the last bits of pow / exp / log (NumPy's vector and remainder loops), relative to the scale of
    the array (the higher inverse derivatives cancel)"""
    g, w = np.asarray(g, dtype=float).ravel(), np.asarray(w, dtype=float).ravel()
    if g.shape != w.shape:
        return False, f"{g.size} elements instead of {w.size}"
    fin = np.isfinite(w)
    scale = float(np.max(np.abs(w[fin]))) if fin.any() else 0.0
    bad = ~((g == w) | (np.isnan(g) & np.isnan(w)) | (np.abs(g - w) <= rtol * np.abs(w) + 1e-13 * scale))
    if bad.any():
        j = int(np.argmax(bad))
        return False, f"element {j} of {g.size}: {g[j]!r} instead of {w[j]!r} ({int(bad.sum())} elements differ)"
    return True, ""


SNIPPET_SPLIT = """import warnings; warnings.filterwarnings('ignore')
import numpy as np
from grid import rtransform as rt
np.seterr(all='ignore')
{ctor}
rng = np.random.default_rng({seed})
a = {gen}
whole = np.asarray(T.{meth}(a), dtype=float)
for k in {cuts!r}:
    parts = np.concatenate([np.asarray(make().{meth}(a[:k].copy()), dtype=float), np.asarray(make().{meth}(a[k:].copy()), dtype=float)])
    fin = np.isfinite(parts)
    tol = 1e-10 * np.abs(parts) + 1e-13 * np.max(np.abs(parts[fin]))
    bad = ~((whole == parts) | (np.isnan(whole) & np.isnan(parts)) | (np.abs(whole - parts) <= tol))
    assert whole.shape == parts.shape and not bad.any(), f'{meth} on {{a.size}} points differs from the two halves cut at {{k}} in {{int(bad.sum())}} elements, first at {{int(np.argmax(bad))}}: {{whole[bad][:3]}} vs {{parts[bad][:3]}}'
"""


def oracle_sizes(ctx: Ctx, budget, H):
    """class 21: long arguments; the element-wise methods are additive over any split of the argument."""
    rng = ctx.rng
    mod = rt()
    sizes = list(SIZES_QUICK) + (SIZES_THOROUGH if ctx.n(0, 1) else [])
    for cls in H.CLASSES:
        picks = rng.sample(SIZES_QUICK, 2) + ([s for s in sizes if s not in SIZES_QUICK])
        for n in picks:
            ps, trim = _params_for_size(H, cls, rng, n)
            wrapped = rng.random() < 0.25
            ctor = _ctor_src(H, cls, ps, trim, wrapped)
            seed = rng.randrange(10 ** 6)
            ns = {"np": np, "rt": mod}
            with _quiet():
                exec(ctor, ns)
                T = ns["T"]
                for meth in H.METHODS:
                    fwd = (meth in H.FWD) != wrapped
                    a = _benign_array(H, cls, ps, trim, n, np.random.default_rng(seed), fwd)
                    cuts = [n // 2 + 1, 1024 if n > 1024 else 1]
                    what = None
                    try:
                        whole = np.asarray(getattr(T, meth)(a), dtype=float)
                        for k in cuts:
                            parts = np.concatenate([np.asarray(getattr(ns["make"](), meth)(a[:k].copy()), dtype=float),
                                                    np.asarray(getattr(ns["make"](), meth)(a[k:].copy()), dtype=float)])
                            ok, why = _same(whole, parts)
                            if not ok:
                                what = f"differs from the two parts cut at {k}: {why}"
                                break
                        if what is None:
                            for j in (0, n - 1, n - 2, 1023 if n > 1024 else 0):
                                one = np.asarray(getattr(ns["make"](), meth)(a[j:j + 1].copy()), dtype=float)
                                ok, why = _same(whole[j:j + 1], one)
                                if not ok:
                                    what = f"element {j} differs from the one-element call: {why}"
                                    break
                    except Exception as e:  # noqa: BLE001 - a long array is an array
                        what = f"raises {type(e).__name__}: {e}"
                    ctx.count(["oracle-size", cls, ps, trim, wrapped, meth, n, seed], nontrivial=True, tag=f"r5:oracle:size:{n}")
                    if what:
                        eff = H.WRAP_OF[meth] if wrapped else meth
                        gen = _gen_src(H, cls, ps, trim, n, fwd)
                        ctx.fail("oracle", f"rtransform.{cls}.{eff}", f"{'InverseRTransform of ' if wrapped else ''}{cls}{tuple(ps)} trim={trim}: {meth} on an "
                                 f"array of {n} points {what}", witness={"class": cls, "params": ps, "trim": trim, "wrapped": wrapped, "method": meth, "size": n},
                                 snippet=SNIPPET_SPLIT.format(ctor=ctor, seed=seed, gen=gen, meth=meth, cuts=cuts))
                        break


def _gen_src(H, cls, ps, trim, n, fwd):
    """python source that rebuilds the array of `_benign_array` from `rng` (same draws)"""
    if cls in H_FINITE:
        x = f"rng.uniform(-0.7, 0.7, {n})"
    elif cls == "HyperbolicRTransform":
        x = f"rng.uniform(0.05, 0.9, {n}) / {ps[1]!r}"
    elif cls in B_SCALED:
        x = f"rng.uniform(0.05, 2.0, {n}) * {ps[2]!r}"
    else:
        x = f"rng.uniform(0.05, 30.0, {n})"
    if fwd:
        return x
    args = [repr(p) for p in ps] + ([f"trim_inf={bool(trim)}"] if cls in H.HAS_TRIM else [])
    return f"np.asarray(rt.{cls}({', '.join(args)}).transform({x}), dtype=float)"


SNIPPET_PERM = """import warnings; warnings.filterwarnings('ignore')
import numpy as np
from grid import rtransform as rt
np.seterr(all='ignore')
{refctor}
ref = make                      # the reference object (b = maximum of the grid given explicitly where the object under test infers it)
{ctor}
a = np.array({arr!r})
perm = np.array({perm!r})
want = np.asarray(ref().{meth}(a.copy()), dtype=float)[perm]
got = np.asarray(T.{meth}(a[perm].copy()), dtype=float)
assert np.allclose(got, want, rtol=1e-10, atol=1e-13 * np.max(np.abs(want)), equal_nan=True), f'{meth} on the reordered argument: {{got}}, reordered answers: {{want}}'
"""


def oracle_order(ctx: Ctx, budget, H):
    """class 22: descending / shuffled arguments; the descending radii of a decreasing map; such a grid as the first grid of a
    b=None object (b is its maximum wherever it stands)."""
    rng = ctx.rng
    mod = rt()
    for cls in H.CLASSES:
        for rep in range(2 if budget == "small" else 8):
            ps, trim = H.gen_params(cls, rng)
            if cls == "HyperbolicRTransform":
                ps = [ps[0], min(ps[1], 0.02)]
            wrapped = rng.random() < 0.25
            b_none = cls in B_SCALED and rep % 2 == 1
            n = rng.choice([2, 3, 7, 16, 33])
            seed = rng.randrange(10 ** 6)
            for fwd_side in (True, False):
                a = np.sort(_benign_array(H, cls, ps, trim, n, np.random.default_rng(seed), fwd_side or b_none))
                for order in ("descending", "shuffled", "ascending"):
                    perm = np.arange(n)[::-1] if order == "descending" else (np.random.default_rng(seed + 1).permutation(n) if order == "shuffled" else np.arange(n))
                    psx = list(ps)
                    if b_none:
                        psx[2] = float(a.max())
                    ctor = _ctor_src(H, cls, ps, trim, wrapped, b_none)
                    ref_ctor = _ctor_src(H, cls, psx, trim, wrapped, False)
                    ns, nr = {"np": np, "rt": mod}, {"np": np, "rt": mod}
                    with _quiet():
                        for meth in [m for m in H.METHODS if ((m in H.FWD) != wrapped) == fwd_side]:
                            exec(ctor, ns)
                            exec(ref_ctor, nr)
                            try:
                                want = np.asarray(getattr(nr["T"], meth)(a.copy()), dtype=float)[perm]
                                got = np.asarray(getattr(ns["T"], meth)(a[perm].copy()), dtype=float)
                                ok, why = _same(got, want)
                            except Exception as e:  # noqa: BLE001
                                ok, why = False, f"raises {type(e).__name__}: {e}"
                            ctx.count(["oracle-order", cls, ps, trim, wrapped, b_none, meth, order, n, seed], nontrivial=order != "ascending", tag=f"r5:oracle:order:{order}")
                            if not ok:
                                eff = H.WRAP_OF[meth] if wrapped else meth
                                ctx.fail("oracle", f"rtransform.{cls}.{eff}", f"{'InverseRTransform of ' if wrapped else ''}{cls}{tuple(ps[:2] if b_none else ps)} "
                                         f"trim={trim}{' b=None' if b_none else ''}: {meth} on a {order} argument of {n} points is not the reordered answer for the "
                                         f"ascending one: {why}", witness={"class": cls, "params": ps, "b_none": b_none, "wrapped": wrapped, "method": meth, "order": order},
                                         snippet=SNIPPET_PERM.format(ctor=ctor, refctor=ref_ctor, arr=a.tolist(), perm=perm.tolist(), meth=meth))
                                break
    # the descending radii a decreasing map makes out of an ascending grid, handed to the inverse-side methods
    ps, trim = H.gen_params("MultiExpRTransform", rng)
    with _quiet():
        T = H.construct("MultiExpRTransform", ps, trim)
        x = np.linspace(-0.7, 0.7, 9)
        r = np.asarray(T.transform(x), dtype=float)
        for meth in ("inverse", "deriv_inverse", "deriv2_inverse", "deriv3_inverse"):
            got = np.asarray(getattr(T, meth)(r), dtype=float)
            want = np.asarray(getattr(H.construct("MultiExpRTransform", ps, trim), meth)(r[::-1].copy()), dtype=float)[::-1]
            ok, why = _same(got, want)
            ctx.count(["oracle-order-multiexp", ps, meth], nontrivial=True, tag="r5:oracle:order:descending-radii")
            if not ok or (meth == "inverse" and not np.allclose(got, x, rtol=1e-9, atol=1e-12)):
                ctx.fail("oracle", f"rtransform.MultiExpRTransform.{meth}", f"MultiExpRTransform{tuple(ps)}: {meth} on the descending radii of an ascending grid: {why or got.tolist()}",
                         witness={"class": "MultiExpRTransform", "params": ps, "method": meth})


NARROW_KINDS = [("longdouble", "np.longdouble", 1e-12), ("float32", "np.float32", 2e-3), ("float16", "np.float16", 0.12), ("int64", "np.int64", 1e-12),
                ("int16", "np.int16", 1e-12), ("int8", "np.int8", 1e-12), ("uint8", "np.uint8", 1e-12)]

SNIPPET_NARROW = """import warnings; warnings.filterwarnings('ignore')
import numpy as np
from grid import rtransform as rt
np.seterr(all='ignore')
{ctor}
a = np.array({vals!r}, dtype={dt})
keep = a.copy()
first = np.array(T.{meth}(a), dtype=float)
second = np.array(T.{meth}(a), dtype=float)
want = np.asarray(make().{meth}(np.array({vals!r}, dtype=np.float64)), dtype=float)
assert np.array_equal(a, keep) and a.dtype == keep.dtype, f'the argument changed: {{a}} (was {{keep}})'
assert np.array_equal(first, second, equal_nan=True), f'second call {{second}} differs from the first {{first}}'
assert np.allclose(first, want, rtol={rtol!r}, atol={atol!r}, equal_nan=True), f'{meth} on a {dt} array: {{first}}, float64 answer {{want}}'
"""


def oracle_narrow_inputs(ctx: Ctx, budget, H):
    """class 23: arrays of extended / reduced precision and small integer types given directly."""
    rng = ctx.rng
    mod = rt()
    notes = ctx.__dict__.setdefault("_c03_r5_notes", {})
    for cls in H.CLASSES:
        for rep in range(1 if budget == "small" else 4):
            ps, trim = H.gen_params(cls, rng)
            ps = [float(p) for p in ps]
            wrapped = rng.random() < 0.25
            ctor = _ctor_src(H, cls, ps, trim, wrapped)
            ns = {"np": np, "rt": mod}
            with _quiet():
                exec(ctor, ns)
                T = ns["T"]
                Tin = H.construct(cls, ps, trim)
                for meth in H.METHODS:
                    fwd = (meth in H.FWD) != wrapped
                    for label, dt, rtol in NARROW_KINDS:
                        if "int" in label:
                            vals = [v for v in _int_points(cls, ps, Tin, fwd, rng) if 0 <= v < 100 or "uint" not in label]
                            vals = [v for v in vals if -100 < v < 100]
                            # interior integers only for the narrow signed / unsigned types (`1 - x` on uint8 wraps around: the caller's type)
                            if cls in H_FINITE and fwd:
                                vals = [0]
                            if label == "uint8" and cls in H_FINITE:
                                continue
                        else:
                            # benign points at their value in the narrow type (the float64 reference gets the same real numbers)
                            pts = _benign_array(H, cls, ps, trim, 3, np.random.default_rng(rng.randrange(10 ** 6)), fwd)
                            vals = [float(np.array(v, dtype=eval(dt)).astype(np.float64)) for v in pts if math.isfinite(float(np.array(v, dtype=eval(dt))))]
                        if not vals:
                            continue
                        a = np.array(vals, dtype=eval(dt))
                        keep = a.copy()
                        what = None
                        try:
                            want = np.asarray(getattr(ns["make"](), meth)(np.array(vals, dtype=np.float64)), dtype=float).ravel()
                        except Exception as e:  # noqa: BLE001 - e.g. the `d1 == 0` guard at a codomain end: the typed call must raise the same
                            want = type(e).__name__
                        try:
                            if isinstance(want, str):
                                try:
                                    getattr(T, meth)(a)
                                    what = f"is accepted, the float64 array raises {want}"
                                except Exception as e2:  # noqa: BLE001
                                    what = None if type(e2).__name__ == want else f"raises {type(e2).__name__}, the float64 array raises {want}"
                                raise StopIteration
                            first = np.array(getattr(T, meth)(a), dtype=float).ravel()
                            second = np.array(getattr(T, meth)(a), dtype=float).ravel()
                            fin = np.isfinite(want)
                            scale = float(np.max(np.abs(want[fin]))) if fin.any() else 0.0
                            # precision of the narrower type: its rounding moves the point by up to half an ulp of that type
                            atol = rtol * scale if rtol > 1e-6 else 1e-12 * scale
                            if not (np.array_equal(a, keep) and a.dtype == keep.dtype):
                                what = f"the argument changed: {a.tolist()} (was {keep.tolist()})"
                            elif not np.array_equal(first, second, equal_nan=True):
                                what = f"second call with the same argument object {second.tolist()} differs from the first {first.tolist()}"
                            elif first.shape != want.shape:
                                what = f"has {first.size} elements, the float64 answer {want.size}"
                            else:
                                sel = np.isfinite(first) if label == "float16" else np.ones(first.shape, dtype=bool)
                                if label == "float16" and meth not in ("transform", "inverse"):
                                    # half precision (11 bits, smallest normal 6e-5) has no digits for the derivative scales (values 1e-6,
                                    # 1 - x**k): only the two statements above (argument unchanged, repeatable) are made
                                    sel[:] = False
                                if label == "float16" and not sel.all():
                                    ctx.tagc("r5:oracle:narrow:float16-overflow-not-compared")      # the caller's 5-bit exponent
                                allow = np.zeros(first.shape)
                                if label in ("float16", "float32"):
                                    # arithmetic in the narrow type rounds every intermediate: allow the movement of the float64 answer under
                                    # a few ulp (of that type) of the point (r - rmin next to the codomain end has no digits in half precision)
                                    eps = 2.0 ** (-9 if label == "float16" else -22)
                                    for sg in (1, -1):
                                        try:
                                            nb = np.asarray(getattr(ns["make"](), meth)(np.array(vals, dtype=np.float64) * (1 + sg * eps)), dtype=float).ravel()
                                            d = np.abs(nb - want)
                                            allow = np.maximum(allow, np.where(np.isfinite(d), 4 * d, np.inf))
                                        except Exception:  # noqa: BLE001
                                            allow[:] = np.inf
                                err = np.abs(first - want)
                                okel = (first == want) | (np.isnan(first) & np.isnan(want)) | (err <= rtol * np.abs(want) + atol + allow)
                                if not okel[sel].all():
                                    what = f"= {first.tolist()}, the float64 answer is {want.tolist()}"
                        except StopIteration:
                            atol = 0.0
                        except Exception as e:  # noqa: BLE001
                            what = f"raises {type(e).__name__}: {str(e)[:120]}"
                            atol = 0.0
                        ctx.count(["oracle-narrow", cls, ps, trim, wrapped, meth, label, vals], nontrivial=True, tag=f"r5:oracle:narrow:{label}")
                        if what and label == "float16" and "ZeroDivisionError" in what:
                            # the first derivative underflows to 0 in half precision (smallest subnormal 6e-8): the caller's type
                            ctx.tagc("r5:oracle:narrow:float16-underflow-not-compared")
                            continue
                        if what:
                            if label in ("int8", "uint8", "int16") and ("raises" in what or "float64 answer" in what):
                                # fixed-width integer arithmetic of the caller's narrow type (2 * r on int8, x**k): round 2's information class
                                notes.setdefault("narrow-int", f"{cls}.{meth} on {dt} {vals}: {what[:160]}")
                                ctx.tagc("r5:information:narrow-integer-arithmetic")
                                continue
                            eff = H.WRAP_OF[meth] if wrapped else meth
                            if len([f for f in ctx.failures if f.kind == "oracle" and f.key == f"rtransform.{cls}.{eff}"]) >= 3:
                                continue
                            ctx.fail("oracle", f"rtransform.{cls}.{eff}", f"{'InverseRTransform of ' if wrapped else ''}{cls}{tuple(ps)} trim={trim}: {meth}(np.array({vals}, "
                                     f"dtype={dt})) {what}", witness={"class": cls, "params": ps, "trim": trim, "wrapped": wrapped, "method": meth, "dtype": dt, "x": vals},
                                     snippet=SNIPPET_NARROW.format(ctor=ctor, vals=vals, dt=dt, meth=meth, rtol=float(rtol), atol=float(atol)))
    if "narrow-int" in notes and not notes.get("emitted"):
        notes["emitted"] = True
        ctx.info("information (argument kinds): 8- and 16-bit integer arrays are evaluated in the caller's fixed-width arithmetic where the formula starts "
                 f"with an integer operation; e.g. {notes['narrow-int']}")


def _closed_form(cls, rmin, rmax, b):
    """the three b-scaled maps from their defining conditions r(0) = rmin, r(b) = rmax (40 digits)"""
    import mpmath as mp
    rmin, rmax, b = mp.mpf(rmin), mp.mpf(rmax), mp.mpf(b)
    if cls == "LinearInfiniteRTransform":
        return lambda x: rmin + (rmax - rmin) * x / b, lambda r: (r - rmin) * b / (rmax - rmin)
    if cls == "ExpRTransform":
        return lambda x: rmin * (rmax / rmin) ** (x / b), lambda r: b * mp.log(r / rmin) / mp.log(rmax / rmin)
    p = mp.log(rmax / rmin) / mp.log(1 + b)
    return lambda x: rmin * (1 + x) ** p, lambda r: (r / rmin) ** (1 / p) - 1


SNIPPET_INDEP = """import warnings; warnings.filterwarnings('ignore')
import numpy as np, mpmath as mp
from grid import rtransform as rt
np.seterr(all='ignore'); mp.mp.dps = 40
cls, rmin, rmax, b = {cls!r}, {rmin!r}, {rmax!r}, {b!r}
T = getattr(rt, cls)(rmin, rmax{bsrc})
{prime}
for g in {grids!r}:
    got = np.asarray(T.{meth}(np.array(g)), dtype=float)
    assert T.b == b, f'b = {{T.b}} after the grid {{g}}, it was fixed at {{b}}'
R, B, M = mp.mpf(rmin), mp.mpf(b), mp.mpf(rmax)
fwd = {{'LinearInfiniteRTransform': lambda x: R + (M - R) * x / B, 'ExpRTransform': lambda x: R * (M / R) ** (x / B),
       'PowerRTransform': lambda x: R * (1 + x) ** (mp.log(M / R) / mp.log(1 + B))}}[cls]
inv = {{'LinearInfiniteRTransform': lambda r: (r - R) * B / (M - R), 'ExpRTransform': lambda r: B * mp.log(r / R) / mp.log(M / R),
       'PowerRTransform': lambda r: (r / R) ** (mp.log(1 + B) / mp.log(M / R)) - 1}}[cls]
f, order = (inv if {meth!r}.endswith('inverse') else fwd), {order}
for x, v in zip({grids!r}[-1], got):
    want = mp.diff(f, mp.mpf(x), order) if order else f(mp.mpf(x))
    assert abs(v - want) <= {tol!r} * max(abs(want), {floor!r}, abs(R) if not order else 0) + 1e-300, f'{{cls}}({{rmin}}, {{rmax}}, b={{b}}).{meth}({{x}}) = {{v}}, closed form {{mp.nstr(want, 15)}}'
"""


def oracle_scale_independent_of_grid(ctx: Ctx, budget, H):
    """class 24: the scale b (given, or fixed by a first grid) is independent of every later grid: grids far beyond b, on 0 and next to
    it, two different grids in sequence; every node against the closed form of the map with that b."""
    import mpmath as mp
    rng = ctx.rng
    mod = rt()
    order_of = {"transform": 0, "inverse": 0, "deriv": 1, "deriv2": 2, "deriv3": 3, "deriv_inverse": 1, "deriv2_inverse": 2, "deriv3_inverse": 3}
    for cls in B_SCALED:
        C = getattr(mod, cls)
        for rep in range(3 if budget == "small" else 12):
            ps, _ = H.gen_params(cls, rng)
            rmin, rmax = float(ps[0]), float(ps[1])
            if cls != "LinearInfiniteRTransform":
                rmin = max(rmin, 0.01)
            b = float(rng.choice([1.0, 2.5, 7.0, 0.5, 30.0]))
            given = rep % 2 == 0
            first = [0.0, b / 3, b]                                   # the grid that fixes b when it is not given
            beyond = [b * f for f in (1.5, 4.0, 17.0)] + [0.0, 5e-324, b * 1e-9]
            short = [b * f for f in (0.01, 0.2, 0.5)]
            grids = [first, rng.choice([beyond, short]), beyond if rng.random() < 0.5 else short, beyond]
            with _quiet():
                T = C(rmin, rmax, b) if given else C(rmin, rmax)
                fwd, inv = _closed_form(cls, rmin, rmax, b)
                for meth in H.METHODS:
                    if not given and cls == "LinearInfiniteRTransform" and meth in ("deriv2", "deriv3") and T.b is None:
                        T.transform(np.array(first))
                    side_inv = meth.endswith("inverse")
                    use = grids if not side_inv else [[float(fwd(mp.mpf(x))) for x in g] for g in grids]
                    if cls != "LinearInfiniteRTransform":
                        use = [[v for v in g if (v > 0 or not side_inv)] for g in use]
                    what = None
                    for g in use:
                        try:
                            got = _vals(getattr(T, meth)(np.array(g)))
                        except Exception as e:  # noqa: BLE001
                            what = f"raises {type(e).__name__}: {e} on the grid {g}"
                            break
                        if T.b is None or float(T.b) != b:
                            what = f"b = {T.b!r} after the grid {g}; it was fixed at {b!r}"
                            break
                    ctx.count(["oracle-indep", cls, rmin, rmax, b, given, meth], nontrivial=True, tag=f"r5:oracle:scale-independent:{'given' if given else 'first-grid'}")
                    tol, floor = (1e-6 if order_of[meth] >= 2 and side_inv else 1e-8), 1e-12
                    if what is None:
                        f = inv if side_inv else fwd
                        for x, v in zip(use[-1], got):
                            want = mp.diff(f, mp.mpf(x), order_of[meth]) if order_of[meth] else f(mp.mpf(x))
                            scale = max(abs(want), mp.mpf(floor)) if order_of[meth] else max(abs(want), abs(mp.mpf(rmin if not side_inv else b)))
                            if not abs(mp.mpf(v) - want) <= tol * scale + mp.mpf(1e-300):          # (subnormal results: rmin = 0, x = 5e-324)
                                what = f"{meth}({x!r}) = {v!r} on the grid {use[-1]}, the closed form of the map with b = {b} gives {mp.nstr(want, 15)}"
                                break
                    if what:
                        ctx.fail("oracle", f"rtransform.{cls}.{meth}", f"{cls}({rmin}, {rmax}{', b=' + repr(b) if given else ') with b fixed by the first grid ' + str(first)}"
                                 f"{')' if given else ''}: {what}", witness={"class": cls, "rmin": rmin, "rmax": rmax, "b": b, "given": given, "method": meth, "grids": use},
                                 snippet=SNIPPET_INDEP.format(cls=cls, rmin=rmin, rmax=rmax, b=b, bsrc=(", b=" + repr(b)) if given else "", grids=use,
                                                              prime="" if given else f"T.transform(np.array({first!r}))            # the first grid fixes b",
                                                              meth=meth, order=order_of[meth], tol=tol, floor=floor))
                        break
    # the other explicit parameters: a second, different grid is answered as by a fresh object
    for cls in [c for c in H.CLASSES if c not in B_SCALED]:
        ps, trim = H.gen_params(cls, rng)
        if cls == "HyperbolicRTransform":
            ps = [ps[0], min(ps[1], 0.02)]
        with _quiet():
            T = H.construct(cls, ps, trim)
            for meth in H.METHODS:
                fwd_side = meth in H.FWD
                g1 = _benign_array(H, cls, ps, trim, 5, np.random.default_rng(rng.randrange(10 ** 6)), fwd_side)
                g2 = _benign_array(H, cls, ps, trim, 3, np.random.default_rng(rng.randrange(10 ** 6)), fwd_side) * (1.0 if cls in H_FINITE and fwd_side else 1.7)
                getattr(T, meth)(g1)
                ok, why = _same(getattr(T, meth)(g2), getattr(H.construct(cls, ps, trim), meth)(g2.copy()), rtol=0.0)
                ctx.count(["oracle-indep2", cls, ps, trim, meth], nontrivial=True, tag="r5:oracle:scale-independent:second-grid")
                if not ok:
                    ctx.fail("oracle", f"rtransform.{cls}.{meth}", f"{cls}{tuple(ps)} trim={trim}: {meth} on a second grid {g2.tolist()} after {g1.tolist()} differs from a "
                             f"fresh object: {why}", witness={"class": cls, "params": ps, "method": meth})


SNIPPET_INPLACE = """import warnings; warnings.filterwarnings('ignore')
import numpy as np
from grid import rtransform as rt
np.seterr(all='ignore')
{ctor}
a = np.array({a0!r})
first = np.array(T.{meth}(a), dtype=float)
{edit}
second = np.asarray(T.{meth}(a), dtype=float)
want = np.asarray(make().{meth}(a.copy()), dtype=float)
assert np.array_equal(second, want, equal_nan=True), f'{meth} after `{edit}` on the same array object: {{second}}, fresh copy on a fresh object: {{want}}'
"""


def oracle_same_object_edited(ctx: Ctx, budget, H):
    """class 25: one array object, edited in place between two calls of the same method (and of two different methods)."""
    rng = ctx.rng
    mod = rt()
    for cls in H.CLASSES:
        for rep in range(1 if budget == "small" else 5):
            ps, trim = H.gen_params(cls, rng)
            if cls == "HyperbolicRTransform":
                ps = [ps[0], min(ps[1], 0.02)]
            wrapped = rng.random() < 0.25
            ctor = _ctor_src(H, cls, ps, trim, wrapped)
            ns = {"np": np, "rt": mod}
            with _quiet():
                exec(ctor, ns)
                T = ns["T"]
                for meth in H.METHODS:
                    fwd = (meth in H.FWD) != wrapped
                    seed = rng.randrange(10 ** 6)
                    a0 = _benign_array(H, cls, ps, trim, 4, np.random.default_rng(seed), fwd)
                    new = _benign_array(H, cls, ps, trim, 4, np.random.default_rng(seed + 7), fwd)
                    edit = rng.choice([f"a[:] = np.array({new.tolist()!r})", "a *= 0.5", f"a += {float(new[0] - a0[0]) / 8!r}", f"a[1] = {float(new[1])!r}",
                                       f"a[...] = np.array({new.tolist()!r})[::-1]"])
                    env = {"np": np, "a": a0.copy()}
                    try:
                        getattr(T, meth)(env["a"])
                        other = rng.choice(H.METHODS)
                        if ((other in H.FWD) != wrapped) == fwd:
                            getattr(T, other)(env["a"])
                        exec(edit, env)
                        second = np.asarray(getattr(T, meth)(env["a"]), dtype=float)
                        want = np.asarray(getattr(ns["make"](), meth)(env["a"].copy()), dtype=float)
                        ok = np.array_equal(second, want, equal_nan=True)
                        why = f"{second.tolist()}, a fresh copy of the new contents on a fresh object gives {want.tolist()}"
                    except Exception as e:  # noqa: BLE001
                        ok, why = False, f"raises {type(e).__name__}: {e}"
                    ctx.count(["oracle-inplace", cls, ps, trim, wrapped, meth, edit], nontrivial=True, tag="r5:oracle:same-object-edited")
                    if not ok:
                        eff = H.WRAP_OF[meth] if wrapped else meth
                        ctx.fail("oracle", f"rtransform.{cls}.{eff}", f"{'InverseRTransform of ' if wrapped else ''}{cls}{tuple(ps)} trim={trim}: {meth}(a), then `{edit}`, then "
                                 f"{meth}(a) again = {why}", witness={"class": cls, "params": ps, "trim": trim, "wrapped": wrapped, "method": meth, "edit": edit},
                                 snippet=SNIPPET_INPLACE.format(ctor=ctor, a0=a0.tolist(), meth=meth, edit=edit))


def _variants(H, cls, ps, trim, rng):
    """objects that differ from (cls, ps, trim) in exactly one thing -> list of (label, constructor source)"""
    def src(p, t, wrapped=False, b_none=False):
        args = [repr(v) for v in (p[:2] if b_none else p)] + ([f"trim_inf={bool(t)}"] if cls in H.HAS_TRIM else [])
        s = f"rt.{cls}({', '.join(args)})"
        return f"rt.InverseRTransform({s})" if wrapped else s
    out = [("identical twin", src(ps, trim))]
    if cls in H.HAS_TRIM:
        out.append(("trim_inf flipped", src(ps, not trim)))
    if cls in ("KnowlesRTransform", "HandyRTransform"):
        e = ps[2]
        out.append(("exponent integer / non-integer", src([ps[0], ps[1], (int(e) + 1 if e != int(e) else e + 0.5)], trim)))
    if len(ps) >= 1 and cls not in ("HyperbolicRTransform",):
        out.append(("rmin = 0 or not", src([0.0 if ps[0] != 0 else 0.25] + list(ps[1:]), trim) if cls not in ("ExpRTransform", "PowerRTransform") else src([ps[0] / 2] + list(ps[1:]), trim)))
    if cls in B_SCALED:
        out.append(("b not given", src(ps, trim, b_none=True)))
        out.append(("other b", src([ps[0], ps[1], ps[2] * 3], trim)))
    if cls == "HyperbolicRTransform":
        out.append(("other b", src([ps[0], ps[1] / 2], trim)))
    return out


SNIPPET_TWO = """import warnings; warnings.filterwarnings('ignore')
import numpy as np
from grid import rtransform as rt
np.seterr(all='ignore')
a = np.array({a!r})
alone = np.asarray({A}.{meth}(a.copy()), dtype=float)          # before any other instance exists
A, B = {A}, {B}
for step in range(3):
    _ = B.{bmeth}(np.array({bgrid!r}))
    got = np.asarray(A.{meth}(a.copy()), dtype=float)
    assert np.array_equal(got, alone, equal_nan=True), f'with a second instance ({label}) in use: {{got}}, alone: {{alone}}'
"""


def oracle_two_instances(ctx: Ctx, budget, H):
    """class 26: two instances differing in one thing, used alternately in either order; each answer against the one recorded
    before the other instance existed."""
    rng = ctx.rng
    mod = rt()
    for cls in H.CLASSES:
        if cls == "IdentityRTransform":
            continue
        for rep in range(1 if budget == "small" else 4):
            ps, trim = H.gen_params(cls, rng)
            if cls == "HyperbolicRTransform":
                ps = [ps[0], min(ps[1], 0.02)]
            A_src = _variants(H, cls, ps, trim, rng)[0][1]
            for label, B_src in _variants(H, cls, ps, trim, rng):
                ns = {"np": np, "rt": mod}
                with _quiet():
                    seed = rng.randrange(10 ** 6)
                    alone = {}
                    args = {}
                    for meth in H.METHODS:
                        args[meth] = _benign_array(H, cls, ps, trim, 3, np.random.default_rng(seed), meth in H.FWD)
                        alone[meth] = np.asarray(getattr(eval(A_src, ns), meth)(args[meth].copy()), dtype=float)
                    for order in ("A-first", "B-first"):
                        if order == "A-first":
                            A = eval(A_src, ns)
                            B = eval(B_src, ns)
                        else:
                            B = eval(B_src, ns)
                            A = eval(A_src, ns)
                        bgrid = _benign_array(H, cls, ps, trim, 4, np.random.default_rng(seed + 3), True)
                        for meth in H.METHODS:
                            bmeth = rng.choice(["transform", "deriv", "deriv3", meth])
                            barg = bgrid if bmeth in H.FWD else args[bmeth]
                            try:
                                if order == "B-first":
                                    getattr(B, bmeth)(np.array(barg))
                                g1 = np.asarray(getattr(A, meth)(args[meth].copy()), dtype=float)
                                getattr(B, bmeth)(np.array(barg))
                                g2 = np.asarray(getattr(A, meth)(args[meth].copy()), dtype=float)
                                ok = np.array_equal(g1, alone[meth], equal_nan=True) and np.array_equal(g2, alone[meth], equal_nan=True)
                                why = f"{g1.tolist()} / {g2.tolist()}, alone: {alone[meth].tolist()}"
                            except Exception as e:  # noqa: BLE001
                                ok, why = False, f"raises {type(e).__name__}: {e}"
                            ctx.count(["oracle-two", cls, ps, trim, label, order, meth], nontrivial=True, tag=f"r5:oracle:two-instances:{order}")
                            if not ok:
                                ctx.fail("oracle", f"rtransform.{cls}.{meth}", f"{A_src}.{meth}({args[meth].tolist()}) while a second instance {B_src} ({label}) is used "
                                         f"in the same process ({order}): {why}", witness={"class": cls, "A": A_src, "B": B_src, "method": meth, "order": order},
                                         snippet=SNIPPET_TWO.format(a=args[meth].tolist(), A=A_src, B=B_src, meth=meth, bmeth=bmeth, bgrid=np.asarray(barg).tolist(), label=label))
                                break


def oracle_r5(ctx: Ctx, budget, H):
    run_parts([lambda: oracle_sizes(ctx, budget, H), lambda: oracle_order(ctx, budget, H), lambda: oracle_narrow_inputs(ctx, budget, H),
               lambda: oracle_scale_independent_of_grid(ctx, budget, H), lambda: oracle_same_object_edited(ctx, budget, H),
               lambda: oracle_two_instances(ctx, budget, H)])

"""C20 registry: dynamic validation that no public entry point of src/grid modifies caller data.

    run(ctx, budget, flagged)          budget in {"quick", "thorough", "large"}
    replay(entry_name, pattern, seed)  raises AssertionError iff caller data still changes

Each registry entry names one public function/method by the qualified name that the static
effects analysis (harness/translate/effects.py) uses, and has a builder producing FRESH
arguments from a numpy Generator.  The framework deep-collects every caller-owned mutable
object reachable from the arguments, snapshots it, applies an aliasing pattern, calls the
entry point (exceptions are fine, except "read-only" write errors), and compares bit for bit.

Patterns
    rw           writable arrays, snapshot compare
    ro           every caller array (and the base of every view) has writeable=False
    alias        parameters of equal shape/dtype receive the same array object; a second
                 sub-case passes overlapping views of one buffer; equal grid objects are shared
    list         every argument that is a sequence of integers (degrees, sizes, atnums, shape,
                 sector tables, index lists: an integer ndarray, a tuple or list of ints, nested
                 ones included) is handed over as a plain Python list (lists cannot be
                 write-protected: a write-back is seen in the structural snapshot, which is why
                 the builders also use values the library has to replace, e.g. degrees that are
                 not tabulated)
    int-array    the same arguments as integer ndarrays: sub-case `int64-ro` converts the
                 outermost rectangular list to one int64 array and write-protects every integer
                 array (a write-back of an *equal* value is caught, too); sub-case `int32`
                 converts the innermost lists / re-types int64 arrays to writable int32 arrays
                 (a write-back of a value that does not fit / of another dtype changes the bytes)
    view         every caller array is handed over as a VIEW into a larger caller-owned buffer whose
                 other bytes are snapshotted too: sub-case `row` (a contiguous row of a table with a
                 row before and after), sub-case `strided+lists` (every other element of a buffer,
                 and every flat / rectangular list or tuple of numbers - y0, x_span, bd_cond,
                 r_interval, sector tables - as a float64 / int64 row view).  Nothing is
                 write-protected: the comparison is on the bytes (LAPACK ignores the flag)
    cb-identity  every user callback returns (a view of) the array it received
    cb-cached    every user callback returns one cached constant array per result shape
    cb-kind      every user callback returns its result as float32 / complex128 / longdouble / int /
                 a kind that changes from call to call (0-d arrays and NumPy scalars for scalar results)
    kind         every caller array in another memory layout / dtype: float32; negative strides (1-D)
                 or Fortran order with a reversed first axis (n-D), as a view of a caller buffer
    repeat       the SAME argument objects are used for three successive calls; every answer (or
                 exception type) must equal the answer of one call on pristine, separately built
                 arguments, and the arguments are compared bit for bit at the end
    cb-view      every user callback returns a row of a caller-owned table (refreshed with the values of each
                 call); the rows around it are snapshotted as well
    edit         identity-keyed memoisation: after one call every caller float array is edited IN PLACE
                 (`buf *= 0.875`), then the call is repeated with the same objects; the second answer must equal
                 the answer on separately built arguments edited the same way before their first use, and the
                 edited contents must be unchanged afterwards
    raises       one argument is made unacceptable (last element / row dropped; a NaN put in) so that
                 the call ends in an exception part-way: nothing may have been written by then

In every pattern the ultimate base of a caller array that is itself a view is snapshotted as well.

Parameter-level audit (`param_audit`, also `python -m harness.props.c20_registry --audit`): every
public callable is watched with `sys.setprofile` while the entries run; for each parameter the
audit records under which patterns an object *owned by the caller* (identity, not a library-made
copy) arrived there, so that a parameter of array / list / dict type that no entry ever feeds with
caller data shows up as a hole.
"""
from __future__ import annotations

import copy
import hashlib
import importlib
import inspect
import os
import re
import shutil
import signal
import sys
import tempfile
import time
import traceback
import warnings
import zlib

import numpy as np

PATTERNS = ["rw", "ro", "alias", "list", "int-array", "view", "kind", "repeat", "edit", "raises", "cb-identity", "cb-cached",
            "cb-view", "cb-kind"]
# in the quick budget the other patterns run on every other entry (alternating with the seed and the pattern, so that
# two consecutive seeds cover everything); every pattern on every entry in the thorough / large budgets
HEAVY_PATTERNS = {"kind", "repeat", "edit", "raises", "cb-kind"}
ALWAYS_IN_QUICK = {"rw", "ro", "cb-identity", "cb-cached", "cb-view"}


class Mismatch(AssertionError):
    """Raised by an entry's own `call` when two answers that must agree differ (same argument object
    used for several requests); reported as a violation."""
GRID_MODULES = [
    "angular", "atomgrid", "basegrid", "becke", "coulomb", "cubic", "hirshfeld", "molgrid",
    "ngrid", "ode", "onedgrid", "periodicgrid", "poisson", "robust_poisson", "rtransform", "utils",
]
LEVEL_BASE = 10**6  # seed = level * LEVEL_BASE + base seed
TMP_ROOT = "/var/tmp"
_RO_MSG = re.compile(r"read-only|readonly|read only|not writeable|WRITEABLE", re.I)


# ----------------------------------------------------------------------------
# markers used by the builders
# ----------------------------------------------------------------------------
class CB:
    """Marks a user callback among the arguments (the framework wraps it per pattern)."""

    def __init__(self, fn):
        self.fn = fn


class RO:
    """Marks an array that is handed over read-only in every pattern (evaluation points of a
    returned interpolant / solution / potential)."""

    def __init__(self, arr):
        self.arr = np.asarray(arr)


class Entry:
    def __init__(self, name, variant, builder, slow=False, covers=()):
        self.name = name
        self.variant = variant
        self.builder = builder
        self.slow = slow
        self.covers = tuple(covers)

    @property
    def id(self):
        return self.name if not self.variant else f"{self.name}#{self.variant}"

    @property
    def module(self):
        return self.name.split(".")[0]

    def build(self, rng, level=0):
        return self.builder(rng, level)


_ENTRIES: list[Entry] = []


def entry(name, variant="", slow=False, covers=()):
    def deco(fn):
        _ENTRIES.append(Entry(name, variant, fn, slow=slow, covers=covers))
        return fn

    return deco


def _is_lib_obj(o) -> bool:
    m = getattr(type(o), "__module__", "") or ""
    return m == "grid" or m.startswith("grid.")


# ----------------------------------------------------------------------------
# collecting / snapshotting caller-owned objects
# ----------------------------------------------------------------------------
class _State:
    def __init__(self, pattern, sub):
        self.pattern = pattern
        self.sub = sub
        self.arrays = []       # (path, ndarray)
        self.containers = []   # (path, list/tuple/dict)
        self.callbacks = []    # paths
        self.always_ro = []    # ndarrays
        self.cb_records = []   # (path, ndarray, bytes)
        self.cb_cache = {}     # (path, shape, dtype) -> ndarray
        self.cb_calls = 0
        self.aliased = []      # descriptions
        self.protect_cb = False
        self.flag_log = []     # (ndarray, original writeable)
        self.cb_bases = []     # (path, table) of cb-view
        self.cb_base_snaps = {}  # id(table) -> snapshot taken when the callback last refreshed it
        self.converted = []    # descriptions of integer sequences re-typed by list / int-array
        self.nslots = 0        # number of integer-sequence arguments


def _walk(obj, path, st: _State, seen: set, in_obj=False, depth=0):
    if depth > 8 or obj is None or isinstance(obj, (str, bytes, int, float, complex, bool)):
        return
    if isinstance(obj, (np.generic,)):
        return
    i = id(obj)
    if isinstance(obj, np.ndarray):
        if i in seen:
            return
        seen.add(i)
        st.arrays.append((path, obj))
        # a view: the memory around it is the caller's, too
        b = obj
        while isinstance(b.base, np.ndarray):
            b = b.base
        if b is not obj and id(b) not in seen:
            seen.add(id(b))
            st.arrays.append((path + "<base>", b))
        return
    if isinstance(obj, (list, tuple)):
        if i in seen:
            return
        seen.add(i)
        if not in_obj:
            st.containers.append((path, obj))
        if len(obj) > 2000:
            return
        for k, e in enumerate(obj):
            _walk(e, f"{path}[{k}]", st, seen, in_obj, depth + 1)
        return
    if isinstance(obj, dict):
        if i in seen:
            return
        seen.add(i)
        if not in_obj:
            st.containers.append((path, obj))
        for k, e in obj.items():
            _walk(e, f"{path}[{k!r}]", st, seen, in_obj, depth + 1)
        return
    if isinstance(obj, _CBWrapper):
        return
    if _is_lib_obj(obj) and hasattr(obj, "__dict__"):
        if i in seen:
            return
        seen.add(i)
        for k, e in vars(obj).items():
            _walk(e, f"{path}.{k}", st, seen, True, depth + 1)


def _struct(obj, depth=0):
    """Structural snapshot of a container (arrays by identity: their bytes are tracked apart)."""
    if isinstance(obj, np.ndarray):
        return ("ndarray", id(obj))
    if isinstance(obj, list):
        return ("list", [_struct(e, depth + 1) for e in obj]) if depth < 8 else ("list", len(obj))
    if isinstance(obj, tuple):
        return ("tuple", [_struct(e, depth + 1) for e in obj]) if depth < 8 else ("tuple", len(obj))
    if isinstance(obj, dict):
        return ("dict", [(str(k), _struct(v, depth + 1)) for k, v in obj.items()])
    if isinstance(obj, (int, float, complex, bool, str, bytes, type(None), np.generic)):
        return ("val", type(obj).__name__, repr(obj))
    return ("obj", id(obj))


def _struct_diff(a, b, path):
    if a == b:
        return None
    if a[0] != b[0]:
        return path, a, b
    if a[0] in ("list", "tuple") and isinstance(a[1], list):
        if len(a[1]) != len(b[1]):
            return path, f"len {len(a[1])}", f"len {len(b[1])}"
        for k, (x, y) in enumerate(zip(a[1], b[1])):
            d = _struct_diff(x, y, f"{path}[{k}]")
            if d:
                return d
    if a[0] == "dict":
        ka, kb = [k for k, _ in a[1]], [k for k, _ in b[1]]
        if ka != kb:
            return path, f"keys {ka}", f"keys {kb}"
        for (k, x), (_, y) in zip(a[1], b[1]):
            d = _struct_diff(x, y, f"{path}[{k}]")
            if d:
                return d
    return path, a, b


def _short(x, n=160):
    s = x if isinstance(x, str) else repr(x)
    return s if len(s) <= n else s[:n] + "..."


def _array_diff(arr: np.ndarray, snap):
    """-> None or dict(index, before, after)."""
    shape, dtype, data = snap
    if arr.shape != shape or arr.dtype != dtype:
        return {"index": None, "before": f"shape {shape} dtype {dtype}",
                "after": f"shape {arr.shape} dtype {arr.dtype}"}
    now = arr.tobytes()
    if now == data:
        return None
    b1 = np.frombuffer(data, dtype=np.uint8)
    b2 = np.frombuffer(now, dtype=np.uint8)
    first = int(np.argmax(b1 != b2)) // max(1, dtype.itemsize)
    before = np.frombuffer(data, dtype=dtype)
    idx = [int(v) for v in np.unravel_index(first, shape)] if shape else []
    try:
        after = arr.reshape(-1)[first] if arr.ndim else arr[()]
    except Exception:
        after = np.frombuffer(now, dtype=dtype)[first]
    ndiff = int(np.count_nonzero(before != np.frombuffer(now, dtype=dtype))) if dtype.kind in "iufb" else None
    return {"index": idx, "before": before[first].item() if dtype.kind in "iufbc" else repr(before[first]),
            "after": after.item() if hasattr(after, "item") else repr(after), "n_changed": ndiff}


def _snap(arr: np.ndarray):
    return (arr.shape, arr.dtype, arr.tobytes())


def _protect(arr: np.ndarray, st: _State):
    chain = []
    a = arr
    while isinstance(a, np.ndarray):
        chain.append(a)
        a = a.base
    for a in reversed(chain):  # bases first
        st.flag_log.append((a, bool(a.flags.writeable)))
        try:
            a.flags.writeable = False
        except ValueError:
            pass


def _unprotect(st: _State):
    # restore in the order recorded (bases were recorded before their views)
    done = set()
    for a, w in st.flag_log:
        if id(a) in done:
            continue
        done.add(id(a))
        if w:
            try:
                a.flags.writeable = True
            except ValueError:
                pass
    st.flag_log = []


# ----------------------------------------------------------------------------
# callbacks
# ----------------------------------------------------------------------------
class _CBWrapper:
    def __init__(self, fn, path, st: _State):
        self.fn = fn
        self.path = path
        self.st = st

    def _record(self, r):
        st = self.st
        if isinstance(r, np.ndarray):
            if st.protect_cb:
                _protect(r, st)
            if len(st.cb_records) < 200000:
                st.cb_records.append((self.path, r, _snap(r)))
        elif isinstance(r, (list, tuple)):
            for e in r:
                self._record(e)

    def __call__(self, *args, **kw):
        st = self.st
        st.cb_calls += 1
        real = self.fn(*args, **kw)
        out = real
        if isinstance(real, np.ndarray) and st.pattern == "cb-identity":
            cands = [a for a in list(args) + list(kw.values()) if isinstance(a, np.ndarray)]
            chosen = None
            for a in cands:  # the very object when shapes allow
                if a.shape == real.shape and a.dtype == real.dtype:
                    chosen = a
                    break
            if chosen is None:
                for a in cands:  # else a view of it
                    if a.dtype == real.dtype and a.size >= real.size and real.size > 0:
                        try:
                            v = a.reshape(-1)[: real.size].reshape(real.shape)
                        except Exception:
                            continue
                        if np.shares_memory(v, a):
                            chosen = v
                            break
            if chosen is not None:
                out = chosen
        elif st.pattern == "cb-kind" and isinstance(real, (np.ndarray, float, int, np.floating, np.integer)) \
                and not isinstance(real, (bool, np.bool_)):
            kinds = {"float32": [np.float32], "complex": [np.complex128], "longdouble": [np.longdouble], "int": [np.int64],
                     "alternating": [np.float64, np.float32, np.complex128, np.longdouble, np.complex64]}[st.sub]
            t = kinds[st.cb_calls % len(kinds)]
            with np.errstate(all="ignore"):
                if isinstance(real, np.ndarray):
                    out = (np.rint(real) if t is np.int64 else real).astype(t)
                    if out.dtype.kind == "c":
                        out += t(1e-3j)      # a genuinely complex value (its imaginary part must survive)
                else:
                    out = t(np.rint(real)) if t is np.int64 else t(real)
                    if isinstance(out, np.complexfloating):
                        out = out + t(1e-3j)
                    if st.sub == "alternating" and st.cb_calls % 2:
                        out = np.array(out)   # 0-d array
        elif isinstance(real, np.ndarray) and st.pattern == "cb-view" and real.dtype.kind in "fiuc":
            key = (self.path, real.shape, real.dtype.str)
            if key not in st.cb_cache:
                table = np.full((3,) + real.shape, 7, dtype=real.dtype)
                st.cb_cache[key] = table
                if len(st.cb_records) < 200000:
                    st.cb_bases.append((self.path, table))
            table = st.cb_cache[key]
            table[1] = real            # the caller's own code refreshes its buffer
            st.cb_base_snaps[id(table)] = _snap(table)
            out = table[1]
        elif isinstance(real, np.ndarray) and st.pattern == "cb-cached":
            key = (self.path, real.shape, real.dtype.str)
            if key not in st.cb_cache:
                st.cb_cache[key] = np.array(real)
            out = st.cb_cache[key]
        self._record(out)
        return out


def _subst(obj, path, st: _State, depth=0):
    """Replace CB / RO markers (lists and dicts in place, tuples rebuilt)."""
    if isinstance(obj, CB):
        st.callbacks.append(path)
        return _CBWrapper(obj.fn, path, st)
    if isinstance(obj, RO):
        st.always_ro.append(obj.arr)
        return obj.arr
    if depth > 6:
        return obj
    if isinstance(obj, list):
        for k in range(len(obj)):
            obj[k] = _subst(obj[k], f"{path}[{k}]", st, depth + 1)
        return obj
    if isinstance(obj, tuple):
        new = tuple(_subst(e, f"{path}[{k}]", st, depth + 1) for k, e in enumerate(obj))
        return new if any(a is not b for a, b in zip(new, obj)) else obj
    if isinstance(obj, dict):
        for k in list(obj.keys()):
            obj[k] = _subst(obj[k], f"{path}[{k!r}]" if depth else str(k), st, depth + 1)
        return obj
    return obj


# ----------------------------------------------------------------------------
# aliasing
# ----------------------------------------------------------------------------
def _slots(obj, path, out, depth=0):
    """(parent, key, value, path) of arrays / library objects in mutable parents."""
    if depth > 4:
        return
    if isinstance(obj, dict):
        items = list(obj.items())
    elif isinstance(obj, list):
        items = list(enumerate(obj))
    else:
        return
    for k, v in items:
        p = f"{path}[{k!r}]" if path else str(k)
        if isinstance(v, np.ndarray) or (_is_lib_obj(v) and hasattr(v, "__dict__")):
            out.append((obj, k, v, p))
        elif isinstance(v, (dict, list)):
            _slots(v, p, out, depth + 1)


def _apply_alias(kwargs, st: _State):
    slots = []
    _slots(kwargs, "", slots)
    ro_ids = {id(a) for a in st.always_ro}
    groups = {}
    for parent, k, v, p in slots:
        if id(v) in ro_ids:
            continue
        if isinstance(v, np.ndarray):
            if v.size == 0:
                continue
            key = ("arr", v.shape, v.dtype.str)
        else:
            size = getattr(v, "size", None)
            try:
                size = int(size)
            except Exception:
                size = None
            key = ("obj", type(v).__name__, size)
        groups.setdefault(key, []).append((parent, k, v, p))
    for key, members in groups.items():
        # distinct objects only
        uniq = []
        for m in members:
            if all(m[2] is not u[2] for u in uniq):
                uniq.append(m)
        if len(uniq) < 2:
            continue
        if key[0] == "obj" or st.sub == "same":
            first = uniq[0][2]
            for parent, k, v, p in uniq[1:]:
                parent[k] = first
            st.aliased.append(f"{'='.join(m[3] for m in uniq)} (same object)")
        else:  # overlapping views of one buffer
            (pa, ka, va, ppa), (pb, kb, vb, ppb) = uniq[0], uniq[1]
            n = va.size
            step = max(1, va.shape[-1] // 2) if va.ndim else 1
            buf = np.empty(n + step, dtype=va.dtype)
            buf[:n] = va.reshape(-1)
            buf[n:] = vb.reshape(-1)[-step:]
            pa[ka] = buf[:n].reshape(va.shape)
            pb[kb] = buf[step:step + n].reshape(va.shape)
            st.aliased.append(f"{ppa}~{ppb} (overlapping views, offset {step})")


# ----------------------------------------------------------------------------
# views into larger caller buffers
# ----------------------------------------------------------------------------
def _numseq(v, depth=0):
    """Is `v` a non-empty flat or rectangular list/tuple of real numbers (no bools)? -> dtype or None"""
    if not isinstance(v, (list, tuple)) or not v or depth > 2:
        return None
    if all(isinstance(e, (int, float, np.integer, np.floating)) and not isinstance(e, (bool, np.bool_)) for e in v):
        return np.dtype(np.int64) if all(isinstance(e, (int, np.integer)) for e in v) else np.dtype(np.float64)
    ds = [_numseq(e, depth + 1) for e in v]
    if all(d is not None for d in ds) and len({len(e) for e in v}) == 1:
        return np.dtype(np.float64) if any(d == np.float64 for d in ds) else np.dtype(np.int64)
    return None


def _as_view(a: np.ndarray, sub: str, rng_byte: int):
    """-> (view equal to `a`, its buffer); the buffer's other cells hold a recognisable filler."""
    fill = np.array(rng_byte + 3).astype(a.dtype) if a.dtype.kind in "iuf" else np.zeros((), a.dtype)
    if sub == "row" or a.ndim == 0:
        buf = np.empty((3,) + a.shape, dtype=a.dtype)
        buf[...] = fill
        buf[1] = a
        return buf[1], buf
    buf = np.empty(a.shape[:-1] + (2 * a.shape[-1] + 1,), dtype=a.dtype)
    buf[...] = fill
    buf[..., 1::2] = a
    return buf[..., 1::2], buf


def _apply_view(kwargs, st: _State):
    ro_ids = {id(a) for a in st.always_ro}
    with_lists = st.sub != "row"
    kind = "row" if st.sub == "row" else "strided"

    def visit(parent, items, path, depth):
        for k, v in items:
            p = f"{path}[{k!r}]" if path else str(k)
            if id(v) in ro_ids:
                continue
            if isinstance(v, np.ndarray) and v.dtype.kind in "iufcb" and v.size > 0:
                view, _buf = _as_view(v, kind, len(st.converted))
                parent[k] = view
                st.converted.append(f"{p}: {kind} view of a {list(_buf.shape)} buffer")
            elif with_lists and _numseq(v) is not None:
                view, _buf = _as_view(np.array(v, dtype=_numseq(v)), "row", len(st.converted))
                parent[k] = view
                st.converted.append(f"{p}: {type(v).__name__} -> row view of a {list(_buf.shape)} buffer")
            elif depth < 3 and isinstance(v, dict):
                visit(v, list(v.items()), p, depth + 1)
            elif depth < 3 and isinstance(v, list):
                visit(v, list(enumerate(v)), p, depth + 1)

    visit(kwargs, list(kwargs.items()), "", 0)


# ----------------------------------------------------------------------------
# integer sequences: list / int-array kinds
# ----------------------------------------------------------------------------
def _is_pyint(x) -> bool:
    return isinstance(x, (int, np.integer)) and not isinstance(x, (bool, np.bool_))


def _intseq_depth(v, depth=0):
    """Nesting depth (1 = flat) of a non-empty list/tuple all of whose leaves are ints, or of an
    integer ndarray; 0 if `v` is not a sequence of integers."""
    if isinstance(v, np.ndarray):
        return v.ndim if (v.dtype.kind in "iu" and v.ndim >= 1 and v.size > 0) else 0
    if isinstance(v, (list, tuple)) and len(v) > 0 and depth < 4:
        if all(_is_pyint(e) for e in v):
            return 1
        ds = [_intseq_depth(e, depth + 1) for e in v]
        if all(d > 0 for d in ds):
            return 1 + max(ds)
    return 0


def _to_pylist(v):
    if isinstance(v, np.ndarray):
        return v.tolist()
    if isinstance(v, (list, tuple)):
        return [_to_pylist(e) for e in v]
    return int(v)


def _rectangular(v) -> bool:
    try:
        a = np.array(_to_pylist(v))
    except ValueError:
        return False
    return a.dtype.kind in "iu"


def _to_intarrays(v, dtype, outermost: bool):
    """Lists/tuples of ints -> integer arrays: the outermost rectangular level (`outermost`) or
    only the innermost flat lists (the enclosing lists stay lists)."""
    if isinstance(v, np.ndarray):
        return v if v.dtype == dtype else v.astype(dtype)
    if all(_is_pyint(e) for e in v) or (outermost and _rectangular(v)):
        return np.array(_to_pylist(v), dtype=dtype)
    return [_to_intarrays(e, dtype, outermost) for e in v]


def _changed_kind(a, b) -> bool:
    if type(a) is not type(b):
        return True
    if isinstance(a, np.ndarray):
        return a.dtype != b.dtype
    if isinstance(a, list):
        return any(_changed_kind(x, y) for x, y in zip(a, b))
    return False


def _apply_intseq(kwargs, st: _State):
    """Re-type sequences of integers among the arguments (see the patterns `list` and `int-array`
    in the module docstring): all of them, or — sub-case `<kind>@<i>` — only the i-th one (an API
    that rejects one of them in that form must not hide what happens to the others).  Records what
    was converted in st.converted and the number of integer sequences in st.nslots."""
    ro_ids = {id(a) for a in st.always_ro}
    kind, _, only = st.sub.partition("@")
    only = int(only) if only else None
    st.nslots = 0

    def visit(parent, items, path, depth):
        for k, v in items:
            p = f"{path}[{k!r}]" if path else str(k)
            if id(v) in ro_ids or isinstance(v, (str, bytes)):
                continue
            d = _intseq_depth(v)
            if d:
                slot = st.nslots
                st.nslots += 1
                if only is not None and slot != only:
                    continue
                if st.pattern == "list":
                    new = _to_pylist(v)
                elif kind == "int32":
                    new = _to_intarrays(v, np.dtype(np.int32), outermost=False)
                else:
                    new = _to_intarrays(v, np.dtype(np.int64), outermost=True)
                if new is not v and _changed_kind(v, new):
                    parent[k] = new
                    st.converted.append(f"{p}: {_kind_txt(v)} -> {_kind_txt(new)}")
                continue
            if depth < 3:
                if isinstance(v, dict):
                    visit(v, list(v.items()), p, depth + 1)
                elif isinstance(v, list):
                    visit(v, list(enumerate(v)), p, depth + 1)

    visit(kwargs, list(kwargs.items()), "", 0)


def _kind_txt(v) -> str:
    if isinstance(v, np.ndarray):
        return f"{v.dtype.str.lstrip('<|=')}{list(v.shape)}"
    if isinstance(v, (list, tuple)):
        inner = {_kind_txt(e) for e in v}
        return f"{type(v).__name__}[{len(v)}] of {'/'.join(sorted(inner))}"
    return type(v).__name__


# ----------------------------------------------------------------------------
# memory layout / dtype kinds, unacceptable arguments, answers of repeated calls
# ----------------------------------------------------------------------------
def _array_slots(kwargs, st: _State):
    slots = []
    _slots(kwargs, "", slots)
    ro_ids = {id(a) for a in st.always_ro}
    return [(parent, k, v, p) for parent, k, v, p in slots if isinstance(v, np.ndarray) and id(v) not in ro_ids]


def _apply_kind(kwargs, st: _State):
    for parent, k, v, p in _array_slots(kwargs, st):
        if v.size == 0:
            continue
        if st.sub in ("float32", "float16", "longdouble", "int"):
            if v.dtype != np.float64:
                continue
            with np.errstate(all="ignore"):
                parent[k] = (np.rint(v * 8).astype(np.int64) if st.sub == "int"
                             else v.astype({"float32": np.float32, "float16": np.float16, "longdouble": np.longdouble}[st.sub]))
            st.converted.append(f"{p}: {st.sub}")
        elif v.ndim == 1:
            buf = v[::-1].copy()
            parent[k] = buf[::-1]
            st.converted.append(f"{p}: negative stride")
        elif v.ndim >= 2:
            buf = np.asfortranarray(v[::-1])
            parent[k] = buf[::-1]
            st.converted.append(f"{p}: Fortran order, first axis reversed")


def _apply_bad(kwargs, st: _State, seed: int):
    slots = [x for x in _array_slots(kwargs, st) if x[2].ndim >= 1 and x[2].shape[0] >= 2
             and (st.sub == "truncate" or x[2].dtype.kind == "f")]
    if not slots:
        return
    parent, k, v, p = slots[seed % len(slots)]
    if st.sub == "truncate":
        parent[k] = np.array(v[:-1])
        st.converted.append(f"{p}: last element / row dropped")
    else:
        w = np.array(v)
        w.reshape(-1)[(seed // 7) % w.size] = np.nan
        parent[k] = w
        st.converted.append(f"{p}: one NaN")


def _same(a, b, depth=0) -> bool:
    """Do two answers agree (exactly, or to 1e-9 relative)?  Objects it cannot compare agree."""
    try:
        if depth > 6:
            return True
        if isinstance(a, np.ndarray) or isinstance(b, np.ndarray):
            a, b = np.asarray(a), np.asarray(b)
            if a.shape != b.shape:
                return False
            if a.dtype.kind in "OUSV" or b.dtype.kind in "OUSV":
                return True
            if np.array_equal(a, b, equal_nan=True):
                return True
            with np.errstate(all="ignore"):
                scale = max(float(np.nanmax(np.abs(a[np.isfinite(a)]))) if np.isfinite(a).any() else 0.0, 1e-300)
                return bool(np.allclose(a, b, rtol=1e-9, atol=1e-9 * scale, equal_nan=True))
        if isinstance(a, (bool, np.bool_, str, bytes, type(None))):
            return a == b
        if isinstance(a, (int, float, complex, np.generic)) and isinstance(b, (int, float, complex, np.generic)):
            return _same(np.asarray(a), np.asarray(b), depth + 1)
        if isinstance(a, (list, tuple)) and isinstance(b, (list, tuple)):
            return len(a) == len(b) and all(_same(x, y, depth + 1) for x, y in zip(a, b))
        if isinstance(a, dict) and isinstance(b, dict):
            return list(a) == list(b) and all(_same(a[k], b[k], depth + 1) for k in a)
        if _is_lib_obj(a) and _is_lib_obj(b) and type(a) is type(b):
            for name in ("points", "weights", "indices", "degrees", "center", "atcoords", "aim_weights"):
                if hasattr(a, name) and not _same(getattr(a, name, None), getattr(b, name, None), depth + 1):
                    return False
        return True
    except Exception:  # noqa: BLE001 - the comparator never decides by crashing
        return True


# ----------------------------------------------------------------------------
# one case
# ----------------------------------------------------------------------------
class _Timeout(Exception):
    pass


def _alarm(signum, frame):
    raise _Timeout("case exceeded its time limit")


def _rng_for(entry_id: str, seed: int):
    return np.random.default_rng([zlib.crc32(entry_id.encode()), seed % LEVEL_BASE, seed // LEVEL_BASE])


def _lib_frame(tb) -> str:
    last = ""
    for fr in traceback.extract_tb(tb):
        if "/grid/" in fr.filename and "/harness/" not in fr.filename:
            last = f"{fr.filename.split('/grid/')[-1]}:{fr.lineno} in {fr.name}: {fr.line}"
    return last


def _execute(ent: Entry, pattern: str, seed: int, sub: str = "same", protect: bool = True,
             limit: float = 60.0, audit=None):
    """-> dict(applicable, violations, sig, exc, nontrivial, readonly_exc)"""
    level = seed // LEVEL_BASE
    rng = _rng_for(ent.id, seed)
    np.random.seed(int(rng.integers(0, 2**31 - 1)))
    st = _State(pattern, sub)
    call, kwargs = ent.build(rng, level)
    kwargs = _subst(dict(kwargs), "", st)
    has_cb = bool(st.callbacks)
    res = {"applicable": True, "violations": [], "sig": [], "exc": None, "nontrivial": False,
           "readonly_exc": None, "aliased": [], "cb_calls": 0, "nslots": 0}
    if pattern in ("cb-identity", "cb-cached", "cb-kind", "cb-view") and not has_cb:
        res["applicable"] = False
        return res
    if pattern in ("kind", "raises"):
        if pattern == "kind":
            _apply_kind(kwargs, st)
        else:
            _apply_bad(kwargs, st, seed % LEVEL_BASE)
        if not st.converted:
            res["applicable"] = False
            return res
        res["aliased"] = list(st.converted)
    reference = None
    if pattern in ("repeat", "edit"):
        # the answer on pristine, separately built arguments (same generator state)
        rng0 = _rng_for(ent.id, seed)
        np_seed = int(rng0.integers(0, 2**31 - 1))
        call0, kwargs0 = ent.build(rng0, level)
        st0 = _State("rw", "same")
        kwargs0 = _subst(dict(kwargs0), "", st0)
        if sub in ("float32", "longdouble"):
            # extended / reduced precision arguments given directly: same objects, several calls
            for kw_, ro_ in ((kwargs, st.always_ro), (kwargs0, st0.always_ro)):
                st_k2 = _State("kind", sub)
                st_k2.always_ro = ro_
                _apply_kind(kw_, st_k2)
                if kw_ is kwargs:
                    st.converted = list(st_k2.converted)
            if not st.converted:
                res["applicable"] = False
                return res
            res["aliased"] = list(st.converted)

        def _edit(kw_):
            n_ = 0
            for _par, _k, v_, _p in _array_slots(kw_, st if kw_ is kwargs else st0):
                if v_.dtype.kind == "f" and v_.flags.writeable and v_.size:
                    v_ *= v_.dtype.type(0.875)
                    n_ += 1
            return n_
    if pattern == "alias":
        _apply_alias(kwargs, st)
        if not st.aliased:
            res["applicable"] = False
            return res
        res["aliased"] = list(st.aliased)
    if pattern == "view":
        _apply_view(kwargs, st)
        if not st.converted:
            res["applicable"] = False
            return res
        res["aliased"] = list(st.converted)
    if pattern in ("list", "int-array"):
        _apply_intseq(kwargs, st)
        res["nslots"] = st.nslots
        if not st.converted:
            res["applicable"] = False
            return res
        res["aliased"] = list(st.converted)
    _walk(kwargs, "", st, set())
    # paths start with "[<name>]" from the dict walk; tidy
    st.arrays = [(_tidy(p), a) for p, a in st.arrays]
    st.containers = [(_tidy(p), c) for p, c in st.containers if c is not kwargs]
    res["nontrivial"] = bool(st.arrays or st.containers or has_cb)
    sig = [f"{p}:{a.dtype.str.lstrip('<|=')}{list(a.shape)}" for p, a in st.arrays if "." not in p]
    sig += [f"{p}:{type(c).__name__}[{len(c)}]" for p, c in st.containers]
    sig += [f"{p}:cb" for p in st.callbacks]
    sig += [f"{p}:obj" for p in sorted({q.split('.')[0] for q, _ in st.arrays if "." in q})]
    res["sig"] = sorted(sig)

    snaps = [_snap(a) for _, a in st.arrays]
    csnaps = [_struct(c) for _, c in st.containers]
    if protect:
        for a in st.always_ro:
            _protect(a, st)
        if pattern == "ro":
            st.protect_cb = True
            for _, a in st.arrays:
                _protect(a, st)
        if pattern == "int-array" and not sub.startswith("int32"):
            for _, a in st.arrays:
                if a.dtype.kind in "iu":
                    _protect(a, st)
    exc = None
    tb_txt = ""
    old = None
    use_alarm = hasattr(signal, "setitimer")
    try:
        if use_alarm:
            try:
                old = signal.signal(signal.SIGVTALRM, _alarm)
                signal.setitimer(signal.ITIMER_VIRTUAL, limit)
            except ValueError:
                use_alarm = False
        with warnings.catch_warnings():
            warnings.simplefilter("ignore")
            with np.errstate(all="ignore"):
                if pattern == "edit":
                    def answer(c, kw):
                        np.random.seed(np_seed)
                        try:
                            return ("ok", c(**kw))
                        except (KeyboardInterrupt, _Timeout):
                            raise
                        except BaseException as e_:  # noqa: BLE001
                            return ("raised", type(e_).__name__)
                    answer(call, kwargs)                       # first request: whatever the library remembers now
                    if not _edit(kwargs):
                        res["applicable"] = False
                    else:
                        _edit(kwargs0)
                        snaps = [_snap(a) for _, a in st.arrays]     # the edited contents are the reference from here on
                        reference = answer(call0, kwargs0)
                        got = answer(call, kwargs)
                        if got[0] != reference[0] or (got[0] == "raised" and got[1] != reference[1]) \
                                or (got[0] == "ok" and not _same(reference[1], got[1])):
                            res["violations"].append({
                                "argname": "edit", "object": "answer after the argument arrays were edited in place between two calls",
                                "kind": "repeat-mismatch", "index": None,
                                "before": _short(reference[1], 200), "after": _short(got[1], 200)})
                elif pattern == "repeat":
                    def answer(c, kw):
                        np.random.seed(np_seed)
                        try:
                            return ("ok", c(**kw))
                        except (KeyboardInterrupt, _Timeout):
                            raise
                        except BaseException as e_:  # noqa: BLE001
                            return ("raised", type(e_).__name__)
                    reference = answer(call0, kwargs0)
                    for rep in ((1,) if (_QUICK and ent.module in ("poisson", "robust_poisson")) else (1, 2, 3)):
                        got = answer(call, kwargs)
                        if got[0] != reference[0] or (got[0] == "raised" and got[1] != reference[1]) \
                                or (got[0] == "ok" and not _same(reference[1], got[1])):
                            res["violations"].append({
                                "argname": "repeat", "object": f"answer of call {rep} of 3 with the same argument objects",
                                "kind": "repeat-mismatch", "index": None,
                                "before": _short(reference[1], 200), "after": _short(got[1], 200)})
                            break
                elif audit is None:
                    call(**kwargs)
                else:
                    audit.watch(call, kwargs, st, ent, pattern)
    except KeyboardInterrupt:
        raise
    except BaseException as e:  # noqa: BLE001 - "returns (or raises)"
        exc = e
        tb_txt = _lib_frame(e.__traceback__)
    finally:
        if use_alarm:
            signal.setitimer(signal.ITIMER_VIRTUAL, 0)
            if old is not None:
                signal.signal(signal.SIGVTALRM, old)
        _unprotect(st)
    res["cb_calls"] = st.cb_calls
    if exc is not None:
        res["exc"] = f"{type(exc).__name__}: {str(exc)[:200]}" + (f" @ {tb_txt}" if tb_txt else "")
        if isinstance(exc, (ValueError, RuntimeError, TypeError)) and _RO_MSG.search(str(exc)):
            res["readonly_exc"] = {"error": f"{type(exc).__name__}: {exc}", "where": tb_txt}

    viol = res["violations"]
    if isinstance(exc, Mismatch):
        viol.append({"argname": "repeat", "object": "answers for one shared argument object", "kind": "repeat-mismatch",
                     "index": None, "before": None, "after": _short(str(exc), 300)})
    for (p, a), s in zip(st.arrays, snaps):
        try:
            d = _array_diff(a, s)
        except Exception as e_:  # noqa: BLE001 - a diff that cannot be described is still a diff
            d = None if _snap(a) == s else {"index": None, "before": "?", "after": f"changed (diff failed: {type(e_).__name__})"}
        if d:
            viol.append({"argname": p.split("[")[0].split(".")[0].replace("<base>", ""), "object": p, "kind": "array", **d})
    for (p, c), s in zip(st.containers, csnaps):
        d = _struct_diff(s, _struct(c), p)
        if d:
            viol.append({"argname": p.split("[")[0].split(".")[0], "object": d[0], "kind": type(c).__name__,
                         "index": None, "before": _short(d[1]), "after": _short(d[2])})
    for p, table in st.cb_bases:
        d = _array_diff(table, st.cb_base_snaps[id(table)])
        if d:
            viol.append({"argname": "callback-result", "object": f"caller table a row of which callback {p} returned",
                         "kind": "callback-result", **d})
    seen_cb = set()
    for p, a, s in (st.cb_records if pattern != "cb-view" else []):
        d = _array_diff(a, s)
        if d:
            k = p  # one report per callback and case
            if k in seen_cb:
                continue
            seen_cb.add(k)
            viol.append({"argname": "callback-result", "object": f"result of callback {p}"
                         + (" (cached array)" if pattern == "cb-cached" else
                            " (its own argument)" if pattern == "cb-identity" else ""),
                         "kind": "callback-result", **d})
            if len(seen_cb) >= 3:
                break
    return res


def _tidy(p: str) -> str:
    # "['x'][0].attr" -> "x[0].attr"
    m = re.match(r"^\['([^']+)'\](.*)$", p)
    return (m.group(1) + m.group(2)) if m else p


def _subs(pattern, ent):
    if pattern == "alias":
        return ["same"] if ent.slow else ["same", "overlap"]
    if pattern == "int-array":
        return ["int64-ro", "int32"]
    if pattern == "view":
        return ["row"] if ent.slow else ["row", "strided+lists"]
    if pattern == "kind":
        return ["float32", "negstride-fortran", "longdouble", "float16", "int"]
    if pattern in ("repeat", "edit"):
        return ["plain"] if ent.slow else ["plain", "float32", "longdouble"]
    solver = ent.module in ("ode", "poisson", "robust_poisson")
    if pattern == "raises":
        return ["truncate"] if (_QUICK and solver) else ["truncate", "nan"]
    if pattern == "cb-kind":
        if ent.slow or (_QUICK and solver):
            return ["float32", "complex"]
        return ["float32", "complex", "longdouble", "int", "alternating"]
    return ["same"]


def _run_case(ent: Entry, pattern: str, seed: int, limit: float = 60.0):
    """Run all sub-cases of (entry, pattern, seed). -> (applicable, violations, info)"""
    info = {"sig": [], "exc": None, "nontrivial": False, "aliased": []}
    violations = []
    applicable = False
    subs = list(_subs(pattern, ent))
    thin = _QUICK and (zlib.crc32(ent.id.encode()) + seed) % 2 == 1   # quick budget: every other entry gets the short list
    if _QUICK and pattern in ("view", "kind", "repeat", "edit") and len(subs) > 1:
        subs = [subs[(zlib.crc32(ent.id.encode()) + seed) % len(subs)]]
    if pattern == "raises":
        limit = min(limit, 0.75)    # a NaN can keep an adaptive solver busy for ever: the interruption is the "exception"
    if pattern == "cb-kind":
        limit = min(limit, 1.5 if _QUICK else 3.0)     # a solver fed with rounded / complex right-hand sides may not converge
    for sub in subs:
        r = _execute(ent, pattern, seed, sub, True, limit)
        if pattern in ("list", "int-array") and "@" not in sub and sub == subs[0] and 1 < r["nslots"] and not ent.slow and not thin:
            # several integer sequences: also one at a time (alternating the array kind)
            for i in range(min(r["nslots"], 4)):
                subs.append(f"same@{i}" if pattern == "list" else f"{('int64-ro', 'int32')[(i + seed) % 2]}@{i}")
        if not r["applicable"]:
            continue
        applicable = True
        if not info["sig"]:
            info["sig"] = r["sig"]
        info["nontrivial"] = info["nontrivial"] or r["nontrivial"]
        info["aliased"] += r["aliased"]
        if r["exc"]:
            info["exc"] = r["exc"]
        vs = list(r["violations"])
        if r["readonly_exc"]:
            # locate the object: same case without write protection
            r2 = _execute(ent, pattern, seed, sub, False, limit)
            located = r2["violations"]
            if located:
                for v in located:
                    v = dict(v)
                    v["readonly_error"] = r["readonly_exc"]
                    vs.append(v)
            else:
                vs.append({"argname": "read-only-input", "object": "a write-protected caller array",
                           "kind": "readonly-exception", "index": None, "before": None, "after": None,
                           "readonly_error": r["readonly_exc"]})
        uniq, seen_obj = [], set()
        for v in vs:
            if v["object"] in seen_obj:
                continue
            seen_obj.add(v["object"])
            uniq.append(v)
        vs = uniq
        for v in vs:
            v["sub"] = sub
            if r["aliased"]:
                v["aliasing"] = r["aliased"]
        violations += vs
    return applicable, violations, info


def _snippet(ent: Entry, pattern: str, seed: int) -> str:
    return ("import sys; sys.path.insert(0, '/verif'); from harness.props import c20_registry as r; "
            f"r.replay({ent.id!r}, {pattern!r}, {seed})")


def _what(ent, pattern, v) -> str:
    if v.get("kind") == "readonly-exception":
        s = f"{ent.name} ({pattern}): in-place write attempted on {v['object']}"
    else:
        s = f"{ent.name} ({pattern}): {v['object']} changed"
    if v.get("index") is not None:
        s += f" at index {v['index']}: {v.get('before')!r} -> {v.get('after')!r}"
    elif v.get("before") is not None:
        s += f": {v.get('before')} -> {v.get('after')}"
    elif v.get("after") is not None:
        s += f": {v.get('after')}"
    if v.get("readonly_error"):
        s += f" [{v['readonly_error']['error'][:80]} @ {v['readonly_error']['where'][:120]}]"
    return s


def replay(entry_name: str, pattern: str, seed: int) -> None:
    import sys

    repo = os.environ.get("GRID_REPO")
    if repo and "grid" not in sys.modules:  # replay against a worktree, as ./check does
        sys.path.insert(0, os.path.join(repo, "src"))
    _load_entries()
    ent = next((e for e in _ENTRIES if e.id == entry_name), None)
    if ent is None:
        ent = next((e for e in _ENTRIES if e.name == entry_name), None)
    if ent is None:
        raise KeyError(f"no registry entry {entry_name!r}")
    applicable, violations, info = _run_case(ent, pattern, int(seed))
    if violations:
        raise AssertionError("caller data changed: " + "; ".join(_what(ent, pattern, v) for v in violations[:4]))


# ----------------------------------------------------------------------------
# coverage enumeration
# ----------------------------------------------------------------------------
_DUNDERS = {"__init__", "__call__", "__getitem__"}


def _public(name: str) -> bool:
    return (not name.startswith("_")) or name in _DUNDERS


def public_api():
    """-> (callables: sorted list of qualified names, n_property_getters)"""
    names, getters = set(), 0
    for m in GRID_MODULES:
        mod = importlib.import_module(f"grid.{m}")
        for n, o in vars(mod).items():
            if getattr(o, "__module__", None) != mod.__name__:
                continue
            if inspect.isfunction(o) and _public(n):
                names.add(f"{m}.{n}")
            elif inspect.isclass(o) and not n.startswith("_") and not issubclass(o, Warning):
                for attr in dir(o):
                    if not _public(attr):
                        continue
                    for klass in o.__mro__:
                        if attr in vars(klass):
                            break
                    else:
                        continue
                    km = klass.__module__
                    if not km.startswith("grid."):
                        continue
                    raw = vars(klass)[attr]
                    if getattr(raw, "__isabstractmethod__", False):
                        continue  # abstract declaration: covered through every concrete subclass
                    q = f"{km[5:]}.{klass.__name__}.{attr}"
                    if isinstance(raw, property):
                        if raw.fset is not None:
                            names.add(q)
                        else:
                            getters += 1
                    elif isinstance(raw, (staticmethod, classmethod)) or inspect.isfunction(raw):
                        names.add(q)
    return sorted(names), getters


# ----------------------------------------------------------------------------
# parameter-level audit: which parameter of which public callable receives caller-owned data
# ----------------------------------------------------------------------------
_ARRAYLIKE_DOC = re.compile(r"ndarray|array|list|dict|tuple|sequence|iterable", re.I)
_CALLABLE_DOC = re.compile(r"callable|function", re.I)


def _public_functions():
    """-> {qualified name: python function} for every name of public_api()."""
    out = {}
    for q in public_api()[0]:
        parts = q.split(".")
        mod = importlib.import_module(f"grid.{parts[0]}")
        if len(parts) == 2:
            out[q] = getattr(mod, parts[1])
            continue
        raw = vars(getattr(mod, parts[1]))[parts[2]]
        if isinstance(raw, property):
            raw = raw.fset
        elif isinstance(raw, (staticmethod, classmethod)):
            raw = raw.__func__
        out[q] = inspect.unwrap(raw)
    return out


def _doc_params(fn) -> dict:
    """numpydoc `Parameters` section -> {name: type text}."""
    doc = inspect.getdoc(fn) or ""
    m = re.search(r"^Parameters\n-+\n(.*?)(?:\n\n?[A-Z][A-Za-z ]+\n-+\n|\Z)", doc, re.S | re.M)
    out = {}
    if m:
        for line in m.group(1).splitlines():
            mm = re.match(r"^(\*{0,2}\w+(?:\s*,\s*\w+)*)\s*:\s*(.*)$", line)
            if mm and not line.startswith(" "):
                for n in mm.group(1).split(","):
                    out[n.strip().lstrip("*")] = mm.group(2)
    return out


class ParamAudit:
    """Watches every public callable while registry entries run (sys.setprofile) and records,
    per (callable, parameter): the kinds of values seen, and under which patterns an object owned
    by the caller (the very object, or an element of a caller-owned list/tuple handed over) arrived."""

    def __init__(self):
        self.funcs = _public_functions()
        self.codes = {}
        for q, f in self.funcs.items():
            self.codes.setdefault(f.__code__, q)
        self.seen = {}      # (qual, param) -> {"kinds": set, "owned": {pattern: n}, "aliased": n, "intseq": {...}}
        self.called = {}    # qual -> number of calls

    def _rec(self, q, name):
        return self.seen.setdefault((q, name), {"kinds": set(), "owned": {}, "aliased": 0, "intseq": set(),
                                                "entries": set()})

    def watch(self, call, kwargs, st, ent, pattern):
        owned = {id(a) for _, a in st.arrays} | {id(c) for _, c in st.containers}
        objs = set()
        for v in _iter_values(kwargs):
            if _is_lib_obj(v):
                objs.add(id(v))
        # ids of objects shared by two argument slots (pattern alias, sub-case `same`)
        counts = {}
        for v in _iter_values(kwargs):
            if isinstance(v, np.ndarray):
                counts[id(v)] = counts.get(id(v), 0) + 1
        shared = {i for i, c in counts.items() if c > 1}
        codes = self.codes

        def prof(frame, event, arg):
            if event != "call":
                return
            q = codes.get(frame.f_code)
            if q is None:
                return
            self.called[q] = self.called.get(q, 0) + 1
            co = frame.f_code
            n = co.co_argcount + co.co_kwonlyargcount
            names = list(co.co_varnames[:n])
            extra = n
            if co.co_flags & inspect.CO_VARARGS:
                names.append(co.co_varnames[extra])
                extra += 1
            if co.co_flags & inspect.CO_VARKEYWORDS:
                names.append(co.co_varnames[extra])
            loc = frame.f_locals
            for nm in names:
                if nm in ("self", "cls"):
                    continue
                v = loc.get(nm)
                rec = self._rec(q, nm)
                rec["kinds"].add(_value_kind(v))
                direct = id(v) in owned or id(v) in objs
                elems = []
                if isinstance(v, (list, tuple)):
                    elems = list(v)
                elif isinstance(v, dict):
                    elems = list(v.values())
                if not direct and any(id(e) in owned or id(e) in objs for e in elems):
                    direct = True
                if direct:
                    rec["owned"][pattern] = rec["owned"].get(pattern, 0) + 1
                    rec["entries"].add(ent.id)
                    if pattern == "alias" and (id(v) in shared or any(id(e) in shared for e in elems)
                                               or any("overlapping" in a for a in st.aliased)):
                        rec["aliased"] += 1
                    if _intseq_depth(v):
                        rec["intseq"].add("list" if isinstance(v, (list, tuple)) else f"array-{v.dtype.name}")

        old = sys.getprofile()
        sys.setprofile(prof)
        try:
            call(**kwargs)
        finally:
            sys.setprofile(old)

    def report(self) -> dict:
        """-> dict(parameters=[…], holes=[…]) ; a hole is a parameter that is documented as / was
        seen as an array, list, dict (or a callable) and never received a caller-owned object."""
        rows, holes = [], []
        for q, f in sorted(self.funcs.items()):
            try:
                sig = [p for p in inspect.signature(f).parameters if p not in ("self", "cls")]
            except (TypeError, ValueError):
                sig = []
            doc = _doc_params(f)
            if q.endswith(".__init__") and not doc:
                klass = q.split(".")[1]
                doc = _doc_params(getattr(importlib.import_module(f"grid.{q.split('.')[0]}"), klass))
            for nm in sig:
                rec = self.seen.get((q, nm), {"kinds": set(), "owned": {}, "aliased": 0, "intseq": set(), "entries": set()})
                dtxt = doc.get(nm, "")
                arraylike = bool(_ARRAYLIKE_DOC.search(dtxt)) or bool(rec["kinds"] & {"ndarray", "int-ndarray", "list", "tuple", "dict", "int-list", "object"})
                callable_ = bool(_CALLABLE_DOC.search(dtxt)) or "callable" in rec["kinds"]
                dint = re.sub(r"dict\[int\s*:", "dict[", dtxt, flags=re.I)
                doc_int = bool(re.search(r"\bint\b|\bints\b", dint) and _ARRAYLIKE_DOC.search(dint) and not re.search(r"float", dint))
                intseq = bool(rec["intseq"]) or doc_int
                # a plain list is demanded only where the documentation speaks of integers / lists (a coordinate
                # array that happens to hold integers need not be accepted as a list)
                wants_list = doc_int or bool(re.search(r"list|sequence|tuple", dtxt, re.I)) or "list" in rec["intseq"]
                row = {"callable": q, "param": nm, "doc": dtxt[:60], "kinds": sorted(rec["kinds"]),
                       "owned": dict(rec["owned"]), "aliased": rec["aliased"], "intseq_forms": sorted(rec["intseq"]),
                       "arraylike": arraylike, "callable_param": callable_, "intseq": intseq,
                       "calls": self.called.get(q, 0), "n_entries": len(rec["entries"])}
                rows.append(row)
                if rec["kinds"] <= {"object", "None"} and re.search(r"Transform", dtxt):
                    continue   # radial transforms hold scalars only: nothing of the caller's to modify
                if arraylike or callable_:
                    missing = []
                    if callable_ and not arraylike:
                        if "callable" not in rec["kinds"]:
                            missing.append("never-called-with-a-callable")
                    else:
                        for pat in ("rw", "ro"):
                            if not rec["owned"].get(pat):
                                missing.append(pat)
                        if intseq:
                            if wants_list and "list" not in rec["intseq"]:
                                missing.append("int-list")
                            if not any(x.startswith("array") for x in rec["intseq"]):
                                missing.append("int-array")
                    if missing:
                        holes.append({"callable": q, "param": nm, "doc": dtxt[:60], "kinds": sorted(rec["kinds"]),
                                      "missing": missing, "calls": self.called.get(q, 0)})
        return {"parameters": rows, "holes": holes}


def _iter_values(obj, depth=0):
    if depth > 4:
        return
    if isinstance(obj, dict):
        for v in obj.values():
            yield v
            yield from _iter_values(v, depth + 1)
    elif isinstance(obj, (list, tuple)):
        for v in obj:
            yield v
            yield from _iter_values(v, depth + 1)


def _value_kind(v) -> str:
    if v is None:
        return "None"
    if isinstance(v, (bool, int, float, complex, str, np.generic)):
        return "scalar"
    if isinstance(v, np.ndarray):
        if v.ndim == 0:
            return "0d-ndarray"
        return "int-ndarray" if v.dtype.kind in "iu" else "ndarray"
    if isinstance(v, (list, tuple)):
        if _intseq_depth(v):
            return "int-list"
        return type(v).__name__
    if isinstance(v, dict):
        return "dict"
    if _is_lib_obj(v):
        return "object"
    if callable(v):
        return "callable"
    return type(v).__name__


def param_audit(levels=(0,), patterns=("rw", "ro", "alias", "list", "int-array", "view", "cb-identity"), seed=0,
                include_slow=True, limit=60.0) -> dict:
    """Run every entry once per pattern under the watcher; -> ParamAudit.report()."""
    _load_entries()
    aud = ParamAudit()
    errors = {}
    for ent in _ENTRIES:
        if ent.slow and not include_slow:
            continue
        for lv in levels:
            for pattern in patterns:
                subs = list(_subs(pattern, ent)[:1])
                for sub in subs:
                    try:
                        with warnings.catch_warnings():
                            warnings.simplefilter("ignore")
                            r = _execute(ent, pattern, lv * LEVEL_BASE + seed, sub, True, limit, audit=aud)
                        if pattern in ("list", "int-array") and "@" not in sub and r["nslots"] > 1:
                            subs += [f"{sub}@{i}" for i in range(min(r["nslots"], 4))]
                    except KeyboardInterrupt:
                        raise
                    except BaseException as e:  # noqa: BLE001
                        errors[f"{ent.id}:{pattern}"] = f"{type(e).__name__}: {str(e)[:120]}"
    rep = aud.report()
    rep["errors"] = errors
    return rep


# ----------------------------------------------------------------------------
# module dependencies (for "flagged" ordering)
# ----------------------------------------------------------------------------
def _module_deps():
    from ..common import SRC

    deps = {}
    for m in GRID_MODULES:
        try:
            text = (SRC / f"{m}.py").read_text()
        except OSError:
            text = ""
        deps[m] = set(re.findall(r"from grid\.(\w+) import", text)) & set(GRID_MODULES)
    closure = {}
    for m in GRID_MODULES:
        seen, todo = set(), [m]
        while todo:
            x = todo.pop()
            for y in deps.get(x, ()):
                if y not in seen:
                    seen.add(y)
                    todo.append(y)
        closure[m] = seen
    return closure


def _priority(ent: Entry, flagged: set, closure) -> int:
    if not flagged:
        return 3
    if ent.name in flagged or any(c in flagged for c in ent.covers):
        return 0
    fmods = {f.split(".")[0] for f in flagged}
    if ent.module in fmods:
        return 1
    if closure.get(ent.module, set()) & fmods:
        return 2
    return 3


# ----------------------------------------------------------------------------
# run
# ----------------------------------------------------------------------------
_QUICK = False


def run(ctx, budget: str, flagged: set) -> None:
    global _QUICK
    _QUICK = budget == "quick"
    _load_entries()
    t0 = time.time()
    c0 = time.process_time()  # budgets in CPU seconds: the machine may be loaded
    flagged = set(flagged or ())
    closure = _module_deps()
    prio = {e.id: _priority(e, flagged, closure) for e in _ENTRIES}
    order = sorted(range(len(_ENTRIES)), key=lambda i: (prio[_ENTRIES[i].id], _ENTRIES[i].slow, i))   # cheap ones first
    if budget == "quick":
        plan = [(0, 0)]
        wall, limit = 55.0, 6.0
    elif budget == "thorough":
        plan = [(0, 0), (0, 1), (1, 0), (1, 1)]
        wall, limit = 900.0, 60.0
    else:
        # search after a broken tie: staged, cheapest and most relevant first, each stage with its own CPU budget;
        # once a stage has produced a concrete failing input the later (less relevant) stages are not run
        plan = [(lv, r) for lv in (0, 1, 2) for r in (0, 1, 2)]
        wall, limit = 420.0, 20.0
    stage_plan = {0: plan, 1: [(0, 1), (1, 0), (2, 2)], 2: [(0, 1), (1, 1)], 3: [(0, 1)]}
    stage_cap = {0: 200.0, 1: 100.0, 2: 70.0, 3: 50.0 if flagged else 300.0}   # nothing flagged: one stage, every entry once
    stage_start = {}
    reg = {
        "budget": budget, "entries": len(_ENTRIES), "entries_by_module": {},
        "cases": {p: 0 for p in PATTERNS}, "not_applicable": {p: 0 for p in PATTERNS},
        "raised": {}, "timeouts": [], "skipped": {}, "build_errors": {}, "trivial_entries": [],
        "flagged_first": sorted(e.id for e in _ENTRIES if prio[e.id] == 0),
        "entries_run": 0, "cpu_by_pattern": {}, "thinned_in_quick": 0,
    }
    for e in _ENTRIES:
        reg["entries_by_module"][e.module] = reg["entries_by_module"].get(e.module, 0) + 1
    base = (ctx.seed % 1000) * 1000
    failing = {}
    for i in order:
        ent = _ENTRIES[i]
        if ent.slow and budget == "quick" and prio[ent.id] > 1:
            reg["skipped"][ent.id] = "slow: runs in thorough/large budgets (or when its module is flagged)"
            continue
        if time.process_time() - c0 > wall:
            reg["skipped"][ent.id] = f"time budget of the {budget} run exhausted"
            continue
        if budget == "large":
            st_ = prio[ent.id]
            if st_ not in stage_start:
                stage_start[st_] = time.process_time()
                reg.setdefault("stages", {})[str(st_)] = {"entries": 0, "cpu_s": 0.0}
                if failing and st_ > 0:
                    reg["stages"][str(st_)]["not_run"] = "an earlier stage already produced a concrete failing input"
            if failing and st_ > 0 and min(stage_start, key=stage_start.get) != st_:
                reg["skipped"][ent.id] = "large budget: an earlier stage already produced a concrete failing input"
                continue
            if time.process_time() - stage_start[st_] > stage_cap[st_]:
                reg["skipped"][ent.id] = f"large budget: CPU budget of stage {st_} ({stage_cap[st_]:.0f} s) exhausted"
                continue
            plan = stage_plan[st_]
            reg["stages"][str(st_)]["entries"] += 1
            reg["stages"][str(st_)]["cpu_s"] = round(time.process_time() - stage_start[st_], 1)
        ran = False
        if failing.get(ent.name, 0) >= 3:
            reg["skipped"][ent.id] = "this entry point already has 3 violating cases in this run"
            continue
        for level, rep in plan:
            seed = level * LEVEL_BASE + base + rep
            for pattern in PATTERNS:
                if budget == "thorough" and level != rep and pattern in HEAVY_PATTERNS:
                    continue     # the expensive patterns at two of the four (level, repetition) points of the thorough plan
                if budget == "quick" and pattern not in ALWAYS_IN_QUICK \
                        and (zlib.crc32(ent.id.encode()) + ctx.seed + PATTERNS.index(pattern)) % (3 if pattern in ("edit", "repeat") else 2):
                    reg["thinned_in_quick"] += 1
                    continue
                tp = time.process_time()
                try:
                    applicable, violations, info = _run_case(ent, pattern, seed, limit)
                    reg["cpu_by_pattern"][pattern] = round(reg["cpu_by_pattern"].get(pattern, 0.0) + time.process_time() - tp, 2)
                except KeyboardInterrupt:
                    raise
                except BaseException as e:  # builder / harness problem
                    reg["build_errors"][f"{ent.id}:{pattern}:{seed}"] = (
                        f"{type(e).__name__}: {str(e)[:200]} @ {_lib_frame(e.__traceback__)[:200]}")
                    continue
                if not applicable:
                    reg["not_applicable"][pattern] += 1
                    continue
                ran = True
                reg["cases"][pattern] += 1
                ctx.count([ent.id, pattern, info["sig"]], nontrivial=info["nontrivial"],
                          tag=f"{ent.module}:{pattern}")
                if not info["nontrivial"] and ent.id not in reg["trivial_entries"]:
                    reg["trivial_entries"].append(ent.id)
                if info["exc"]:
                    reg["raised"][f"{ent.id}:{pattern}:{seed}"] = info["exc"][:300]
                    if info["exc"].startswith("_Timeout"):
                        reg["timeouts"].append(f"{ent.id}:{pattern}:{seed}")
                if violations:
                    failing[ent.name] = failing.get(ent.name, 0) + 1
                for v in violations[:3]:
                    ctx.fail(
                        "oracle",
                        key=f"{ent.name}:{v['argname'] or 'callback-result'}",
                        what=_what(ent, pattern, v),
                        witness={"entry": ent.id, "pattern": pattern, "seed": seed,
                                 "changed_object": v["object"], "kind": v["kind"],
                                 "first_differing_index": v.get("index"),
                                 "before": v.get("before"), "after": v.get("after"),
                                 "n_changed": v.get("n_changed"), "sub_case": v.get("sub"),
                                 "aliasing": v.get("aliasing"), "readonly_error": v.get("readonly_error"),
                                 "argument_signature": info["sig"], "exception": info["exc"]},
                        snippet=_snippet(ent, pattern, seed),
                    )
                if not info["nontrivial"]:
                    break  # no caller-owned object: one call is enough
        if ran:
            reg["entries_run"] += 1
    api, getters = public_api()
    covered = {e.name for e in _ENTRIES} | {c for e in _ENTRIES for c in e.covers}
    reg["public_callables"] = len(api)
    reg["property_getters_not_enumerated"] = getters
    reg["not_covered"] = [n for n in api if n not in covered]
    reg["entry_names_unknown_to_api"] = sorted(n for n in {e.name for e in _ENTRIES} if n not in api)
    if budget == "thorough" and not failing:
        # parameter-level audit: does every array / list / dict / callable parameter of every public
        # callable receive an object owned by the caller under the patterns?
        try:
            rep = param_audit(seed=base)
            reg["param_audit"] = {
                "parameters": len(rep["parameters"]),
                "arraylike": sum(r["arraylike"] for r in rep["parameters"]),
                "callable": sum(r["callable_param"] for r in rep["parameters"]),
                "integer_sequences": sum(r["intseq"] for r in rep["parameters"]),
                "integer_sequences_fed_as_list_and_array": sum(
                    1 for r in rep["parameters"] if r["intseq"] and "list" in r["intseq_forms"]
                    and any(x.startswith("array") for x in r["intseq_forms"])),
                "fed_with_caller_data": {pat: sum(1 for r in rep["parameters"] if r["owned"].get(pat))
                                         for pat in ("rw", "ro", "alias", "list", "int-array", "view")},
                "holes": [f"{h['callable']}({h['param']}): {h['missing']}" for h in rep["holes"]],
            }
            if rep["holes"]:
                ctx.info(f"C20 registry: {len(rep['holes'])} array/list/dict parameters never receive caller-owned data: "
                         + "; ".join(reg["param_audit"]["holes"][:8]))
        except KeyboardInterrupt:
            raise
        except BaseException as e:  # noqa: BLE001 - the audit is a report, not a verdict
            reg["param_audit"] = {"error": f"{type(e).__name__}: {str(e)[:200]}"}
    reg["n_raised"] = len(reg["raised"])
    reg["raised"] = dict(list(reg["raised"].items())[:60])
    reg["wall_s"] = round(time.time() - t0, 1)
    reg["cpu_s"] = round(time.process_time() - c0, 1)
    ctx.extra["registry"] = reg
    ctx.extra[f"registry_{budget}"] = {k: reg[k] for k in ("entries_run", "cases", "wall_s", "cpu_s", "n_raised")}
    if reg["build_errors"]:
        ctx.info(f"C20 registry: {len(reg['build_errors'])} cases could not be built/run: "
                 + "; ".join(f"{k}: {v}" for k, v in list(reg["build_errors"].items())[:3]))
    if reg["not_covered"]:
        ctx.info(f"C20 registry: {len(reg['not_covered'])} public callables without entry: "
                 + ", ".join(reg["not_covered"][:12]))


_LOADED = False


def _load_entries():
    global _LOADED
    if _LOADED:
        return
    _LOADED = True
    _define_entries()


# ============================================================================
# builders
# ============================================================================
def _define_entries():
    _entries_basegrid()
    _entries_angular_atomgrid()
    _entries_becke_hirshfeld_molgrid()
    _entries_cubic_periodic_ngrid()
    _entries_ode_poisson()
    _entries_coulomb_utils()
    _entries_rtransform_onedgrid()
    _entries_round3()
    _entries_round4()
    _entries_round5()


# ---- helpers ---------------------------------------------------------------
def _pts(rng, n, d=3, scale=1.0):
    if d == 0:
        return rng.uniform(-1.0, 1.0, n) * scale
    return rng.uniform(-1.0, 1.0, (n, d)) * scale


def _w(rng, n):
    return rng.uniform(0.1, 1.0, n)


def _oned(rng, n, positive=True):
    """A caller-owned OneDGrid built from plain caller arrays."""
    from grid.basegrid import OneDGrid

    if positive:
        pts = np.sort(rng.uniform(0.05, 3.0, n)) + np.arange(n) * 0.05
        return OneDGrid(pts, _w(rng, n), (0, np.inf))
    pts = np.sort(rng.uniform(-1.0, 1.0, n)) + np.arange(n) * 1e-3
    return OneDGrid(pts, _w(rng, n), (-1.5, 1.5))


def _radial(rng, n):
    """Caller-owned radial grid from a Becke transform of Gauss-Legendre, as plain arrays."""
    from grid.basegrid import OneDGrid
    from grid.onedgrid import GaussLegendre
    from grid.rtransform import BeckeRTransform

    g = BeckeRTransform(1e-4, 1.0 + float(rng.random())).transform_1d_grid(GaussLegendre(n))
    return OneDGrid(np.array(g.points), np.array(g.weights), (0, np.inf))


def _atgrid(rng, n=4, deg=3, center=None, radial=False):
    from grid.atomgrid import AtomGrid

    rg = _radial(rng, n) if radial else _oned(rng, n)
    return AtomGrid(rg, degrees=[deg], center=np.zeros(3) if center is None else center)


def _mol(rng, level, natom=2):
    """atnums, atcoords, atgrids (caller-owned objects)."""
    atnums = np.array([1, 8, 6][:natom])
    atcoords = np.array([[0.0, 0.0, -0.7], [0.0, 0.0, 0.7], [0.9, 0.3, 0.0]])[:natom] + rng.normal(0, 0.05, (natom, 3))
    atgrids = [_atgrid(rng, 4 + 2 * level, 3 if level == 0 else 5, center=atcoords[i].copy()) for i in range(natom)]
    return atnums, atcoords, atgrids


def _tmpdir():
    return tempfile.mkdtemp(prefix="gv-c20-", dir=TMP_ROOT)


# ---- basegrid ----------------------------------------------------------------
def _entries_basegrid():
    from grid.basegrid import Grid, LocalGrid, OneDGrid

    @entry("basegrid.Grid.__init__")
    def _(rng, lv):
        n = 6 + 10 * lv
        d = int(rng.choice([0, 1, 2, 3]))
        return (lambda points, weights: Grid(points, weights)), dict(points=_pts(rng, n, d), weights=_w(rng, n))

    for nv in (1, 2, 3):
        @entry("basegrid.Grid.integrate", f"{nv}-arrays", covers=["basegrid.Grid.__init__"])
        def _(rng, lv, nv=nv):
            n = 7 + 10 * lv
            kw = dict(points=_pts(rng, n), weights=_w(rng, n))
            for i in range(nv):
                kw[f"v{i}"] = rng.normal(size=n)

            def call(points, weights, **vs):
                return Grid(points, weights).integrate(*[vs[k] for k in sorted(vs)])
            return call, kw

    @entry("basegrid.Grid.integrate", "weights-as-values")
    def _(rng, lv):
        n = 9
        def call(points, weights, v):
            g = Grid(points, weights)
            return g.integrate(g.weights, v, g.points[:, 0])
        return call, dict(points=_pts(rng, n), weights=_w(rng, n), v=rng.normal(size=n))

    for d in (1, 3):
        @entry("basegrid.Grid.get_localgrid", f"{d}d")
        def _(rng, lv, d=d):
            n = 12 + 20 * lv
            pts = _pts(rng, n, d)
            if d == 1:
                pts = pts[:, 0].copy()
                center = np.array(0.1)
            else:
                center = rng.uniform(-0.3, 0.3, d)

            def call(points, weights, center, radius):
                g = Grid(points, weights)
                lg = g.get_localgrid(center, radius)
                lg2 = g.get_localgrid(center, radius * 0.5)  # cached tree
                return lg.points, lg2.indices
            return call, dict(points=pts, weights=_w(rng, n), center=center, radius=0.8)

    kinds = ["int", "npint", "slice", "intarray", "mask", "list", "negarray", "empty", "ellipsis"]

    def index_of(kind, rng, n):
        if kind == "int":
            return int(rng.integers(0, n))
        if kind == "npint":
            return np.int64(rng.integers(0, n))
        if kind == "slice":
            return slice(1, n - 1, 2)
        if kind == "intarray":
            return rng.integers(0, n, size=5)
        if kind == "mask":
            m = rng.random(n) < 0.5
            m[0] = True
            return m
        if kind == "list":
            return [0, n - 1, 2]
        if kind == "negarray":
            return -1 - rng.integers(0, n, size=4)
        if kind == "empty":
            return np.zeros(0, dtype=int)
        return Ellipsis

    for kind in kinds:
        @entry("basegrid.Grid.__getitem__", kind)
        def _(rng, lv, kind=kind):
            n = 8 + 10 * lv
            def call(points, weights, index):
                g = Grid(points, weights)[index]
                return g.points, g.weights
            return call, dict(points=_pts(rng, n), weights=_w(rng, n), index=index_of(kind, rng, n))

        @entry("basegrid.OneDGrid.__getitem__", kind)
        def _(rng, lv, kind=kind):
            n = 8 + 10 * lv
            def call(points, weights, index):
                g = OneDGrid(points, weights, (-2.0, 2.0))[index]
                return g.points, g.weights
            return call, dict(points=np.sort(rng.uniform(-1, 1, n)), weights=_w(rng, n), index=index_of(kind, rng, n))

    for tm in ("cartesian", "pure", "radial", "pure-radial"):
        for ro in (False, True):
            @entry("basegrid.Grid.moments", f"{tm}{'-orders' if ro else ''}")
            def _(rng, lv, tm=tm, ro=ro):
                n = 10 + 15 * lv
                orders = int(rng.integers(1, 3 + lv))
                def call(points, weights, centers, func_vals):
                    return Grid(points, weights).moments(orders, centers, func_vals, type_mom=tm, return_orders=ro)
                return call, dict(points=_pts(rng, n), weights=_w(rng, n),
                                  centers=rng.normal(0, 0.3, (2 + lv, 3)), func_vals=rng.normal(size=n))

    @entry("basegrid.Grid.points")
    def _(rng, lv):
        n = 8 + 5 * lv
        def call(points, weights, new_points, center):
            g = Grid(points, weights)
            g.get_localgrid(center, 0.5)
            g.points = new_points
            return g.get_localgrid(center, 0.7).points, g.integrate(g.points[:, 0])
        return call, dict(points=_pts(rng, n), weights=_w(rng, n), new_points=_pts(rng, n), center=np.zeros(3))

    @entry("basegrid.Grid.weights")
    def _(rng, lv):
        n = 8 + 5 * lv
        def call(points, weights, new_weights):
            g = Grid(points, weights)
            g.weights = new_weights
            return g.integrate(g.weights)
        return call, dict(points=_pts(rng, n), weights=_w(rng, n), new_weights=_w(rng, n))

    @entry("basegrid.Grid.save")
    def _(rng, lv):
        def call(points, weights):
            d = _tmpdir()
            try:
                Grid(points, weights).save(os.path.join(d, "g.npz"))
            finally:
                shutil.rmtree(d, ignore_errors=True)
        return call, dict(points=_pts(rng, 6), weights=_w(rng, 6))

    @entry("basegrid.LocalGrid.__init__")
    def _(rng, lv):
        n = 6 + 5 * lv
        def call(points, weights, center, indices):
            g = LocalGrid(points, weights, center, indices)
            return g.center, g.indices, g.integrate(g.weights)
        return call, dict(points=_pts(rng, n), weights=_w(rng, n), center=rng.normal(size=3), indices=np.arange(n))

    @entry("basegrid.LocalGrid.save")
    def _(rng, lv):
        def call(points, weights, center, indices):
            d = _tmpdir()
            try:
                LocalGrid(points, weights, center, indices).save(os.path.join(d, "g.npz"))
            finally:
                shutil.rmtree(d, ignore_errors=True)
        return call, dict(points=_pts(rng, 6), weights=_w(rng, 6), center=np.zeros(3), indices=np.arange(6))

    @entry("basegrid.OneDGrid.__init__")
    def _(rng, lv):
        n = 6 + 5 * lv
        def call(points, weights, domain):
            g = OneDGrid(points, weights, domain)
            return g.domain, g.integrate(g.points)
        return call, dict(points=np.sort(rng.uniform(-1, 1, n)), weights=_w(rng, n), domain=(-1.5, 1.5))

    @entry("basegrid.OneDGrid.__init__", "domain-list")
    def _(rng, lv):
        n = 6
        return (lambda points, weights, domain: OneDGrid(points, weights, domain).domain), dict(
            points=np.sort(rng.uniform(-1, 1, n)), weights=_w(rng, n), domain=[-1.5, 1.5])



# ---- angular, atomgrid -------------------------------------------------------
def _entries_angular_atomgrid():
    from grid.angular import AngularGrid
    from grid.atomgrid import AtomGrid

    @entry("angular.AngularGrid.__init__")
    def _(rng, lv):
        deg = int(rng.choice([3, 5, 7, 9]))
        def call(method, cache):
            g = AngularGrid(deg, method=method, cache=cache)
            g2 = AngularGrid(size=int(g.size), method=method, cache=cache)
            return g.points, g2.weights
        return call, dict(method=str(rng.choice(["lebedev", "spherical"])), cache=bool(rng.integers(0, 2)))

    @entry("angular.AngularGrid.__init__", "cached-arrays-stay-intact")
    def _(rng, lv):
        # the arrays of a cached grid are the caller's after construction: building the same
        # grid again must not touch them
        deg = int(rng.choice([3, 5, 7]))
        def call(first):
            g = AngularGrid(deg, cache=True)
            return g.points.sum() + first.points.sum()
        return call, dict(first=AngularGrid(deg, cache=True))

    for form in ("array", "list"):
        for method in ("lebedev", "spherical"):
            @entry("angular.AngularGrid.convert_angular_sizes_to_degrees", f"{form}-{method}")
            def _(rng, lv, form=form, method=method):
                sizes = rng.integers(4, 200 + 400 * lv, size=3 + 3 * lv)
                sizes = sizes if form == "array" else [int(s) for s in sizes]
                return (lambda sizes: AngularGrid.convert_angular_sizes_to_degrees(sizes, method)), dict(sizes=sizes)

    def ag_kwargs(rng, lv, radial=False):
        n = 4 + 3 * lv
        rgrid = _radial(rng, n) if radial else _oned(rng, n)
        degrees = [int(d) for d in rng.choice([3, 5, 7], size=n)]
        return dict(rgrid=rgrid, degrees=degrees, center=rng.normal(0, 0.3, 3))

    def ag_size(kw):
        return AtomGrid(copy.deepcopy(kw["rgrid"]), degrees=list(kw["degrees"])).size

    for form in ("degrees-list1", "degrees-list", "degrees-array", "sizes-list", "sizes-array", "no-center"):
        @entry("atomgrid.AtomGrid.__init__", form)
        def _(rng, lv, form=form):
            n = 4 + 3 * lv
            rgrid = _oned(rng, n)
            kw = dict(rgrid=rgrid)
            if form == "degrees-list1":
                kw["degrees"] = [int(rng.choice([3, 5, 7]))]
            elif form in ("degrees-list", "no-center"):
                kw["degrees"] = [int(d) for d in rng.choice([3, 5, 7, 9], size=n)]
            elif form == "degrees-array":
                kw["degrees"] = rng.choice([3, 5, 7, 9], size=n)
            elif form == "sizes-list":
                kw["degrees"] = None
                kw["sizes"] = [int(d) for d in rng.choice([6, 14, 26, 30], size=n)]
            else:
                kw["degrees"] = None
                kw["sizes"] = rng.choice([6, 14, 26, 30], size=n)
            if form != "no-center":
                kw["center"] = rng.normal(0, 0.5, 3)
            kw["rotate"] = int(rng.choice([0, 7]))

            def call(**k):
                g = AtomGrid(**k)
                return g.points, g.weights, g.degrees, g.indices, g.center
            return call, kw

    @entry("atomgrid.AtomGrid.from_preset", "default-rgrid")
    def _(rng, lv):
        atnum = int(rng.choice([1, 6, 8]))
        preset = str(rng.choice(["coarse", "medium"] if lv == 0 else ["coarse", "medium", "fine", "sg_1"]))
        return (lambda center: AtomGrid.from_preset(atnum, preset, center=center).points), dict(center=rng.normal(size=3))

    @entry("atomgrid.AtomGrid.from_preset", "given-rgrid")
    def _(rng, lv):
        atnum = int(rng.choice([1, 6, 8]))
        preset = str(rng.choice(["coarse", "medium", "sg_1"]))
        rot = int(rng.choice([0, 3]))
        return (lambda rgrid, center: AtomGrid.from_preset(atnum, preset, rgrid, center=center, rotate=rot).points), dict(
            rgrid=_radial(rng, 8 + 6 * lv), center=[0.1, 0.2, -0.3] if rng.random() < 0.5 else rng.normal(size=3))

    for form in ("lists", "arrays", "s-list", "s-array"):
        @entry("atomgrid.AtomGrid.from_pruned", form)
        def _(rng, lv, form=form):
            n = 6 + 4 * lv
            r_sectors = [0.3, 0.8, 1.5]
            d = [3, 5, 7, 5]
            s = [6, 14, 26, 14]
            kw = dict(rgrid=_oned(rng, n), radius=float(rng.uniform(0.8, 1.5)), center=rng.normal(size=3))
            if form == "lists":
                kw.update(r_sectors=r_sectors, d_sectors=d)
            elif form == "arrays":
                kw.update(r_sectors=np.array(r_sectors), d_sectors=np.array(d))
            elif form == "s-list":
                kw.update(r_sectors=r_sectors, d_sectors=None, s_sectors=s)
            else:
                kw.update(r_sectors=np.array(r_sectors), d_sectors=None, s_sectors=np.array(s))
            def call(**k):
                g = AtomGrid.from_pruned(**k)
                return g.points, g.degrees
            return call, kw

    @entry("atomgrid.AtomGrid.get_shell_grid")
    def _(rng, lv):
        kw = ag_kwargs(rng, lv)
        def call(rgrid, degrees, center):
            g = AtomGrid(rgrid, degrees=degrees, center=center)
            a = g.get_shell_grid(0)
            b = g.get_shell_grid(g.n_shells - 1, r_sq=False)
            return a.points, b.weights
        return call, kw

    for form in ("default", "points", "points-center", "center-list"):
        @entry("atomgrid.AtomGrid.convert_cartesian_to_spherical", form)
        def _(rng, lv, form=form):
            kw = ag_kwargs(rng, lv)
            if form != "default":
                kw["points"] = _pts(rng, 5 + 5 * lv)
            if form == "points-center":
                kw["new_center"] = rng.normal(size=3)
            if form == "center-list":
                kw["new_center"] = [0.1, 0.0, 0.2]
            def call(rgrid, degrees, center, points=None, new_center=None):
                return AtomGrid(rgrid, degrees=degrees, center=center).convert_cartesian_to_spherical(points, new_center)
            return call, kw

    for form in ("1d", "2d"):
        @entry("atomgrid.AtomGrid.integrate_angular_coordinates", form)
        def _(rng, lv, form=form):
            kw = ag_kwargs(rng, lv)
            n = ag_size(kw)
            kw["func_vals"] = rng.normal(size=n) if form == "1d" else rng.normal(size=(2, n))
            def call(rgrid, degrees, center, func_vals):
                return AtomGrid(rgrid, degrees=degrees, center=center).integrate_angular_coordinates(func_vals)
            return call, kw

    @entry("atomgrid.AtomGrid.spherical_average")
    def _(rng, lv):
        kw = ag_kwargs(rng, lv)
        kw["func_vals"] = rng.normal(size=ag_size(kw))
        kw["r"] = RO(rng.uniform(0.1, 2.0, 5))
        def call(rgrid, degrees, center, func_vals, r):
            s = AtomGrid(rgrid, degrees=degrees, center=center).spherical_average(func_vals)
            return s(r), s(r, 1)
        return call, kw

    @entry("atomgrid.AtomGrid.radial_component_splines")
    def _(rng, lv):
        kw = ag_kwargs(rng, lv)
        kw["func_vals"] = rng.normal(size=ag_size(kw))
        kw["r"] = RO(rng.uniform(0.1, 2.0, 5))
        def call(rgrid, degrees, center, func_vals, r):
            g = AtomGrid(rgrid, degrees=degrees, center=center)
            sp = g.radial_component_splines(func_vals)
            sp2 = g.radial_component_splines(func_vals)  # cached basis
            return [s(r) for s in sp], [s(r, 1) for s in sp2]
        return call, kw

    @entry("atomgrid.AtomGrid.interpolate")
    def _(rng, lv):
        kw = ag_kwargs(rng, lv)
        kw["func_vals"] = rng.normal(size=ag_size(kw))
        kw["pts"] = RO(_pts(rng, 4 + 3 * lv))
        def call(rgrid, degrees, center, func_vals, pts):
            f = AtomGrid(rgrid, degrees=degrees, center=center).interpolate(func_vals)
            out = [f(pts), f(pts, deriv=1), f(pts, deriv=1, deriv_spherical=True),
                   f(pts, 1, False, True), f(pts, 2, False, True)]
            return out
        return call, kw

    @entry("atomgrid.AtomGrid.interpolate", "origin-and-grid-points")
    def _(rng, lv):
        kw = ag_kwargs(rng, lv)
        kw["func_vals"] = rng.normal(size=ag_size(kw))
        c = kw["center"]
        kw["pts"] = RO(np.vstack([c, c + [0.0, 0.0, 0.5], c + [0.3, 0.0, 0.0]]))
        def call(rgrid, degrees, center, func_vals, pts):
            f = AtomGrid(rgrid, degrees=degrees, center=center).interpolate(func_vals)
            return f(pts), f(pts, deriv=1)
        return call, kw

    @entry("basegrid.Grid.get_localgrid", "atomgrid")
    def _(rng, lv):
        kw = ag_kwargs(rng, lv)
        kw["lcenter"] = kw["center"] + rng.normal(0, 0.2, 3)
        def call(rgrid, degrees, center, lcenter):
            lg = AtomGrid(rgrid, degrees=degrees, center=center).get_localgrid(lcenter, 1.0)
            return lg.points, lg.indices
        return call, kw

    @entry("basegrid.Grid.integrate", "atomgrid")
    def _(rng, lv):
        kw = ag_kwargs(rng, lv)
        n = ag_size(kw)
        kw["a"] = rng.normal(size=n)
        kw["b"] = rng.normal(size=n)
        def call(rgrid, degrees, center, a, b):
            return AtomGrid(rgrid, degrees=degrees, center=center).integrate(a, b)
        return call, kw

    @entry("basegrid.Grid.moments", "atomgrid-pure")
    def _(rng, lv):
        kw = ag_kwargs(rng, lv)
        kw["func_vals"] = rng.normal(size=ag_size(kw))
        kw["centers"] = rng.normal(0, 0.2, (2, 3))
        def call(rgrid, degrees, center, func_vals, centers):
            return AtomGrid(rgrid, degrees=degrees, center=center).moments(2, centers, func_vals, type_mom="pure")
        return call, kw

    @entry("atomgrid.AtomGrid.save")
    def _(rng, lv):
        kw = ag_kwargs(rng, 0)
        def call(rgrid, degrees, center):
            d = _tmpdir()
            try:
                AtomGrid(rgrid, degrees=degrees, center=center).save(os.path.join(d, "a.npz"))
            finally:
                shutil.rmtree(d, ignore_errors=True)
        return call, kw



# ---- becke, hirshfeld, molgrid -------------------------------------------------
def _entries_becke_hirshfeld_molgrid():
    from grid.atomgrid import AtomGrid
    from grid.becke import BeckeWeights
    from grid.hirshfeld import HirshfeldWeights
    from grid.molgrid import MolGrid

    def user_aim(points, atcoords, atnums, indices):
        return np.full(len(points), 1.0 / len(atcoords))

    def becke_args(rng, lv, natom=2):
        n = 6 + 6 * lv
        atnums = np.array([1, 8, 6][:natom])
        atcoords = np.array([[0.0, 0.0, -0.7], [0.0, 0.0, 0.7], [0.9, 0.3, 0.0]])[:natom] + rng.normal(0, 0.05, (natom, 3))
        points = _pts(rng, n * natom, scale=1.5)
        indices = np.arange(natom + 1) * n
        return dict(points=points, atcoords=atcoords, atnums=atnums), indices

    @entry("becke.BeckeWeights.__init__", "radii-dict")
    def _(rng, lv):
        def call(radii, points, atcoords, atnums, indices):
            b = BeckeWeights(radii, order=3)
            return b(points, atcoords, atnums, indices)
        kw, ind = becke_args(rng, lv)
        return call, dict(radii={1: 0.8, 8: float(rng.uniform(1.0, 1.5))}, indices=ind, **kw)

    @entry("becke.BeckeWeights.__call__")
    def _(rng, lv):
        natom = 2 + (lv > 0)
        kw, ind = becke_args(rng, lv, natom)
        return (lambda points, atcoords, atnums, indices: BeckeWeights(order=int(2 + lv))(points, atcoords, atnums, indices)), dict(indices=ind, **kw)

    for meth in ("generate_weights", "compute_weights"):
        for form in ("select-int", "select-list-ptind-list", "select-none-ptind-array", "defaults"):
            @entry(f"becke.BeckeWeights.{meth}", form)
            def _(rng, lv, meth=meth, form=form):
                kw, ind = becke_args(rng, lv)
                if form == "select-int":
                    kw.update(select=int(rng.integers(0, 2)))
                elif form == "select-list-ptind-list":
                    kw.update(select=[0, 1], pt_ind=[int(i) for i in ind])
                elif form == "select-none-ptind-array":
                    kw.update(pt_ind=ind)
                else:
                    kw["atcoords"] = kw["atcoords"][:1].copy()
                    kw["atnums"] = kw["atnums"][:1].copy()
                def call(points, atcoords, atnums, **k):
                    return getattr(BeckeWeights(), meth)(points, atcoords, atnums, **k)
                return call, kw

    @entry("becke.BeckeWeights.compute_atom_weight")
    def _(rng, lv):
        kw, ind = becke_args(rng, lv, 3 if lv else 2)
        sel = int(rng.integers(0, 2))
        return (lambda points, atcoords, atnums: BeckeWeights().compute_atom_weight(points, atcoords, atnums, sel)), kw

    @entry("hirshfeld.HirshfeldWeights.__init__")
    def _(rng, lv):
        return (lambda: HirshfeldWeights()), {}

    @entry("hirshfeld.HirshfeldWeights.__call__")
    def _(rng, lv):
        kw, ind = becke_args(rng, lv)
        return (lambda points, atcoords, atnums, indices: HirshfeldWeights()(points, atcoords, atnums, indices)), dict(indices=ind, **kw)

    @entry("hirshfeld.HirshfeldWeights.generate_proatom")
    def _(rng, lv):
        num = int(rng.choice([1, 6, 8]))
        return (lambda points, coord: HirshfeldWeights.generate_proatom(points, coord, num)), dict(
            points=_pts(rng, 8 + 8 * lv, scale=2.0), coord=rng.normal(0, 0.2, 3))

    for form in ("aim-array", "aim-callback", "aim-becke", "aim-hirshfeld", "store"):
        @entry("molgrid.MolGrid.__init__", form)
        def _(rng, lv, form=form):
            atnums, atcoords, atgrids = _mol(rng, lv, 2 + (lv > 1))
            size = sum(g.size for g in atgrids)
            if form in ("aim-array", "store"):
                aim = rng.uniform(0.1, 1.0, size)
            elif form == "aim-callback":
                aim = CB(user_aim)
            elif form == "aim-becke":
                aim = BeckeWeights()
            else:
                aim = HirshfeldWeights()
            store = form == "store"
            def call(atnums, atgrids, aim_weights):
                m = MolGrid(atnums, atgrids, aim_weights, store=store)
                return m.points, m.weights, m.aim_weights, m.atweights, m.indices, m.atcoords
            return call, dict(atnums=atnums, atgrids=atgrids, aim_weights=aim)

    for form in ("default", "rgrid", "aim-callback", "aim-array-lists"):
        @entry("molgrid.MolGrid.from_size", form)
        def _(rng, lv, form=form):
            atnums, atcoords, _g = _mol(rng, 0)
            kw = dict(atnums=atnums, atcoords=atcoords, size=int(rng.choice([6, 14, 26])))
            kw["rgrid"] = _radial(rng, 5 + 3 * lv)
            if form == "default":
                pass
            elif form == "aim-callback":
                kw["aim_weights"] = CB(user_aim)
            elif form == "aim-array-lists":
                probe = MolGrid.from_size(atnums.copy(), atcoords.copy(), kw["size"], copy.deepcopy(kw["rgrid"]))
                kw["aim_weights"] = rng.uniform(0.1, 1, probe.size)
            kw["store"] = bool(rng.integers(0, 2))
            def call(**k):
                m = MolGrid.from_size(**k)
                return m.points, m.weights
            return call, kw

    for form in ("str", "list", "dict", "rgrid-list", "rgrid-dict", "aim-callback"):
        @entry("molgrid.MolGrid.from_preset", form)
        def _(rng, lv, form=form):
            atnums, atcoords, _g = _mol(rng, 0)
            kw = dict(atnums=atnums, atcoords=atcoords, preset="coarse", rgrid=_radial(rng, 6 + 4 * lv))
            if form == "list":
                kw["preset"] = ["coarse", "medium"]
            elif form == "dict":
                kw["preset"] = {1: "coarse", 8: "medium"}
            elif form == "rgrid-list":
                kw["rgrid"] = [_radial(rng, 6), _radial(rng, 7)]
            elif form == "rgrid-dict":
                kw["rgrid"] = {1: _radial(rng, 6), 8: _radial(rng, 7)}
            elif form == "aim-callback":
                kw["aim_weights"] = CB(user_aim)
            kw["store"] = bool(rng.integers(0, 2))
            def call(**k):
                m = MolGrid.from_preset(**k)
                return m.points, m.weights
            return call, kw

    for form in ("scalars", "lists", "s-sectors", "rgrid-list"):
        @entry("molgrid.MolGrid.from_pruned", form)
        def _(rng, lv, form=form):
            atnums, atcoords, _g = _mol(rng, 0)
            kw = dict(atnums=atnums, atcoords=atcoords, rgrid=_oned(rng, 6 + 4 * lv))
            if form == "scalars":
                kw.update(radius=1.0, r_sectors=[[0.5, 1.0], [0.4, 0.9]], d_sectors=[[3, 5, 7], [3, 7, 5]])
            elif form == "lists":
                kw.update(radius=[1.0, 1.2], r_sectors=[[0.5, 1.0], [0.4, 0.9]], d_sectors=[[3, 5, 7], [3, 7, 5]])
            elif form == "s-sectors":
                kw.update(radius=[1.0, 1.2], r_sectors=[[0.5, 1.0], [0.4, 0.9]], d_sectors=None,
                          s_sectors=[[6, 14, 26], [6, 26, 14]])
            else:
                kw.update(radius=[1.0, 0.9], r_sectors=[np.array([0.5, 1.0]), np.array([0.4, 0.9])],
                          d_sectors=[np.array([3, 5, 7]), np.array([3, 7, 5])], rgrid=[_oned(rng, 5), _oned(rng, 6)])
            def call(**k):
                m = MolGrid.from_pruned(**k)
                return m.points, m.weights
            return call, kw

    def mol_kwargs(rng, lv):
        atnums, atcoords, atgrids = _mol(rng, lv)
        size = sum(g.size for g in atgrids)
        return dict(atnums=atnums, atgrids=atgrids, aim_weights=rng.uniform(0.2, 1.0, size)), size

    @entry("basegrid.Grid.integrate", "molgrid")
    def _(rng, lv):
        kw, size = mol_kwargs(rng, lv)
        kw["a"] = rng.normal(size=size)
        kw["b"] = rng.normal(size=size)
        return (lambda atnums, atgrids, aim_weights, a, b: MolGrid(atnums, atgrids, aim_weights).integrate(a, b)), kw

    @entry("molgrid.MolGrid.interpolate")
    def _(rng, lv):
        kw, size = mol_kwargs(rng, lv)
        kw["func_vals"] = rng.normal(size=size)
        kw["pts"] = RO(_pts(rng, 4 + 3 * lv))
        def call(atnums, atgrids, aim_weights, func_vals, pts):
            f = MolGrid(atnums, atgrids, aim_weights, store=True).interpolate(func_vals)
            return [f(pts), f(pts, deriv=1), f(pts, deriv=1, deriv_spherical=True),
                    f(pts, deriv=1, only_radial_derivs=True), f(pts, deriv=2, only_radial_derivs=True)]
        return call, kw

    for store in (True, False):
        @entry("molgrid.MolGrid.get_atomic_grid", f"store-{store}")
        def _(rng, lv, store=store):
            kw, size = mol_kwargs(rng, lv)
            def call(atnums, atgrids, aim_weights):
                m = MolGrid(atnums, atgrids, aim_weights, store=store)
                g = m.get_atomic_grid(1)
                return g.points, g.weights
            return call, kw

        @entry("molgrid.MolGrid.__getitem__", f"store-{store}")
        def _(rng, lv, store=store):
            kw, size = mol_kwargs(rng, lv)
            def call(atnums, atgrids, aim_weights):
                m = MolGrid(atnums, atgrids, aim_weights, store=store)
                g = m[0]
                h = m[np.int64(1)]
                return g.points, h.weights
            return call, kw

    @entry("basegrid.Grid.get_localgrid", "molgrid")
    def _(rng, lv):
        kw, size = mol_kwargs(rng, lv)
        kw["center"] = rng.normal(0, 0.3, 3)
        def call(atnums, atgrids, aim_weights, center):
            lg = MolGrid(atnums, atgrids, aim_weights).get_localgrid(center, 1.0)
            return lg.points
        return call, kw

    @entry("molgrid.MolGrid.save")
    def _(rng, lv):
        kw, size = mol_kwargs(rng, 0)
        def call(atnums, atgrids, aim_weights):
            d = _tmpdir()
            try:
                MolGrid(atnums, atgrids, aim_weights, store=True).save(os.path.join(d, "m.npz"))
            finally:
                shutil.rmtree(d, ignore_errors=True)
        return call, kw



# ---- cubic, periodicgrid, ngrid ----------------------------------------------
def _entries_cubic_periodic_ngrid():
    from grid.basegrid import Grid, OneDGrid
    from grid.cubic import Tensor1DGrids, UniformGrid
    from grid.ngrid import MultiDomainGrid
    from grid.periodicgrid import PeriodicGrid

    for dim in (2, 3):
        @entry("cubic.Tensor1DGrids.__init__", f"{dim}d")
        def _(rng, lv, dim=dim):
            kw = dict(oned_x=_oned(rng, 3 + lv, False), oned_y=_oned(rng, 4 + lv, False))
            if dim == 3:
                kw["oned_z"] = _oned(rng, 3 + lv, False)
            def call(**k):
                g = Tensor1DGrids(**k)
                return g.points, g.weights, g.origin, g.get_points_along_axes()
            return call, kw

    @entry("cubic.Tensor1DGrids.__init__", "equal-sizes")
    def _(rng, lv):
        n = 4 + lv
        kw = dict(oned_x=_oned(rng, n, False), oned_y=_oned(rng, n, False), oned_z=_oned(rng, n, False))
        return (lambda **k: Tensor1DGrids(**k).points), kw

    def ug_kwargs(rng, lv, dim=3, n=None, diag=False):
        n = n or (5 + lv)
        axes = np.diag(rng.uniform(0.2, 0.5, dim))
        if not diag:
            axes = axes + rng.normal(0, 0.02, (dim, dim))
        return dict(origin=rng.normal(0, 0.2, dim), axes=axes, shape=np.array([n, n + 1, n][:dim]))

    for weight in ("Trapezoid", "Rectangle", "Fourier1", "Fourier2", "Alternative"):
        for dim in (2, 3):
            @entry("cubic.UniformGrid.__init__", f"{weight}-{dim}d")
            def _(rng, lv, weight=weight, dim=dim):
                kw = ug_kwargs(rng, lv, dim, n=4 + lv)
                def call(origin, axes, shape):
                    g = UniformGrid(origin, axes, shape, weight=weight)
                    return g.points, g.weights, g.axes, g.origin, g.shape
                return call, kw

    for rot in (True, False):
        @entry("cubic.UniformGrid.from_molecule", f"rotate-{rot}")
        def _(rng, lv, rot=rot):
            atcoords = rng.normal(0, 0.8, (3, 3))
            def call(atcorenums, atcoords):
                g = UniformGrid.from_molecule(atcorenums, atcoords, spacing=1.0 - 0.2 * lv, extension=1.5, rotate=rot)
                return g.points
            return call, dict(atcorenums=np.array([1.0, 8.0, 1.0]), atcoords=atcoords)

    combos = [("cubic", False, (0, 0, 0)), ("linear", False, (0, 0, 0)), ("nearest", False, (0, 0, 0)),
              ("cubic", False, (1, 0, 0)), ("cubic", False, (0, 2, 0)), ("cubic", False, (1, 1, 1)),
              ("cubic", True, (0, 0, 0)), ("cubic", True, (0, 0, 1)), ("cubic", True, (2, 0, 0))]
    for method, use_log, nu in combos:
        @entry("cubic._HyperRectangleGrid.interpolate", f"{method}{'-log' if use_log else ''}-nu{''.join(map(str, nu))}",
               slow=use_log and nu != (0, 0, 0))
        def _(rng, lv, method=method, use_log=use_log, nu=nu):
            kw = ug_kwargs(rng, lv, 3, n=6 + lv, diag=True)
            size = int(np.prod(kw["shape"]))
            kw["values"] = rng.uniform(0.5, 2.0, size)
            inner = kw["origin"] + np.diag(kw["axes"]) * 2.0
            kw["points"] = inner + rng.uniform(0.0, 0.3, (3 + lv, 3))
            def call(origin, axes, shape, points, values):
                g = UniformGrid(origin, axes, shape)
                return g.interpolate(points, values, use_log=use_log, nu_x=nu[0], nu_y=nu[1], nu_z=nu[2], method=method)
            return call, kw

    @entry("cubic._HyperRectangleGrid.interpolate", "tensor1d")
    def _(rng, lv):
        n = 6 + lv
        kw = dict(oned_x=_oned(rng, n, False), oned_y=_oned(rng, n, False), oned_z=_oned(rng, n + 1, False))
        kw["values"] = rng.uniform(0.5, 2.0, n * n * (n + 1))
        kw["points"] = rng.uniform(-0.2, 0.2, (3, 3))
        def call(oned_x, oned_y, oned_z, points, values):
            return Tensor1DGrids(oned_x, oned_y, oned_z).interpolate(points, values)
        return call, kw

    for which in ("closest", "origin"):
        for form in ("array", "list"):
            @entry("cubic.UniformGrid.closest_point", f"{which}-{form}")
            def _(rng, lv, which=which, form=form):
                kw = ug_kwargs(rng, lv, 3, diag=True)
                p = kw["origin"] + rng.uniform(0.2, 1.0, 3)
                kw["point"] = p if form == "array" else [float(x) for x in p]
                return (lambda origin, axes, shape, point: UniformGrid(origin, axes, shape).closest_point(point, which)), kw

    for form in ("array", "list", "tuple", "2d-array"):
        @entry("cubic._HyperRectangleGrid.coordinates_to_index", form)
        def _(rng, lv, form=form):
            kw = ug_kwargs(rng, lv, 3)
            idx = [int(rng.integers(0, 4)) for _ in range(3)]
            kw["indices"] = {"array": np.array(idx), "list": idx, "tuple": tuple(idx),
                             "2d-array": rng.integers(0, 4, (5, 3))}[form]
            return (lambda origin, axes, shape, indices: UniformGrid(origin, axes, shape).coordinates_to_index(indices)), kw

    for dim in (2, 3):
        @entry("cubic._HyperRectangleGrid.index_to_coordinates", f"{dim}d")
        def _(rng, lv, dim=dim):
            kw = ug_kwargs(rng, lv, dim)
            i = int(rng.integers(0, 20))
            return (lambda origin, axes, shape: UniformGrid(origin, axes, shape).index_to_coordinates(i)), kw

    @entry("cubic._HyperRectangleGrid.get_points_along_axes")
    def _(rng, lv):
        kw = ug_kwargs(rng, lv, 3)
        return (lambda origin, axes, shape: UniformGrid(origin, axes, shape).get_points_along_axes()), kw

    @entry("basegrid.Grid.integrate", "uniformgrid")
    def _(rng, lv):
        kw = ug_kwargs(rng, lv, 3, n=4)
        size = int(np.prod(kw["shape"]))
        kw["a"] = rng.normal(size=size)
        kw["b"] = rng.normal(size=size)
        return (lambda origin, axes, shape, a, b: UniformGrid(origin, axes, shape).integrate(a, b)), kw

    for form in ("default", "pseudo"):
        @entry("cubic.UniformGrid.generate_cube", form, covers=["cubic.UniformGrid.from_cube"])
        def _(rng, lv, form=form):
            kw = ug_kwargs(rng, lv, 3, n=3 + lv)
            size = int(np.prod(kw["shape"]))
            kw.update(data=rng.normal(size=size), atcoords=rng.normal(size=(2, 3)), atnums=np.array([1, 8]))
            if form == "pseudo":
                kw["pseudo_numbers"] = np.array([1.0, 6.0])
            def call(origin, axes, shape, **k):
                d = _tmpdir()
                try:
                    f = os.path.join(d, "x.cube")
                    UniformGrid(origin, axes, shape).generate_cube(f, **k)
                    g, data = UniformGrid.from_cube(f, return_data=True)
                    g2 = UniformGrid.from_cube(f, weight="Rectangle")
                    return g.points, data, g2.weights
                finally:
                    shutil.rmtree(d, ignore_errors=True)
            return call, kw

    @entry("cubic.UniformGrid.from_cube")
    def _(rng, lv):
        def call(data):
            d = _tmpdir()
            try:
                f = os.path.join(d, "y.cube")
                g = UniformGrid(np.zeros(3), np.eye(3) * 0.5, np.array([2, 2, 3]))
                g.generate_cube(f, data, np.zeros((1, 3)), np.array([1]))
                return UniformGrid.from_cube(f, return_data=True)
            finally:
                shutil.rmtree(d, ignore_errors=True)
        return call, dict(data=rng.normal(size=12))

    @entry("cubic.UniformGrid.save")
    def _(rng, lv):
        kw = ug_kwargs(rng, 0, 3, n=3)
        def call(origin, axes, shape):
            d = _tmpdir()
            try:
                UniformGrid(origin, axes, shape).save(os.path.join(d, "u.npz"))
            finally:
                shutil.rmtree(d, ignore_errors=True)
        return call, kw

    @entry("cubic.Tensor1DGrids.save")
    def _(rng, lv):
        kw = dict(oned_x=_oned(rng, 3, False), oned_y=_oned(rng, 3, False), oned_z=_oned(rng, 3, False))
        def call(**k):
            d = _tmpdir()
            try:
                Tensor1DGrids(**k).save(os.path.join(d, "t.npz"))
            finally:
                shutil.rmtree(d, ignore_errors=True)
        return call, kw

    # periodic
    def pg_kwargs(rng, lv, dim, nvec=None):
        n = 10 + 15 * lv
        nvec = dim if nvec is None else nvec
        if dim == 1:
            pts = rng.uniform(-1.5, 2.5, n)
            rv = np.array([float(rng.uniform(0.8, 1.5))]) if nvec else None
        else:
            pts = rng.uniform(-1.5, 2.5, (n, dim))
            rv = (np.eye(dim) * rng.uniform(0.8, 1.5, dim) + rng.normal(0, 0.05, (dim, dim)))[:nvec] if nvec else None
        return dict(points=pts, weights=_w(rng, n), realvecs=rv)

    for dim, nvec in ((1, 1), (2, 2), (3, 3), (3, 2), (3, 1), (3, 0)):
        for wrap in (True, False):
            @entry("periodicgrid.PeriodicGrid.__init__", f"{dim}d-{nvec}vec-wrap{wrap}")
            def _(rng, lv, dim=dim, nvec=nvec, wrap=wrap):
                kw = pg_kwargs(rng, lv, dim, nvec)
                def call(points, weights, realvecs):
                    g = PeriodicGrid(points, weights, realvecs, wrap=wrap)
                    return g.points, g.weights, g.realvecs, g.recivecs, g.frac_intvls, g.spacings
                return call, kw

            @entry("periodicgrid.PeriodicGrid.get_localgrid", f"{dim}d-{nvec}vec-wrap{wrap}")
            def _(rng, lv, dim=dim, nvec=nvec, wrap=wrap):
                kw = pg_kwargs(rng, lv, dim, nvec)
                kw["center"] = np.array(float(rng.uniform(-1, 1))) if dim == 1 else rng.uniform(-1, 1, dim)
                radius = float(rng.uniform(0.3, 1.2))
                def call(points, weights, realvecs, center):
                    g = PeriodicGrid(points, weights, realvecs, wrap=wrap)
                    lg = g.get_localgrid(center, radius)
                    lg2 = g.get_localgrid(center, radius * 0.5)
                    return lg.points, lg.weights, lg2.indices
                return call, kw

    for kind in ("int", "slice", "intarray", "mask"):
        @entry("periodicgrid.PeriodicGrid.__getitem__", kind)
        def _(rng, lv, kind=kind):
            kw = pg_kwargs(rng, lv, 3)
            n = len(kw["weights"])
            kw["index"] = {"int": 3, "slice": slice(1, n, 2), "intarray": rng.integers(0, n, 4),
                           "mask": rng.random(n) < 0.5}[kind]
            def call(points, weights, realvecs, index):
                g = PeriodicGrid(points, weights, realvecs, wrap=True)[index]
                return g.points, g.realvecs
            return call, kw

    for wrap in (True, False):
        @entry("periodicgrid.PeriodicGrid.points", f"setter-wrap{wrap}")
        def _(rng, lv, wrap=wrap):
            kw = pg_kwargs(rng, lv, 3)
            kw["new_points"] = rng.uniform(-1.5, 2.5, kw["points"].shape)
            kw["center"] = rng.uniform(-1, 1, 3)
            def call(points, weights, realvecs, new_points, center):
                g = PeriodicGrid(points, weights, realvecs, wrap=wrap)
                g.get_localgrid(center, 0.5)
                g.points = new_points
                return g.frac_intvls, g.get_localgrid(center, 0.7).points
            return call, kw

    @entry("basegrid.Grid.integrate", "periodicgrid")
    def _(rng, lv):
        kw = pg_kwargs(rng, lv, 3)
        kw["a"] = rng.normal(size=len(kw["weights"]))
        return (lambda points, weights, realvecs, a: PeriodicGrid(points, weights, realvecs, wrap=True).integrate(a)), kw

    # ngrid
    def g3(rng, n):
        return Grid(_pts(rng, n), _w(rng, n))

    @entry("ngrid.MultiDomainGrid.__init__")
    def _(rng, lv):
        def call(grid_list):
            m = MultiDomainGrid(grid_list)
            return m.size, m.num_domains, list(m.weights), [tuple(p) for p in m.points]
        return call, dict(grid_list=[g3(rng, 3), g3(rng, 4)])

    @entry("ngrid.MultiDomainGrid.__init__", "num_domains")
    def _(rng, lv):
        def call(grid_list):
            m = MultiDomainGrid(grid_list, num_domains=2)
            return m.size, list(m.weights), [tuple(p) for p in m.points]
        return call, dict(grid_list=[g3(rng, 3)])

    def f1(x):
        return np.exp(-np.sum(x**2, axis=-1))

    def f2(x, y):
        return np.exp(-np.sum(x**2, axis=-1)) * np.exp(-np.sum((x - y) ** 2, axis=-1))

    def f3(x, y, z):
        return f2(x, y) * np.exp(-np.sum(z**2, axis=-1))

    def f2p(x, y):  # point-wise, returns an array (3,) -> exercised as "callback returns arrays"
        return np.exp(-np.sum(x**2)) * np.exp(-np.sum((x - y) ** 2)) * np.ones(1)

    for form in ("1-domain", "2-grids", "num_domains-2", "3-grids", "non-vectorized", "non-vectorized-num_domains",
                 "chunk-1", "chunk-7"):
        @entry("ngrid.MultiDomainGrid.integrate", form)
        def _(rng, lv, form=form):
            n = 3 + 2 * lv
            kw = {}
            nd = None
            nonvec = form.startswith("non-vectorized")
            chunk = 6000
            if form == "1-domain":
                gl, fn = [g3(rng, n + 3)], f1
            elif form in ("2-grids", "non-vectorized", "chunk-1", "chunk-7"):
                gl, fn = [g3(rng, n), g3(rng, n + 1)], f2
                if form == "non-vectorized":
                    fn = f2p
                if form.startswith("chunk"):
                    chunk = int(form.split("-")[1])
                    nonvec = bool(rng.integers(0, 2))
            elif form in ("num_domains-2", "non-vectorized-num_domains"):
                gl, fn, nd = [g3(rng, n)], f2, 2
            else:
                gl, fn = [g3(rng, n), g3(rng, 2), g3(rng, 3)], f3
            def call(grid_list, integrand):
                return MultiDomainGrid(grid_list, num_domains=nd).integrate(
                    integrand, non_vectorized=nonvec, integration_chunk_size=chunk)
            return call, dict(grid_list=gl, integrand=CB(fn))

    @entry("ngrid.MultiDomainGrid.get_localgrid")
    def _(rng, lv):
        return (lambda grid_list, center: MultiDomainGrid(grid_list).get_localgrid(center, 1.0)), dict(
            grid_list=[g3(rng, 3)], center=np.zeros(3))

    @entry("ngrid.MultiDomainGrid.moments")
    def _(rng, lv):
        return (lambda grid_list, centers, func_vals: MultiDomainGrid(grid_list).moments(1, centers, func_vals)), dict(
            grid_list=[g3(rng, 3)], centers=np.zeros((1, 3)), func_vals=np.ones(3))



# ---- ode, poisson, robust_poisson -----------------------------------------------
def _entries_ode_poisson():
    from grid.atomgrid import AtomGrid
    from grid.becke import BeckeWeights
    from grid.molgrid import MolGrid
    from grid.ode import solve_ode_bvp, solve_ode_ivp
    from grid.onedgrid import GaussLegendre
    from grid.poisson import interpolate_laplacian, solve_poisson_bvp, solve_poisson_ivp
    from grid.robust_poisson import solve_poisson_robust
    from grid.rtransform import BeckeRTransform, InverseRTransform, LinearFiniteRTransform

    def fx(x):
        return np.sin(x) + 1.0

    def c0(x):
        return 1.0 + 0.1 * x**2

    def c1(x):
        return 0.5 + 0.0 * x

    def c2(x):
        return 2.0 + 0.1 * np.cos(x)

    def coeffs_of(form, order=2):
        if form == "callable":
            return [CB(c0), CB(c1), CB(c2)][: order + 1] if order == 2 else [CB(c0), CB(c2)]
        if form == "mixed":
            return [CB(c0), 0.5, 2.0] if order == 2 else [CB(c0), 2.0]
        if form == "list":
            return [1.0, 0.5, 2.0] if order == 2 else [1.0, 2.0]
        return np.array([1.0, 0.5, 2.0]) if order == 2 else np.array([1.0, 2.0])

    for cform in ("callable", "mixed", "list", "array"):
        for tf in (False, True):
            for yform in ("list", "array"):
                if cform in ("mixed", "list") and yform == "array" and tf:
                    continue
                @entry("ode.solve_ode_ivp", f"coeffs-{cform}-y0-{yform}{'-transform' if tf else ''}")
                def _(rng, lv, cform=cform, tf=tf, yform=yform):
                    y0 = [float(rng.normal()), float(rng.normal())]
                    kw = dict(x_span=(0.1, 0.8 + 0.4 * lv) if not tf else (-0.9, -0.1), fx=CB(fx),
                              coeffs=coeffs_of(cform), y0=y0 if yform == "list" else np.array(y0),
                              pts=RO(np.linspace(0.15, 0.75, 4) if not tf else np.linspace(-0.85, -0.15, 4)))
                    transform = BeckeRTransform(0.05, 1.2) if tf else None
                    nod = bool(rng.integers(0, 2))
                    def call(x_span, fx, coeffs, y0, pts):
                        sol = solve_ode_ivp(x_span, fx, coeffs, y0, transform, no_derivatives=nod,
                                            method="RK45" if lv else "DOP853", rtol=1e-5, atol=1e-6)
                        return sol(pts)
                    return call, kw

    @entry("ode.solve_ode_ivp", "first-order-x_span-list")
    def _(rng, lv):
        def call(x_span, fx, coeffs, y0, pts):
            return solve_ode_ivp(x_span, fx, coeffs, y0)(pts)
        return call, dict(x_span=[0.0, 1.0], fx=CB(fx), coeffs=coeffs_of("mixed", 1), y0=[0.3],
                          pts=RO(np.linspace(0.1, 0.9, 3)))

    for cform in ("callable", "mixed", "list", "array"):
        for tf in (False, True):
            for guess in (False, True):
                if guess and cform in ("list", "array"):
                    continue
                @entry("ode.solve_ode_bvp", f"coeffs-{cform}{'-transform' if tf else ''}{'-guess' if guess else ''}")
                def _(rng, lv, cform=cform, tf=tf, guess=guess):
                    n = 8 + 6 * lv
                    x = np.linspace(0.0, 1.5, n) if not tf else np.linspace(-0.9, 0.5, n)
                    bd = [[0, 0, float(rng.normal())], [1, 0, float(rng.normal())]]
                    if rng.random() < 0.5:
                        bd = [tuple(b) for b in bd]
                    kw = dict(x=x, fx=CB(fx), coeffs=coeffs_of(cform), bd_cond=bd,
                              pts=RO(x[1:-1:2] + 0.01))
                    if guess:
                        kw["initial_guess_y"] = rng.normal(size=(2, n))
                    transform = BeckeRTransform(0.05, 1.2) if tf else None
                    nod = bool(rng.integers(0, 2))
                    def call(x, fx, coeffs, bd_cond, pts, initial_guess_y=None):
                        sol = solve_ode_bvp(x, fx, coeffs, bd_cond, transform, tol=1e-3, max_nodes=600,
                                            initial_guess_y=initial_guess_y, no_derivatives=nod)
                        return sol(pts)
                    return call, kw

    @entry("ode.solve_ode_bvp", "third-order")
    def _(rng, lv):
        n = 8
        x = np.linspace(0.0, 1.0, n)
        def call(x, fx, coeffs, bd_cond, pts):
            return solve_ode_bvp(x, fx, coeffs, bd_cond, tol=1e-3, max_nodes=600)(pts)
        return call, dict(x=x, fx=CB(fx), coeffs=[CB(c0), 0.3, CB(c1), 1.5],
                          bd_cond=[[0, 0, 0.0], [1, 0, 1.0], [0, 1, 0.5]], pts=RO(np.array([0.2, 0.6])))

    def atom_case(rng, lv):
        n = 12 + 6 * lv
        btf = BeckeRTransform(1e-4, 1.5)
        g = btf.transform_1d_grid(GaussLegendre(n))
        from grid.basegrid import OneDGrid
        rgrid = OneDGrid(np.array(g.points), np.array(g.weights), (0, np.inf))
        center = rng.normal(0, 0.1, 3)
        kw = dict(rgrid=rgrid, degrees=[3 if lv < 2 else 5], center=center)
        probe = AtomGrid(copy.deepcopy(rgrid), degrees=[3 if lv < 2 else 5], center=center.copy())
        r = np.linalg.norm(probe.points - center, axis=1)
        kw["func_vals"] = float(rng.uniform(0.8, 1.2)) * np.exp(-float(rng.uniform(0.8, 1.5)) * r**2)
        kw["pts"] = RO(center + _pts(rng, 4, scale=0.8))
        return kw, btf

    def mol_case(rng, lv):
        btf = BeckeRTransform(1e-4, 1.5)
        from grid.basegrid import OneDGrid
        atcoords = np.array([[0.0, 0.0, -0.7], [0.0, 0.0, 0.7]])
        atgrids = []
        for i in range(2):
            g = btf.transform_1d_grid(GaussLegendre(12 + 4 * lv))
            atgrids.append(AtomGrid(OneDGrid(np.array(g.points), np.array(g.weights), (0, np.inf)), degrees=[3],
                                    center=atcoords[i].copy()))
        atnums = np.array([1, 1])
        probe = MolGrid(atnums.copy(), copy.deepcopy(atgrids), BeckeWeights(), store=True)
        fv = np.exp(-np.sum((probe.points - atcoords[0]) ** 2, axis=1)) + np.exp(-np.sum((probe.points - atcoords[1]) ** 2, axis=1))
        kw = dict(atnums=atnums, atgrids=atgrids, func_vals=fv * float(rng.uniform(0.8, 1.2)),
                  pts=RO(_pts(rng, 4, scale=0.8)))
        return kw, btf

    for target in ("atomgrid", "molgrid"):
        for pform in ("params-dict", "params-empty", "params-none"):
            @entry("poisson.solve_poisson_bvp", f"{target}-{pform}", covers=["ode.solve_ode_bvp"])
            def _(rng, lv, target=target, pform=pform):
                kw, btf = atom_case(rng, lv) if target == "atomgrid" else mol_case(rng, lv)
                kw["ode_params"] = {"params-dict": {"tol": 1e-3, "max_nodes": 5000}, "params-empty": {}, "params-none": None}[pform]
                tf = InverseRTransform(btf)
                incl = target == "atomgrid"
                def call(func_vals, pts, ode_params, **g):
                    grid = (AtomGrid(g["rgrid"], degrees=g["degrees"], center=g["center"]) if target == "atomgrid"
                            else MolGrid(g["atnums"], g["atgrids"], BeckeWeights(), store=True))
                    pot = solve_poisson_bvp(grid, func_vals, tf, include_origin=incl, ode_params=ode_params)
                    return pot(pts)
                return call, kw

            @entry("poisson.solve_poisson_ivp", f"{target}-{pform}", covers=["ode.solve_ode_ivp"],
                   slow=(target == "molgrid" and pform != "params-dict"))
            def _(rng, lv, target=target, pform=pform):
                kw, btf = atom_case(rng, lv) if target == "atomgrid" else mol_case(rng, lv)
                kw["ode_params"] = {"params-dict": {"rtol": 1e-4, "atol": 1e-4}, "params-empty": {}, "params-none": None}[pform]
                kw["r_interval"] = (20.0, 1e-2) if rng.random() < 0.5 else [20.0, 1e-2]
                tf = InverseRTransform(btf)
                def call(func_vals, pts, ode_params, r_interval, **g):
                    grid = (AtomGrid(g["rgrid"], degrees=g["degrees"], center=g["center"]) if target == "atomgrid"
                            else MolGrid(g["atnums"], g["atgrids"], BeckeWeights(), store=True))
                    pot = solve_poisson_ivp(grid, func_vals, tf, r_interval=r_interval, ode_params=ode_params)
                    return pot(pts)
                return call, kw

        @entry("poisson.interpolate_laplacian", target)
        def _(rng, lv, target=target):
            kw, btf = atom_case(rng, lv) if target == "atomgrid" else mol_case(rng, lv)
            def call(func_vals, pts, **g):
                grid = (AtomGrid(g["rgrid"], degrees=g["degrees"], center=g["center"]) if target == "atomgrid"
                        else MolGrid(g["atnums"], g["atgrids"], BeckeWeights(), store=True))
                lap = interpolate_laplacian(grid, func_vals)
                return lap(pts), lap(pts, 1e-3)
            return call, kw

        for split2 in (False, True):
            @entry("robust_poisson.solve_poisson_robust", f"{target}{'-split2' if split2 else ''}",
                   covers=["poisson.solve_poisson_bvp", "coulomb.coulomb_potential"])
            def _(rng, lv, target=target, split2=split2):
                kw, btf = atom_case(rng, lv) if target == "atomgrid" else mol_case(rng, lv)
                if target == "atomgrid":
                    kw["r_atnums"] = np.array([1])
                    kw["r_atcoords"] = kw["center"].reshape(1, 3).copy()
                else:
                    kw["r_atnums"] = np.array([1, 1])
                    kw["r_atcoords"] = np.array([[0.0, 0.0, -0.7], [0.0, 0.0, 0.7]])
                if split2:
                    kw["alphas_basis"] = np.array([0.5, 1.0, 2.0, 4.0]) if rng.random() < 0.7 else [0.5, 1.0, 2.0]
                kw["ode_params"] = {"tol": 1e-3, "max_nodes": 5000}
                kw["func_vals"] = np.abs(kw["func_vals"])
                tf = InverseRTransform(btf)
                def call(func_vals, pts, ode_params, r_atnums, r_atcoords, alphas_basis=None, **g):
                    grid = (AtomGrid(g["rgrid"], degrees=g["degrees"], center=g["center"]) if target == "atomgrid"
                            else MolGrid(g["atnums"], g["atgrids"], BeckeWeights(), store=True))
                    pot = solve_poisson_robust(grid, func_vals, tf, r_atnums, r_atcoords, split2=split2,
                                               alphas_basis=alphas_basis, ode_params=ode_params,
                                               include_origin=(target == "atomgrid"))
                    return pot(pts)
                return call, kw



# ---- coulomb, utils -------------------------------------------------------------
def _entries_coulomb_utils():
    import grid.coulomb as cmod
    import grid.utils as umod
    from grid.basegrid import Grid

    for fname in ("coulomb_gaussian_s", "coulomb_gaussian_p", "coulomb_gaussian_s_unnormalized",
                  "coulomb_gaussian_p_unnormalized"):
        if not hasattr(cmod, fname):
            continue
        for norm in (True, False):
            for form in ("array", "with-zero", "2d"):
                @entry(f"coulomb.{fname}", f"{form}-norm{norm}")
                def _(rng, lv, fname=fname, norm=norm, form=form):
                    n = 6 + 10 * lv
                    r = rng.uniform(0.0, 3.0, n)
                    if form == "with-zero":
                        r[::3] = 0.0
                    if form == "2d":
                        r = r.reshape(2, -1)
                    alpha = float(rng.uniform(0.3, 3.0))
                    fn = getattr(cmod, fname)
                    if "normalized" in inspect.signature(fn).parameters:
                        return (lambda r: fn(r, alpha, normalized=norm)), dict(r=r)
                    return (lambda r: fn(r, alpha)), dict(r=r)

    for form in ("s", "s+p", "lists"):
        for norm in (True, False):
            @entry("coulomb.coulomb_potential", f"{form}-norm{norm}")
            def _(rng, lv, form=form, norm=norm):
                k = 3 + lv
                kw = dict(points=_pts(rng, 6 + 6 * lv, scale=2.0), centers_s=_pts(rng, k), coeffs_s=rng.uniform(0.1, 1, k),
                          alphas_s=rng.uniform(0.3, 3, k))
                if form == "s+p":
                    kw.update(centers_p=_pts(rng, k), coeffs_p=rng.uniform(0.1, 1, k), alphas_p=rng.uniform(0.3, 3, k))
                if form == "lists":
                    kw = {a: v.tolist() for a, v in kw.items()}
                return (lambda **a: cmod.coulomb_potential(normalized=norm, **a)), kw

    @entry("coulomb.load_atomic_gaussian_params")
    def _(rng, lv):
        # the arrays handed out become the caller's: a second load must not touch them, and
        # using them as arguments must leave them intact
        first = cmod.load_atomic_gaussian_params(int(rng.choice([1, 6, 8])))
        def call(first, element, points):
            c, a = cmod.load_atomic_gaussian_params(element)
            c2, a2 = cmod.load_atomic_gaussian_params("H")
            return cmod.coulomb_potential(points, np.zeros((len(c), 3)), c, a)
        return call, dict(first=list(first), element=int(rng.choice([1, 6, 7, 8, 17])), points=_pts(rng, 4))

    def angles(rng, lv):
        n = 5 + 8 * lv
        return dict(theta=rng.uniform(-np.pi, np.pi, n), phi=rng.uniform(0.05, np.pi - 0.05, n))

    for fname in ("generate_real_spherical_harmonics", "generate_real_spherical_harmonics_scipy",
                  "generate_derivative_real_spherical_harmonics"):
        for l_max in (0, 1, 3):
            @entry(f"utils.{fname}", f"lmax{l_max}")
            def _(rng, lv, fname=fname, l_max=l_max):
                fn = getattr(umod, fname)
                return (lambda theta, phi: fn(l_max + lv, theta, phi)), angles(rng, lv)

    @entry("utils.generate_real_spherical_harmonics", "poles")
    def _(rng, lv):
        return (lambda theta, phi: umod.generate_real_spherical_harmonics(2, theta, phi)), dict(
            theta=np.array([0.0, 1.0, -2.0, 0.0]), phi=np.array([0.0, np.pi, 0.0, np.pi / 2]))

    @entry("utils.generate_derivative_real_spherical_harmonics", "poles")
    def _(rng, lv):
        return (lambda theta, phi: umod.generate_derivative_real_spherical_harmonics(2, theta, phi)), dict(
            theta=np.array([0.0, 1.0, -2.0, 0.0]), phi=np.array([0.0, np.pi, 0.0, np.pi / 2]))

    for l_max in (0, 2, 4):
        @entry("utils.solid_harmonics", f"lmax{l_max}")
        def _(rng, lv, l_max=l_max):
            n = 5 + 8 * lv
            sph = np.column_stack([rng.uniform(0, 2, n), rng.uniform(-np.pi, np.pi, n), rng.uniform(0, np.pi, n)])
            return (lambda sph_pts: umod.solid_harmonics(l_max, sph_pts)), dict(sph_pts=sph)

    for form in ("no-center", "center-array", "center-list", "with-origin"):
        @entry("utils.convert_cart_to_sph", form)
        def _(rng, lv, form=form):
            kw = dict(points=_pts(rng, 6 + 8 * lv))
            if form == "center-array":
                kw["center"] = rng.normal(size=3)
            if form == "center-list":
                kw["center"] = [0.1, -0.2, 0.3]
            if form == "with-origin":
                kw["points"][0] = 0.0
                kw["points"][1] = [0.0, 0.0, 1.0]
            return (lambda **a: umod.convert_cart_to_sph(**a)), kw

    for form in ("floats", "0d-arrays", "origin", "pole"):
        @entry("utils.convert_derivative_from_spherical_to_cartesian", form)
        def _(rng, lv, form=form):
            d = rng.normal(size=3)
            r, t, p = float(rng.uniform(0.2, 2)), float(rng.uniform(-3, 3)), float(rng.uniform(0.1, 3))
            if form == "origin":
                r = 0.0
            if form == "pole":
                p = 0.0
            vals = [d[0], d[1], d[2], r, t, p]
            if form != "floats":
                vals = [np.array(float(v)) for v in vals]
            names = ["deriv_r", "deriv_theta", "deriv_phi", "r", "theta", "phi"]
            return (lambda **a: umod.convert_derivative_from_spherical_to_cartesian(**a)), dict(zip(names, vals))

    for cov in ("bragg", "cambridge", "alvarez"):
        for form in ("array", "list", "int"):
            @entry("utils.get_cov_radii", f"{cov}-{form}")
            def _(rng, lv, cov=cov, form=form):
                at = rng.integers(1, 30, size=3 + lv)
                at = {"array": at, "list": [int(a) for a in at], "int": int(at[0])}[form]
                return (lambda atnums: umod.get_cov_radii(atnums, cov)), dict(atnums=at)

    @entry("utils.get_cov_radii", "result-is-callers")
    def _(rng, lv):
        # a radii array handed out earlier is the caller's; later look-ups must not alter it
        first = umod.get_cov_radii(np.array([1, 6, 8]))
        return (lambda first, atnums: umod.get_cov_radii(atnums) + first), dict(first=first, atnums=np.array([1, 6, 8]))

    @entry("utils.dipole_moment_of_molecule")
    def _(rng, lv):
        n = 10 + 10 * lv
        kw = dict(points=_pts(rng, n, scale=2.0), weights=_w(rng, n), density=rng.uniform(0, 1, n),
                  coords=rng.normal(size=(2, 3)), charges=np.array([1, 8]))
        def call(points, weights, density, coords, charges):
            return umod.dipole_moment_of_molecule(Grid(points, weights), density, coords, charges)
        return call, kw

    for type_ord in ("cartesian", "radial", "pure", "pure-radial"):
        for dim in (1, 2, 3):
            @entry("utils.generate_orders_horton_order", f"{type_ord}-{dim}d")
            def _(rng, lv, type_ord=type_ord, dim=dim):
                order = int(rng.integers(1, 4))
                return (lambda: umod.generate_orders_horton_order(order, type_ord, dim)), {}


# ---- rtransform, onedgrid -------------------------------------------------------
def _entries_rtransform_onedgrid():
    import grid.onedgrid as omod
    import grid.rtransform as rt
    from grid.basegrid import OneDGrid

    def mk(cls_name, rng, n):
        """-> (transform, x in the domain (caller array))."""
        if cls_name == "BeckeRTransform":
            return rt.BeckeRTransform(0.01, float(rng.uniform(0.8, 2.0))), "finite"
        if cls_name == "LinearFiniteRTransform":
            return rt.LinearFiniteRTransform(0.1, float(rng.uniform(2.0, 5.0))), "finite"
        if cls_name == "InverseRTransform":
            return rt.InverseRTransform(rt.BeckeRTransform(0.01, 1.3)), "positive"
        if cls_name == "IdentityRTransform":
            return rt.IdentityRTransform(), "positive"
        if cls_name == "LinearInfiniteRTransform":
            return rt.LinearInfiniteRTransform(0.1, 8.0, b=float(n)), "index"
        if cls_name == "ExpRTransform":
            return rt.ExpRTransform(0.1, 8.0, b=float(n)), "index"
        if cls_name == "PowerRTransform":
            return rt.PowerRTransform(0.1, 8.0, b=float(n)), "index"
        if cls_name == "HyperbolicRTransform":
            return rt.HyperbolicRTransform(0.4 / n, 1.0 / (n + 2)), "index"
        if cls_name == "MultiExpRTransform":
            return rt.MultiExpRTransform(0.01, 1.2), "finite"
        if cls_name == "KnowlesRTransform":
            return rt.KnowlesRTransform(0.01, 1.2, int(rng.integers(1, 4))), "finite"
        if cls_name == "HandyRTransform":
            return rt.HandyRTransform(0.01, 1.2, int(rng.integers(1, 4))), "finite"
        if cls_name == "HandyModRTransform":
            return rt.HandyModRTransform(0.01, 10.0, int(rng.integers(1, 4))), "finite"
        raise KeyError(cls_name)

    def xs(kind, rng, n):
        if kind == "finite":
            return np.sort(rng.uniform(-0.95, 0.95, n))
        if kind == "positive":
            return np.sort(rng.uniform(0.05, 4.0, n))
        return np.arange(n, dtype=float) + rng.uniform(0.0, 0.5, n)

    classes = [n for n, o in vars(rt).items()
               if inspect.isclass(o) and issubclass(o, rt.BaseTransform) and o is not rt.BaseTransform
               and o.__module__ == rt.__name__]
    fwd = ["transform", "deriv", "deriv2", "deriv3"]
    inv = ["inverse", "deriv_inverse", "deriv2_inverse", "deriv3_inverse"]
    for cname in classes:
        klass = getattr(rt, cname)
        try:
            mk(cname, np.random.default_rng(0), 5)
        except KeyError:
            continue  # a transform class this registry does not know: reported as not covered

        @entry(f"rtransform.{cname}.__init__")
        def _(rng, lv, cname=cname):
            return (lambda: mk(cname, rng, 6)[0]), {}

        for meth in fwd + inv:
            owner = next(k for k in klass.__mro__ if meth in vars(k))
            qual = f"rtransform.{owner.__name__}.{meth}"
            for form in ("array", "view", "2d"):
                @entry(qual, f"{cname}-{form}" if owner is not klass else form)
                def _(rng, lv, cname=cname, meth=meth, form=form):
                    n = 6 + 10 * lv
                    tf, kind = mk(cname, rng, n)
                    x = xs(kind, rng, n)
                    if meth in inv:
                        with np.errstate(all="ignore"):
                            x = np.array(tf.transform(x.copy()))
                    if form == "view":
                        buf = np.repeat(x, 2)
                        x = buf[::2]
                    elif form == "2d":
                        x = x.reshape(2, -1)
                    return (lambda x: getattr(tf, meth)(x)), dict(x=x)

        @entry("rtransform.BaseTransform.transform_1d_grid", cname)
        def _(rng, lv, cname=cname):
            n = 6 + 10 * lv
            tf, kind = mk(cname, rng, n)
            pts = xs(kind, rng, n)
            dom = {"finite": (-1.0, 1.0), "positive": (0.02, np.inf), "index": (0.0, float(n))}[kind]
            def call(oned_grid):
                g = tf.transform_1d_grid(oned_grid)
                return g.points, g.weights, g.domain
            return call, dict(oned_grid=OneDGrid(pts, _w(rng, n), dom))

        if "set_maximum_parameter_b" in vars(klass):
            @entry(f"rtransform.{cname}.set_maximum_parameter_b")
            def _(rng, lv, cname=cname):
                n = 6 + 10 * lv
                klass = getattr(rt, cname)
                def call(x):
                    tf = klass(0.1, 8.0)
                    tf.set_maximum_parameter_b(x)
                    return tf.transform(x), tf.b
                return call, dict(x=np.arange(n, dtype=float))

            @entry("rtransform.BaseTransform.transform_1d_grid", f"{cname}-b-from-grid")
            def _(rng, lv, cname=cname):
                n = 6 + 10 * lv
                klass = getattr(rt, cname)
                def call(oned_grid):
                    g = klass(0.1, 8.0).transform_1d_grid(oned_grid)
                    return g.points
                return call, dict(oned_grid=OneDGrid(np.arange(n, dtype=float), np.ones(n), (0.0, float(n - 1))))

    for form in ("array", "even", "list"):
        @entry("rtransform.BeckeRTransform.find_parameter", form)
        def _(rng, lv, form=form):
            n = 7 if form != "even" else 8
            a = np.sort(rng.uniform(-0.9, 0.9, n))
            if form == "list":
                return (lambda array: rt.BeckeRTransform.find_parameter(np.asarray(array), 0.01, 1.5)), dict(array=a.tolist())
            return (lambda array: rt.BeckeRTransform.find_parameter(array, 0.01, 1.5)), dict(array=a)

    @entry("rtransform.InverseRTransform.__init__", "roundtrip")
    def _(rng, lv):
        n = 6 + 10 * lv
        def call(x):
            tf = rt.BeckeRTransform(0.01, 1.3)
            itf = rt.InverseRTransform(tf)
            r = tf.transform(x)
            return itf.transform(r), itf.inverse(x), itf.deriv(r), itf.deriv2(r), itf.deriv3(r)
        return call, dict(x=np.sort(rng.uniform(-0.9, 0.9, n)))

    # onedgrid: every constructor takes integers / floats / a class only (no caller-owned mutable
    # argument): exercised once, counted as trivial
    for cname, klass in vars(omod).items():
        if not (inspect.isclass(klass) and issubclass(klass, OneDGrid) and klass.__module__ == omod.__name__):
            continue
        params = list(inspect.signature(klass.__init__).parameters)[1:]

        @entry(f"onedgrid.{cname}.__init__")
        def _(rng, lv, klass=klass, params=params):
            n = 5 + 2 * int(rng.integers(0, 3)) + 10 * lv
            kw = {}
            if "quadrature" in params:
                kw["quadrature"] = omod.GaussChebyshev
            def call():
                g = klass(n, **kw)
                return g.points, g.weights
            return call, {}


# ---- round 3: integer sequences the library must replace, parameters the audit found unfed,
# ---- grid objects built by the caller, thresholds, magnitudes, method orders, special points ----
def _entries_round3():
    import grid.coulomb as cmod
    import grid.utils as umod
    from grid.angular import AngularGrid
    from grid.atomgrid import AtomGrid
    from grid.basegrid import Grid, LocalGrid, OneDGrid
    from grid.becke import BeckeWeights
    from grid.cubic import UniformGrid
    from grid.hirshfeld import HirshfeldWeights
    from grid.molgrid import MolGrid
    from grid.ngrid import MultiDomainGrid
    from grid.ode import solve_ode_bvp
    from grid.onedgrid import GaussLegendre
    from grid.periodicgrid import PeriodicGrid
    from grid.poisson import interpolate_laplacian, solve_poisson_bvp, solve_poisson_ivp
    from grid.robust_poisson import solve_poisson_robust
    from grid.rtransform import BeckeRTransform, InverseRTransform

    # -- (a) degrees / sizes that are NOT tabulated: the library has to look up the next
    #        supported one, and a write-back of what it found changes the caller's sequence
    UNTAB_DEG = [2, 4, 6, 8, 10, 12]        # Lebedev / design tables hold odd degrees only
    UNTAB_SIZE = [7, 15, 27, 31, 39]        # between the tabulated sizes 6, 14, 26, 38, 50

    for method in ("lebedev", "spherical"):
        for form in ("degrees-list", "degrees-array", "degrees-tuple-as-list", "sizes-list", "sizes-array"):
            @entry("atomgrid.AtomGrid.__init__", f"untabulated-{form}-{method}")
            def _(rng, lv, form=form, method=method):
                n = 3 + 2 * lv
                kw = dict(rgrid=_oned(rng, n), center=rng.normal(0, 0.5, 3))
                if form.startswith("degrees"):
                    d = [int(x) for x in rng.choice(UNTAB_DEG, size=n)]
                    kw["degrees"] = np.array(d) if form == "degrees-array" else d
                else:
                    z = [int(x) for x in rng.choice(UNTAB_SIZE, size=n)]
                    kw["degrees"] = None
                    kw["sizes"] = np.array(z) if form == "sizes-array" else z

                def call(**k):
                    g = AtomGrid(method=method, **k)
                    return g.points, g.degrees, g.indices
                return call, kw

        for form in ("d-list", "d-array", "s-list", "s-array"):
            @entry("atomgrid.AtomGrid.from_pruned", f"untabulated-{form}-{method}")
            def _(rng, lv, form=form, method=method):
                n = 5 + 3 * lv
                r_sectors = [0.3, 0.8, 1.5]
                d = [int(x) for x in rng.choice(UNTAB_DEG, size=4)]
                z = [int(x) for x in rng.choice(UNTAB_SIZE, size=4)]
                kw = dict(rgrid=_oned(rng, n), radius=float(rng.uniform(0.8, 1.5)), center=rng.normal(size=3))
                if form == "d-list":
                    kw.update(r_sectors=r_sectors, d_sectors=d)
                elif form == "d-array":
                    kw.update(r_sectors=np.array(r_sectors), d_sectors=np.array(d))
                elif form == "s-list":
                    kw.update(r_sectors=r_sectors, d_sectors=None, s_sectors=z)
                else:
                    kw.update(r_sectors=np.array(r_sectors), d_sectors=None, s_sectors=np.array(z))

                def call(**k):
                    g = AtomGrid.from_pruned(method=method, **k)
                    return g.points, g.degrees
                return call, kw

    for form in ("d-lists", "d-arrays", "s-lists", "s-arrays"):
        @entry("molgrid.MolGrid.from_pruned", f"untabulated-{form}")
        def _(rng, lv, form=form):
            atnums, atcoords, _g = _mol(rng, 0)
            d = [[int(x) for x in rng.choice(UNTAB_DEG, size=3)] for _ in range(2)]
            z = [[int(x) for x in rng.choice(UNTAB_SIZE, size=3)] for _ in range(2)]
            kw = dict(atnums=atnums, atcoords=atcoords, rgrid=_oned(rng, 5 + 3 * lv), radius=[1.0, 1.2],
                      r_sectors=[[0.5, 1.0], [0.4, 0.9]])
            if form == "d-lists":
                kw["d_sectors"] = d
            elif form == "d-arrays":
                kw["d_sectors"] = [np.array(x) for x in d]
            elif form == "s-lists":
                kw.update(d_sectors=None, s_sectors=z)
            else:
                kw.update(d_sectors=None, s_sectors=[np.array(x) for x in z])

            def call(**k):
                m = MolGrid.from_pruned(**k)
                return m.points, m.weights
            return call, kw

    for form in ("array", "list", "array-2d"):
        @entry("angular.AngularGrid.convert_angular_sizes_to_degrees", f"untabulated-{form}")
        def _(rng, lv, form=form):
            z = [int(x) for x in rng.choice(UNTAB_SIZE, size=4)]
            sizes = {"array": np.array(z), "list": z, "array-2d": np.array(z)}[form]
            return (lambda sizes: AngularGrid.convert_angular_sizes_to_degrees(sizes, "lebedev")), dict(sizes=sizes)

    # the atomic-grid methods on a grid made from untabulated degrees (the array of degrees the
    # caller passed is looked at again by get_shell_grid / radial_component_splines)
    @entry("atomgrid.AtomGrid.get_shell_grid", "untabulated-degrees")
    def _(rng, lv):
        n = 3 + 2 * lv
        kw = dict(rgrid=_oned(rng, n), degrees=np.array([int(x) for x in rng.choice(UNTAB_DEG, size=n)]),
                  center=rng.normal(0, 0.3, 3))

        def call(rgrid, degrees, center):
            g = AtomGrid(rgrid, degrees=degrees, center=center)
            a = g.get_shell_grid(0)
            b = g.get_shell_grid(n - 1, r_sq=False)
            fv = np.ones(g.size)
            sp = g.radial_component_splines(fv)
            return a.points, b.weights, g.integrate_angular_coordinates(fv), len(sp)
        return call, kw

    # -- (b) parameters that no entry fed with a caller-owned array (parameter audit)
    def user_aim(points, atcoords, atnums, indices):
        return np.full(len(points), 1.0 / len(atcoords))

    @entry("molgrid.MolGrid.from_preset", "aim-array")
    def _(rng, lv):
        atnums, atcoords, _g = _mol(rng, 0)
        kw = dict(atnums=atnums, atcoords=atcoords, preset="coarse", rgrid=_radial(rng, 6 + 4 * lv))
        probe = MolGrid.from_preset(atnums.copy(), atcoords.copy(), "coarse", copy.deepcopy(kw["rgrid"]))
        kw["aim_weights"] = rng.uniform(0.1, 1.0, probe.size)
        kw["store"] = bool(rng.integers(0, 2))

        def call(**k):
            m = MolGrid.from_preset(**k)
            return m.points, m.weights, m.aim_weights
        return call, kw

    for form in ("aim-array", "aim-callback"):
        @entry("molgrid.MolGrid.from_pruned", form)
        def _(rng, lv, form=form):
            atnums, atcoords, _g = _mol(rng, 0)
            kw = dict(atnums=atnums, atcoords=atcoords, rgrid=_oned(rng, 6 + 4 * lv), radius=1.0,
                      r_sectors=[[0.5, 1.0], [0.4, 0.9]], d_sectors=[[3, 5, 7], [3, 7, 5]])
            if form == "aim-array":
                probe = MolGrid.from_pruned(atnums.copy(), atcoords.copy(), 1.0, copy.deepcopy(kw["r_sectors"]),
                                            copy.deepcopy(kw["d_sectors"]), rgrid=copy.deepcopy(kw["rgrid"]))
                kw["aim_weights"] = rng.uniform(0.1, 1.0, probe.size)
            else:
                kw["aim_weights"] = CB(user_aim)
            kw["store"] = bool(rng.integers(0, 2))

            def call(**k):
                m = MolGrid.from_pruned(**k)
                return m.points, m.weights, m.aim_weights
            return call, kw

    # -- (c) grid OBJECTS built by the caller and handed to a function: every array they hold is
    #        the caller's (snapshotted / write-protected through the object)
    def radial12(lv):
        btf = BeckeRTransform(1e-4, 1.5)
        g = btf.transform_1d_grid(GaussLegendre(12 + 4 * lv))
        return OneDGrid(np.array(g.points), np.array(g.weights), (0, np.inf)), btf

    def built_atom(rng, lv):
        rgrid, btf = radial12(lv)
        center = rng.normal(0, 0.1, 3)
        grid = AtomGrid(rgrid, degrees=[3 if lv < 2 else 5], center=center)
        r = np.linalg.norm(grid.points - center, axis=1)
        fv = float(rng.uniform(0.8, 1.2)) * np.exp(-float(rng.uniform(0.8, 1.5)) * r**2)
        return dict(grid=grid, func_vals=fv, pts=RO(np.vstack([center, center + _pts(rng, 3, scale=0.8)]))), btf, center

    def built_mol(rng, lv):
        atcoords = np.array([[0.0, 0.0, -0.7], [0.0, 0.0, 0.7]])
        atgrids = []
        for i in range(2):
            rgrid, btf = radial12(lv)
            atgrids.append(AtomGrid(rgrid, degrees=[3], center=atcoords[i].copy()))
        grid = MolGrid(np.array([1, 1]), atgrids, BeckeWeights(), store=True)
        fv = np.exp(-np.sum((grid.points - atcoords[0]) ** 2, axis=1)) + np.exp(-np.sum((grid.points - atcoords[1]) ** 2, axis=1))
        return dict(grid=grid, func_vals=fv * float(rng.uniform(0.8, 1.2)),
                    pts=RO(np.vstack([atcoords[0], _pts(rng, 3, scale=0.8)]))), btf, atcoords

    for target in ("atomgrid", "molgrid"):
        build = built_atom if target == "atomgrid" else built_mol

        @entry("poisson.solve_poisson_bvp", f"{target}-object-of-the-caller", covers=["ode.solve_ode_bvp"])
        def _(rng, lv, build=build, target=target):
            kw, btf, _c = build(rng, lv)
            kw["ode_params"] = {"tol": 1e-3, "max_nodes": 5000}
            tf = InverseRTransform(btf)

            def call(grid, func_vals, pts, ode_params):
                pot = solve_poisson_bvp(grid, func_vals, tf, include_origin=(target == "atomgrid"), ode_params=ode_params)
                return pot(pts), grid.integrate(func_vals)
            return call, kw

        @entry("poisson.solve_poisson_ivp", f"{target}-object-of-the-caller", covers=["ode.solve_ode_ivp"],
               slow=(target == "molgrid"))
        def _(rng, lv, build=build):
            kw, btf, _c = build(rng, lv)
            kw["ode_params"] = {"rtol": 1e-4, "atol": 1e-4}
            tf = InverseRTransform(btf)

            def call(grid, func_vals, pts, ode_params):
                pot = solve_poisson_ivp(grid, func_vals, tf, r_interval=(20.0, 1e-2), ode_params=ode_params)
                return pot(pts)
            return call, kw

        @entry("poisson.interpolate_laplacian", f"{target}-object-of-the-caller")
        def _(rng, lv, build=build):
            kw, btf, c = build(rng, lv)
            c = np.atleast_2d(c)[0]
            # evaluation points on both sides of the cut-off radius handed to the returned function
            cut = 1e-3
            kw["pts"] = RO(np.vstack([c, c + [0.99 * cut, 0, 0], c + [0, 1.01 * cut, 0], c + [0, 0, 100 * cut], c + [0.3, 0.2, 0.1]]))

            def call(grid, func_vals, pts):
                lap = interpolate_laplacian(grid, func_vals)
                return lap(pts), lap(pts, cut)
            return call, kw

        @entry("robust_poisson.solve_poisson_robust", f"{target}-object-of-the-caller",
               covers=["poisson.solve_poisson_bvp", "coulomb.coulomb_potential"])
        def _(rng, lv, build=build, target=target):
            kw, btf, c = build(rng, lv)
            kw["atnums"] = np.array([1]) if target == "atomgrid" else np.array([1, 1])
            kw["atcoords"] = np.atleast_2d(c).copy()
            kw["ode_params"] = {"tol": 1e-3, "max_nodes": 5000}
            kw["func_vals"] = np.abs(kw["func_vals"])
            tf = InverseRTransform(btf)

            def call(grid, func_vals, pts, atnums, atcoords, ode_params):
                pot = solve_poisson_robust(grid, func_vals, tf, atnums, atcoords, ode_params=ode_params,
                                           include_origin=(target == "atomgrid"))
                return pot(pts)
            return call, kw

    for kind in ("grid", "atomgrid", "uniformgrid"):
        @entry("utils.dipole_moment_of_molecule", f"{kind}-object-of-the-caller")
        def _(rng, lv, kind=kind):
            if kind == "grid":
                n = 10 + 10 * lv
                g = Grid(_pts(rng, n, scale=2.0), _w(rng, n))
            elif kind == "atomgrid":
                g = _atgrid(rng, 4 + 2 * lv, 5)
            else:
                g = UniformGrid(np.array([-1.0, -1.0, -1.0]), np.eye(3) * 0.5, np.array([4, 5, 4]))
            kw = dict(grid=g, density=rng.uniform(0, 1, g.size), coords=rng.normal(size=(2, 3)), charges=np.array([1, 8]))
            return (lambda grid, density, coords, charges: umod.dipole_moment_of_molecule(grid, density, coords, charges)), kw

    @entry("basegrid.Grid.moments", "object-of-the-caller-centers-are-the-points")
    def _(rng, lv):
        # the centres ARE the grid's points (equal shapes: the alias pattern passes one array)
        n = 5 + 4 * lv
        pts = _pts(rng, n)
        return (lambda grid, centers, func_vals: grid.moments(1, centers, func_vals, type_mom="cartesian")), dict(
            grid=Grid(pts.copy(), _w(rng, n)), centers=pts, func_vals=rng.normal(size=n))

    # -- (d) equal shapes that make the alias pattern applicable to more parameters
    @entry("basegrid.LocalGrid.__init__", "1d")
    def _(rng, lv):
        n = 6 + 5 * lv

        def call(points, weights, center, indices):
            g = LocalGrid(points, weights, center, indices)
            return g.center, g.indices, g.integrate(g.weights)
        return call, dict(points=np.sort(rng.uniform(-1, 1, n)), weights=_w(rng, n), center=np.array(0.2), indices=np.arange(n))

    for which in ("becke", "hirshfeld"):
        @entry(f"{'becke.BeckeWeights' if which == 'becke' else 'hirshfeld.HirshfeldWeights'}.__call__", "points-are-the-nuclei")
        def _(rng, lv, which=which):
            natom = 2 + (lv > 0)
            atcoords = np.array([[0.0, 0.0, -0.7], [0.0, 0.0, 0.7], [0.9, 0.3, 0.0]])[:natom] + rng.normal(0, 0.05, (natom, 3))
            kw = dict(points=atcoords.copy(), atcoords=atcoords, atnums=np.array([1, 8, 6][:natom]),
                      indices=np.arange(natom + 1))
            w = BeckeWeights(order=3) if which == "becke" else HirshfeldWeights()
            return (lambda points, atcoords, atnums, indices: w(points, atcoords, atnums, indices)), kw

    for meth in ("generate_weights", "compute_weights"):
        @entry(f"becke.BeckeWeights.{meth}", "points-are-the-nuclei")
        def _(rng, lv, meth=meth):
            atcoords = np.array([[0.0, 0.0, -0.7], [0.0, 0.0, 0.7]]) + rng.normal(0, 0.05, (2, 3))
            kw = dict(points=atcoords.copy(), atcoords=atcoords, atnums=np.array([1, 8]), select=[0, 1], pt_ind=[0, 1, 2])
            return (lambda **k: getattr(BeckeWeights(), meth)(**k)), kw

    @entry("coulomb.coulomb_potential", "points-are-the-centres")
    def _(rng, lv):
        k = 3 + lv
        c = _pts(rng, k)
        kw = dict(points=c.copy(), centers_s=c, coeffs_s=rng.uniform(0.1, 1, k), alphas_s=rng.uniform(0.3, 3, k),
                  centers_p=c.copy(), coeffs_p=rng.uniform(0.1, 1, k), alphas_p=rng.uniform(0.3, 3, k))
        return (lambda **a: cmod.coulomb_potential(**a)), kw

    @entry("periodicgrid.PeriodicGrid.__init__", "three-points-like-realvecs")
    def _(rng, lv):
        rv = np.eye(3) * rng.uniform(0.8, 1.5, 3) + rng.normal(0, 0.05, (3, 3))

        def call(points, weights, realvecs, center):
            g = PeriodicGrid(points, weights, realvecs, wrap=True)
            return g.points, g.get_localgrid(center, 0.8).points
        return call, dict(points=rng.uniform(-1.5, 2.5, (3, 3)), weights=_w(rng, 3), realvecs=rv, center=np.zeros(3))

    @entry("ngrid.MultiDomainGrid.moments", "centers-are-the-points")
    def _(rng, lv):
        n = 3
        pts = _pts(rng, n)
        return (lambda grid_list, centers, func_vals: MultiDomainGrid(grid_list).moments(1, centers, func_vals)), dict(
            grid_list=[Grid(pts.copy(), _w(rng, n))], centers=pts, func_vals=rng.normal(size=n))

    @entry("ode.solve_ode_bvp", "three-nodes-like-coeffs")
    def _(rng, lv):
        x = np.array([0.0, 0.6, 1.5])
        return (lambda x, fx, coeffs, bd_cond: solve_ode_bvp(x, fx, coeffs, bd_cond, tol=1e-3, max_nodes=400).x), dict(
            x=x, fx=CB(lambda t: np.sin(t) + 1.0), coeffs=np.array([1.0, 0.5, 2.0]), bd_cond=[[0, 0, 0.0], [1, 0, 1.0]])

    # -- (e) inputs next to the hard-coded thresholds of the anchored modules (class 7): both sides
    #        within 1 % and a factor 100 (a branch that works in place must be reached)
    for fname in ("coulomb_gaussian_s", "coulomb_gaussian_p"):
        if not hasattr(cmod, fname):
            continue

        @entry(f"coulomb.{fname}", "around-the-small-r-threshold")
        def _(rng, lv, fname=fname):
            t = 1e-12
            r = np.array([0.0, 1e-300, t / 100, 0.99 * t, t, 1.01 * t, 100 * t, 1.0])
            rng.shuffle(r)
            alpha = float(rng.choice([1e-12, 1.0, 1e12]))
            return (lambda r: getattr(cmod, fname)(r, alpha)), dict(r=r)

    @entry("coulomb.coulomb_potential", "points-within-the-threshold-of-a-centre")
    def _(rng, lv):
        c = _pts(rng, 2)
        d = np.array([[0.99e-12, 0, 0], [0, 1.01e-12, 0], [0, 0, 1e-10], [0, 0, 0]])
        kw = dict(points=np.vstack([c[0] + d, c[1] + d]), centers_s=c, coeffs_s=rng.uniform(0.1, 1, 2), alphas_s=rng.uniform(0.3, 3, 2),
                  centers_p=c.copy(), coeffs_p=rng.uniform(0.1, 1, 2), alphas_p=rng.uniform(0.3, 3, 2))
        return (lambda **a: cmod.coulomb_potential(**a)), kw

    for what in ("r", "phi"):
        for side in (0.01, 0.99, 1.01, 100.0):
            @entry("utils.convert_derivative_from_spherical_to_cartesian", f"{what}-at-{side}-of-1e-10")
            def _(rng, lv, what=what, side=side):
                d = rng.normal(size=3)
                r, t, p = float(rng.uniform(0.2, 2)), float(rng.uniform(-3, 3)), float(rng.uniform(0.1, 3))
                if what == "r":
                    r = side * 1e-10
                else:
                    p = side * 1e-10
                vals = [np.array(float(v)) for v in (d[0], d[1], d[2], r, t, p)]
                names = ["deriv_r", "deriv_theta", "deriv_phi", "r", "theta", "phi"]
                return (lambda **a: umod.convert_derivative_from_spherical_to_cartesian(**a)), dict(zip(names, vals))

    @entry("utils.generate_derivative_real_spherical_harmonics", "phi-around-the-pole-window")
    def _(rng, lv):
        w = 1e-10
        phi = np.array([0.0, 0.01 * w, 0.99 * w, 1.01 * w, 100 * w, np.pi - 0.99 * w, np.pi - 1.01 * w, np.pi, 1.0])
        theta = rng.uniform(-np.pi, np.pi, len(phi))
        return (lambda theta, phi: umod.generate_derivative_real_spherical_harmonics(2 + lv, theta, phi)), dict(theta=theta, phi=phi)

    for side in (0.99, 1.01, 100.0):
        @entry("basegrid.OneDGrid.__init__", f"point-{side}e-7-outside-the-domain")
        def _(rng, lv, side=side):
            n = 5
            pts = np.sort(rng.uniform(-0.9, 0.9, n))
            pts[0] = -1.0 - side * 1e-7
            pts[-1] = 1.0 + side * 1e-7
            return (lambda points, weights, domain: OneDGrid(points, weights, domain).points), dict(
                points=pts, weights=_w(rng, n), domain=(-1.0, 1.0))

    for side in (0.0, 0.99, 1.01, 100.0):
        @entry("atomgrid.AtomGrid.integrate_angular_coordinates", f"first-radius-{side}e-8",
               covers=["atomgrid.AtomGrid.spherical_average", "atomgrid.AtomGrid.radial_component_splines"])
        def _(rng, lv, side=side):
            n = 4 + 2 * lv
            pts = np.sort(rng.uniform(0.05, 3.0, n)) + np.arange(n) * 0.05
            pts[0] = side * 1e-8
            kw = dict(rgrid=OneDGrid(pts, _w(rng, n), (0, np.inf)), degrees=[5], center=rng.normal(0, 0.3, 3))
            size = AtomGrid(copy.deepcopy(kw["rgrid"]), degrees=[5]).size
            kw["func_vals"] = rng.normal(size=(2, size))
            kw["r"] = RO(np.array([0.0, 0.5e-8, 0.5, 1.0]))

            def call(rgrid, degrees, center, func_vals, r):
                g = AtomGrid(rgrid, degrees=degrees, center=center)
                a = g.integrate_angular_coordinates(func_vals)
                s = g.spherical_average(func_vals[0])
                sp = g.radial_component_splines(func_vals[1])
                return a, s(r), [q(r) for q in sp]
            return call, kw

    for side in (0.0, 0.99, 1.01, 100.0):
        @entry("ode.solve_ode_bvp", f"leading-coefficient-{side}e-10")
        def _(rng, lv, side=side):
            x = np.linspace(0.0, 1.0, 8)
            lead = side * 1e-10

            def top(t):
                return np.where(t < 0.5, 1.0, lead) + 0.0 * t
            return (lambda x, fx, coeffs, bd_cond: solve_ode_bvp(x, fx, coeffs, bd_cond, tol=1e-2, max_nodes=60).x), dict(
                x=x, fx=CB(lambda t: np.sin(t) + 1.0), coeffs=[CB(lambda t: 1.0 + 0.0 * t), 0.5, CB(top)],
                bd_cond=[[0, 0, 0.0], [1, 0, 1.0]])

    # -- (f) data of extreme but legal magnitude (class 8): a normalisation / clipping step that
    #        works in place only for tiny or huge values must be reached
    for scale in (1e-300, 1e-50, 1e-12, 1e12, 1e150):
        @entry("basegrid.Grid.integrate", f"values-x{scale:g}")
        def _(rng, lv, scale=scale):
            n = 7
            kw = dict(points=_pts(rng, n), weights=_w(rng, n) * (scale if scale < 1 else 1.0), a=rng.normal(size=n) * scale,
                      b=rng.normal(size=n))
            return (lambda points, weights, a, b: Grid(points, weights).integrate(a, b)), kw

        @entry("atomgrid.AtomGrid.interpolate", f"values-x{scale:g}")
        def _(rng, lv, scale=scale):
            n = 4
            kw = dict(rgrid=_oned(rng, n), degrees=[5], center=rng.normal(0, 0.3, 3) + (2.0**12 if scale > 1 else 0.0))
            size = AtomGrid(copy.deepcopy(kw["rgrid"]), degrees=[5]).size
            kw["func_vals"] = rng.normal(size=size) * scale
            kw["pts"] = RO(kw["center"] + _pts(rng, 3))

            def call(rgrid, degrees, center, func_vals, pts):
                g = AtomGrid(rgrid, degrees=degrees, center=center)
                f = g.interpolate(func_vals)
                return f(pts), f(pts, deriv=1), g.moments(1, center.reshape(1, 3), func_vals, type_mom="pure")
            return call, kw

    for shift in (2.0**10, 2.0**20):
        @entry("becke.BeckeWeights.__call__", f"molecule-translated-by-{int(shift)}")
        def _(rng, lv, shift=shift):
            n = 5
            atcoords = np.array([[0.0, 0.0, -0.7], [0.0, 0.0, 0.7]]) + shift
            kw = dict(points=_pts(rng, 2 * n, scale=1.5) + shift, atcoords=atcoords, atnums=np.array([1, 8]),
                      indices=np.array([0, n, 2 * n]))
            return (lambda points, atcoords, atnums, indices: BeckeWeights()(points, atcoords, atnums, indices)), kw

        @entry("periodicgrid.PeriodicGrid.get_localgrid", f"translated-by-{int(shift)}")
        def _(rng, lv, shift=shift):
            n = 12
            kw = dict(points=rng.uniform(-1.5, 2.5, (n, 3)) + shift, weights=_w(rng, n),
                      realvecs=np.eye(3) * rng.uniform(0.8, 1.5, 3), center=rng.uniform(-1, 1, 3) + shift)

            def call(points, weights, realvecs, center):
                g = PeriodicGrid(points, weights, realvecs, wrap=True)
                return g.points, g.get_localgrid(center, 0.7).points
            return call, kw

    @entry("coulomb.coulomb_potential", "exponents-over-24-orders")
    def _(rng, lv):
        k = 5
        kw = dict(points=_pts(rng, 6, scale=2.0), centers_s=_pts(rng, k), coeffs_s=np.array([1e-12, 1.0, 1e12, 1e-300, 1.0]),
                  alphas_s=np.array([1e-12, 1e-6, 1.0, 1e6, 1e12]))
        return (lambda **a: cmod.coulomb_potential(**a)), kw

    # -- (g) two public methods of one object in either order, the caller's arrays given to the
    #        first one must survive the second (class 10); first call with a non-default option (11)
    for order in ("interpolate-then-average", "average-then-interpolate"):
        @entry("atomgrid.AtomGrid.interpolate", order, covers=["atomgrid.AtomGrid.spherical_average"])
        def _(rng, lv, order=order):
            n = 4 + 2 * lv
            kw = dict(rgrid=_oned(rng, n), degrees=[int(d) for d in rng.choice([3, 5], size=n)], center=rng.normal(0, 0.3, 3))
            size = AtomGrid(copy.deepcopy(kw["rgrid"]), degrees=list(kw["degrees"])).size
            kw["f1"] = rng.normal(size=size)
            kw["f2"] = rng.normal(size=size)
            kw["pts"] = RO(_pts(rng, 3))
            kw["r"] = RO(rng.uniform(0.1, 2.0, 4))

            def call(rgrid, degrees, center, f1, f2, pts, r):
                g = AtomGrid(rgrid, degrees=degrees, center=center)
                if order.startswith("interpolate"):
                    f = g.interpolate(f1)
                    s = g.spherical_average(f2)
                else:
                    s = g.spherical_average(f2)
                    f = g.interpolate(f1)
                g.get_localgrid(center, 1.0)
                return f(pts), s(r), g.integrate(f1, f2), f(pts, deriv=1)
            return call, kw

    for order in ("setter-integrate-setter", "integrate-setter-integrate"):
        @entry("basegrid.Grid.weights", order, covers=["basegrid.Grid.integrate", "basegrid.Grid.points"])
        def _(rng, lv, order=order):
            n = 8
            def call(points, weights, w2, p2, v):
                g = Grid(points, weights)
                out = []
                if order.startswith("integrate"):
                    out.append(g.integrate(v))
                g.weights = w2
                out.append(g.integrate(v))
                g.points = p2
                g.weights = weights
                out.append(g.integrate(v, g.weights))
                return out
            return call, dict(points=_pts(rng, n), weights=_w(rng, n), w2=_w(rng, n), p2=_pts(rng, n), v=rng.normal(size=n))

    for store in (True, False):
        for order in ("getitem-first", "interpolate-first"):
            @entry("molgrid.MolGrid.get_atomic_grid", f"{order}-store-{store}",
                   covers=["molgrid.MolGrid.__getitem__", "molgrid.MolGrid.interpolate"])
            def _(rng, lv, store=store, order=order):
                atnums, atcoords, atgrids = _mol(rng, lv)
                size = sum(g.size for g in atgrids)
                kw = dict(atnums=atnums, atgrids=atgrids, aim_weights=rng.uniform(0.2, 1.0, size), fv=rng.normal(size=size),
                          pts=RO(_pts(rng, 3)))

                def call(atnums, atgrids, aim_weights, fv, pts):
                    m = MolGrid(atnums, atgrids, aim_weights, store=store)   # store=False first: nothing kept yet
                    out = []
                    steps = [lambda: m[0].points, lambda: m.get_atomic_grid(1).weights]
                    if store:
                        steps.append(lambda: m.interpolate(fv)(pts))
                    if order == "interpolate-first":
                        steps.reverse()
                    for s in steps:
                        out.append(s())
                    out.append(m.integrate(fv))
                    return out
                return call, kw

    for cache in (False, True):
        @entry("angular.AngularGrid.__init__", f"first-call-cache-{cache}-then-the-other")
        def _(rng, lv, cache=cache):
            # a degree nobody asked for before in this process, first with the given `cache`
            deg = int(rng.choice([41, 47, 53, 59]))
            def call(first_points):
                a = AngularGrid(deg, cache=cache)
                b = AngularGrid(deg, cache=not cache)
                return a.points + first_points[: 1], b.weights
            return call, dict(first_points=np.array(AngularGrid(3, cache=cache).points))

    # -- (h) special points (class 12): single-point / single-shell grids, the centre itself, points on an axis
    @entry("basegrid.Grid.get_localgrid", "single-point-grid-centre-on-it")
    def _(rng, lv):
        p = _pts(rng, 1)
        def call(points, weights, center):
            g = Grid(points, weights)
            lg = g.get_localgrid(center, 0.5)
            return lg.points, g.integrate(np.ones(1)), g[0].points
        return call, dict(points=p, weights=_w(rng, 1), center=p[0].copy())

    @entry("atomgrid.AtomGrid.__init__", "single-shell-zero-radius-and-centre-far-away")
    def _(rng, lv):
        center = rng.normal(0, 0.3, 3) + 2.0**10
        kw = dict(rgrid=OneDGrid(np.array([0.0]), np.array([1.0]), (0, np.inf)), degrees=np.array([4]), center=center)
        kw["pts"] = np.vstack([center, np.zeros(3), center + [0.0, 0.0, 1.0]])

        def call(rgrid, degrees, center, pts):
            g = AtomGrid(rgrid, degrees=degrees, center=center)
            return g.points, g.convert_cartesian_to_spherical(pts), g.convert_cartesian_to_spherical(), g.get_shell_grid(0).points
        return call, kw

    @entry("atomgrid.AtomGrid.convert_cartesian_to_spherical", "centre-origin-axis-points")
    def _(rng, lv):
        center = rng.normal(0, 0.5, 3)
        kw = dict(rgrid=_oned(rng, 4), degrees=[3], center=center)
        kw["points"] = np.vstack([center, np.zeros(3), center + [0, 0, 1.0], center - [0, 0, 1.0], center + [1.0, 0, 0]])
        kw["new_center"] = np.zeros(3)

        def call(rgrid, degrees, center, points, new_center):
            g = AtomGrid(rgrid, degrees=degrees, center=center)
            return g.convert_cartesian_to_spherical(points), g.convert_cartesian_to_spherical(points, new_center)
        return call, kw

    @entry("cubic.UniformGrid.closest_point", "point-on-a-node-and-outside")
    def _(rng, lv):
        kw = dict(origin=rng.normal(0, 0.2, 3), axes=np.diag(rng.uniform(0.2, 0.5, 3)), shape=np.array([4, 5, 4]))
        kw["p_node"] = kw["origin"] + kw["axes"] @ np.array([1.0, 2.0, 3.0])
        kw["p_out"] = kw["origin"] - 5.0

        def call(origin, axes, shape, p_node, p_out):
            g = UniformGrid(origin, axes, shape)
            return g.closest_point(p_node), g.closest_point(p_out, "origin"), g.closest_point(origin)
        return call, kw


    # -- (i) holes shown by the in-place mutation run (harness/props/c20_sensitivity.py): branches and
    #        argument kinds for which the IR flagged a mutant that no entry could observe
    import grid.onedgrid as omod

    for dim in (1,):
        for wrap in (True, False):
            @entry("periodicgrid.PeriodicGrid.points", f"setter-1d-wrap{wrap}")
            def _(rng, lv, wrap=wrap):
                n = 10 + 10 * lv
                kw = dict(points=rng.uniform(-1.5, 2.5, n), weights=_w(rng, n), realvecs=np.array([float(rng.uniform(0.8, 1.5))]),
                          new_points=rng.uniform(-1.5, 2.5, n), center=np.array(float(rng.uniform(-1, 1))))

                def call(points, weights, realvecs, new_points, center):
                    g = PeriodicGrid(points, weights, realvecs, wrap=wrap)
                    g.get_localgrid(center, 0.5)
                    g.points = new_points
                    return g.frac_intvls, g.get_localgrid(center, 0.7).points
                return call, kw

    # "scalars" handed over as 0-d arrays (mutable, unlike Python numbers: `x //= n` writes into them)
    for dim in (2, 3):
        @entry("cubic._HyperRectangleGrid.index_to_coordinates", f"{dim}d-index-0d-array")
        def _(rng, lv, dim=dim):
            n = 5
            kw = dict(origin=rng.normal(0, 0.2, dim), axes=np.diag(rng.uniform(0.2, 0.5, dim)), shape=np.array([n, n + 1, n][:dim]),
                      index=np.array(int(rng.integers(0, 20))))
            return (lambda origin, axes, shape, index: UniformGrid(origin, axes, shape).index_to_coordinates(index)), kw

    @entry("cubic.UniformGrid.from_molecule", "spacing-extension-0d-arrays")
    def _(rng, lv):
        kw = dict(atcorenums=np.array([1.0, 8.0, 1.0]), atcoords=rng.normal(0, 0.8, (3, 3)), spacing=np.array(0.9),
                  extension=np.array(1.5))
        rot = bool(rng.integers(0, 2))
        return (lambda **k: UniformGrid.from_molecule(rotate=rot, **k).points), kw

    for cname in ("SingleTanh", "SingleExp", "SingleArcSinhExp", "TanhSinh"):
        klass = getattr(omod, cname, None)
        if klass is None or "h" not in inspect.signature(klass.__init__).parameters:
            continue

        @entry(f"onedgrid.{cname}.__init__", "h-0d-array")
        def _(rng, lv, klass=klass):
            return (lambda h: klass(11, h).points), dict(h=np.array(float(rng.uniform(0.05, 0.2))))

    @entry("coulomb.coulomb_gaussian_s", "alpha-0d-array")
    def _(rng, lv):
        return (lambda r, alpha: cmod.coulomb_gaussian_s(r, alpha)), dict(r=rng.uniform(0.0, 3.0, 6), alpha=np.array(1.3))


    # -- (j) ODE initial values / boundary conditions / intervals in every container kind, for orders
    #        1, 2 and 3, with and without a transform (for order 3 with a transform the initial
    #        derivatives are obtained from a 2x2 linear solve: a LAPACK call that is allowed to
    #        overwrite its right-hand side writes into a *view* of the caller's y0, whatever its
    #        writeable flag says)
    from grid.ode import solve_ode_ivp
    from grid.rtransform import BeckeRTransform as _Becke

    def rhs(x):
        return np.sin(x) + 1.0

    def ode_coeffs(order, kind):
        vals = [1.0, 0.5, 2.0, 1.5][: order + 1]
        if kind == "array":
            return np.array(vals)
        if kind == "list":
            return list(vals)
        return [CB(lambda x, v=v: v + 0.1 * x) if i % 2 == 0 else v for i, v in enumerate(vals)]

    for order in (1, 2, 3):
        for tf in (False, True):
            for yform in ("list", "tuple-as-list", "array", "int-array", "row-view", "strided-view", "float32"):
                @entry("ode.solve_ode_ivp", f"order{order}{'-transform' if tf else ''}-y0-{yform}")
                def _(rng, lv, order=order, tf=tf, yform=yform):
                    vals = [float(v) for v in rng.normal(size=order)]
                    if yform == "int-array":
                        vals = [float(int(v * 3)) for v in vals]
                    table = np.full((3, order), 7.25)
                    table[1] = vals
                    strided = np.full(2 * order + 1, 7.25)
                    strided[1::2] = vals
                    y0 = {"list": list(vals), "tuple-as-list": list(vals), "array": np.array(vals),
                          "int-array": np.array(vals).astype(int), "row-view": table[1], "strided-view": strided[1::2],
                          "float32": np.array(vals, dtype=np.float32)}[yform]
                    span = (-0.9, -0.1) if tf else (0.1, 0.8)
                    kw = dict(x_span=np.array(span) if rng.random() < 0.5 else span, fx=CB(rhs),
                              coeffs=ode_coeffs(order, str(rng.choice(["array", "list", "mixed"]))), y0=y0,
                              pts=RO(np.linspace(span[0] + 0.05, span[1] - 0.05, 3)))
                    transform = _Becke(0.05, 1.2) if tf else None
                    nod = bool(rng.integers(0, 2))

                    def call(x_span, fx, coeffs, y0, pts):
                        sol = solve_ode_ivp(x_span, fx, coeffs, y0, transform, no_derivatives=nod, method="RK45",
                                            rtol=1e-4, atol=1e-5)
                        return sol(pts)
                    return call, kw

            for bform in ("lists", "tuples", "int-array", "int-row-view", "float-array", "object-array"):
                @entry("ode.solve_ode_bvp", f"order{order}{'-transform' if tf else ''}-bd_cond-{bform}")
                def _(rng, lv, order=order, tf=tf, bform=bform):
                    n = 8
                    x = np.linspace(-0.9, 0.5, n) if tf else np.linspace(0.0, 1.5, n)
                    rows = [[0, 0, 0], [1, 0, 1], [0, 1, 1]][:order]
                    table = np.full((3, order, 3), 9)
                    table[1] = rows
                    bd = {"lists": [list(r_) for r_ in rows], "tuples": [tuple(r_) for r_ in rows], "int-array": np.array(rows),
                          "int-row-view": table[1], "float-array": np.array(rows, dtype=float),
                          "object-array": np.array(rows, dtype=object)}[bform]
                    kw = dict(x=x, fx=CB(rhs), coeffs=ode_coeffs(order, str(rng.choice(["array", "list", "mixed"]))), bd_cond=bd,
                              initial_guess_y=rng.normal(size=(order, n)))
                    transform = _Becke(0.05, 1.2) if tf else None

                    def call(x, fx, coeffs, bd_cond, initial_guess_y):
                        sol = solve_ode_bvp(x, fx, coeffs, bd_cond, transform, tol=1e-2, max_nodes=300,
                                            initial_guess_y=initial_guess_y)
                        return sol(x[1:-1])
                    return call, kw

    for rform in ("tuple", "list", "array", "row-view", "int-array"):
        @entry("poisson.solve_poisson_ivp", f"atomgrid-r_interval-{rform}", covers=["ode.solve_ode_ivp"])
        def _(rng, lv, rform=rform):
            kw, btf, _c = built_atom(rng, lv)
            vals = (20.0, 1e-2) if rform != "int-array" else (20, 1)
            table = np.full((3, 2), 5.5)
            table[1] = vals
            kw["r_interval"] = {"tuple": tuple(vals), "list": list(vals), "array": np.array(vals), "row-view": table[1],
                                "int-array": np.array(vals)}[rform]
            kw["ode_params"] = {"rtol": 1e-4, "atol": 1e-4}
            tf = InverseRTransform(btf)

            def call(grid, func_vals, pts, ode_params, r_interval):
                return solve_poisson_ivp(grid, func_vals, tf, r_interval=r_interval, ode_params=ode_params)(pts)
            return call, kw


# ---- round 4: two-step histories (construct from the caller's arrays, then every setter / mutating
# ---- method), classes 14-20 of AGENT_ROUND4.md ------------------------------------------------------
def _kinded(a, kind):
    """The array `a` in another dtype / memory layout (a caller-owned array, possibly a view)."""
    a = np.asarray(a)
    if kind == "float32":
        return a.astype(np.float32)
    if kind == "int":
        return np.rint(a * 4).astype(np.int64)
    if kind == "fortran":
        return np.asfortranarray(a)
    if kind == "negstride":
        return a[::-1].copy()[::-1]
    if kind == "strided":
        buf = np.repeat(a, 2, axis=0)
        return buf[::2]
    if kind == "readonly":
        b = np.array(a)
        b.flags.writeable = False
        return b
    return np.array(a)


def _entries_round4():
    import grid.coulomb as cmod
    import grid.onedgrid as omod
    import grid.rtransform as rt
    import grid.utils as umod
    from grid.angular import AngularGrid
    from grid.atomgrid import AtomGrid
    from grid.basegrid import Grid, LocalGrid, OneDGrid
    from grid.becke import BeckeWeights
    from grid.cubic import Tensor1DGrids, UniformGrid
    from grid.molgrid import MolGrid
    from grid.ngrid import MultiDomainGrid
    from grid.ode import solve_ode_bvp, solve_ode_ivp
    from grid.periodicgrid import PeriodicGrid
    from grid.poisson import interpolate_laplacian, solve_poisson_bvp
    from grid.robust_poisson import solve_poisson_robust

    # ------------------------------------------------------------------------------------------
    # (k) histories: object built from the caller's arrays (twice: the two objects share them), an
    #     infinite-radius local grid taken from it, then every property setter twice with caller
    #     arrays, the mutating public methods in between (get_localgrid: tree, radial_component_splines:
    #     basis cache), the setter again.  Snapshots: constructor arguments, both new values; inside the
    #     call: the twin object, the local grid and the first new value must be what they were.
    # ------------------------------------------------------------------------------------------
    def f_grid(rng, lv):
        n = 6 + 4 * lv
        return (lambda points, weights: Grid(points, weights)), dict(points=_pts(rng, n), weights=_w(rng, n))

    def f_grid1d(rng, lv):
        n = 5 + 4 * lv
        return (lambda points, weights: Grid(points, weights)), dict(points=np.sort(rng.uniform(-1, 1, n)), weights=_w(rng, n))

    def f_oned(rng, lv):
        n = 5 + 4 * lv
        return (lambda points, weights, domain: OneDGrid(points, weights, domain)), dict(
            points=np.sort(rng.uniform(-1, 1, n)), weights=_w(rng, n), domain=(-2.0, 2.0))

    def f_local(rng, lv):
        n = 5 + 4 * lv
        return (lambda points, weights, center, indices: LocalGrid(points, weights, center, indices)), dict(
            points=_pts(rng, n), weights=_w(rng, n), center=rng.normal(size=3), indices=np.arange(n))

    def f_atom(rng, lv):
        n = 3 + 2 * lv
        return (lambda rgrid, degrees, center: AtomGrid(rgrid, degrees=degrees, center=center)), dict(
            rgrid=_oned(rng, n), degrees=[int(d) for d in rng.choice([3, 4, 5], size=n)], center=rng.normal(0, 0.3, 3))

    def f_mol(rng, lv):
        atnums, atcoords, atgrids = _mol(rng, lv)
        size = sum(g.size for g in atgrids)
        store = bool(rng.integers(0, 2))
        return (lambda atnums, atgrids, aim_weights: MolGrid(atnums, atgrids, aim_weights, store=store)), dict(
            atnums=atnums, atgrids=atgrids, aim_weights=rng.uniform(0.2, 1.0, size))

    def f_uniform(rng, lv):
        return (lambda origin, axes, shape: UniformGrid(origin, axes, shape)), dict(
            origin=rng.normal(0, 0.2, 3), axes=np.diag(rng.uniform(0.2, 0.5, 3)) + rng.normal(0, 0.02, (3, 3)),
            shape=np.array([2, 3, 4]))

    def f_tensor(rng, lv):
        return (lambda oned_x, oned_y, oned_z: Tensor1DGrids(oned_x, oned_y, oned_z)), dict(
            oned_x=_oned(rng, 2, False), oned_y=_oned(rng, 3, False), oned_z=_oned(rng, 4, False))

    def f_periodic(wrap, dim):
        def f(rng, lv):
            n = 8 + 6 * lv
            if dim == 1:
                pts, rv = rng.uniform(-1.5, 2.5, n), np.array([float(rng.uniform(0.8, 1.5))])
            else:
                pts = rng.uniform(-1.5, 2.5, (n, 3))
                rv = np.eye(3) * rng.uniform(0.8, 1.5, 3) + rng.normal(0, 0.05, (3, 3))
            return (lambda points, weights, realvecs: PeriodicGrid(points, weights, realvecs, wrap=wrap)), dict(
                points=pts, weights=_w(rng, n), realvecs=rv)
        return f

    def f_angular(rng, lv):
        deg = int(rng.choice([3, 5, 7]))
        cache = bool(rng.integers(0, 2))
        return (lambda: AngularGrid(deg, cache=cache)), {}

    def f_multi(rng, lv):
        return (lambda grid_list: MultiDomainGrid(grid_list)), dict(grid_list=[Grid(_pts(rng, 3), _w(rng, 3)), Grid(_pts(rng, 2), _w(rng, 2))])

    def f_gl(rng, lv):
        n = int(rng.integers(3, 8))
        return (lambda: omod.GaussLegendre(n)), {}

    def f_transformed(cls_name):
        def f(rng, lv):
            n = 5 + 3 * lv
            tf = rt.IdentityRTransform() if cls_name == "IdentityRTransform" else rt.BeckeRTransform(0.01, 1.3)
            if cls_name == "IdentityRTransform":
                oned = OneDGrid(np.sort(rng.uniform(0.05, 4.0, n)), _w(rng, n), (0, np.inf))
            else:
                oned = OneDGrid(np.sort(rng.uniform(-0.95, 0.95, n)), _w(rng, n), (-1, 1))
            return (lambda oned_grid: tf.transform_1d_grid(oned_grid)), dict(oned_grid=oned)
        return f

    def f_handed_out(kind):
        def f(rng, lv):
            if kind == "infinite-localgrid":
                n = 6
                return (lambda points, weights, center: Grid(points, weights).get_localgrid(center, np.inf)), dict(
                    points=_pts(rng, n), weights=_w(rng, n), center=np.zeros(3))
            if kind == "shell-grid":
                mk, kw = f_atom(rng, lv)
                r_sq = bool(rng.integers(0, 2))
                return (lambda **k: mk(**k).get_shell_grid(0, r_sq=r_sq)), kw
            if kind in ("molgrid-item-store", "molgrid-item-nostore"):
                atnums, atcoords, atgrids = _mol(rng, lv)
                size = sum(g.size for g in atgrids)
                st_ = kind.endswith("-store")
                return (lambda atnums, atgrids, aim_weights: MolGrid(atnums, atgrids, aim_weights, store=st_)[1]), dict(
                    atnums=atnums, atgrids=atgrids, aim_weights=rng.uniform(0.2, 1.0, size))
            if kind == "grid-slice":
                n = 7
                return (lambda points, weights: Grid(points, weights)[1:5]), dict(points=_pts(rng, n), weights=_w(rng, n))
            raise KeyError(kind)
        return f

    factories = {
        "Grid": f_grid, "Grid-1d": f_grid1d, "OneDGrid": f_oned, "LocalGrid": f_local, "AtomGrid": f_atom, "MolGrid": f_mol,
        "UniformGrid": f_uniform, "Tensor1DGrids": f_tensor, "PeriodicGrid-wrap": f_periodic(True, 3),
        "PeriodicGrid-nowrap": f_periodic(False, 3), "PeriodicGrid-1d": f_periodic(True, 1), "AngularGrid": f_angular,
        "MultiDomainGrid": f_multi, "GaussLegendre": f_gl,
        "transform_1d_grid-Identity": f_transformed("IdentityRTransform"), "transform_1d_grid-Becke": f_transformed("BeckeRTransform"),
        "infinite-localgrid": f_handed_out("infinite-localgrid"), "shell-grid": f_handed_out("shell-grid"),
        "molgrid-item-store": f_handed_out("molgrid-item-store"), "molgrid-item-nostore": f_handed_out("molgrid-item-nostore"),
        "grid-slice": f_handed_out("grid-slice"),
    }

    def probe_of(fac, seed_rng_state, lv):
        mk, kw = fac(np.random.default_rng(seed_rng_state), lv)
        return mk(**kw)

    def owner_of(klass, prop):
        for k in klass.__mro__:
            if prop in vars(k) and isinstance(vars(k)[prop], property) and vars(k)[prop].fset is not None:
                return f"{k.__module__[5:]}.{k.__name__}.{prop}"
        return None

    for cname, fac in factories.items():
        try:
            probe = probe_of(fac, 12345, 0)
        except Exception:  # noqa: BLE001 - a class this tree cannot build: reported by the ordinary entries
            continue
        setters = sorted(pn for pn in dir(type(probe)) if not pn.startswith("_")
                         and isinstance(getattr(type(probe), pn, None), property) and getattr(type(probe), pn).fset is not None)
        for prop in setters:
            qual = owner_of(type(probe), prop)
            if qual is None:
                continue

            @entry(qual, f"history-{cname}")
            def _(rng, lv, fac=fac, prop=prop, cname=cname):
                state = int(rng.integers(0, 2**31 - 1))
                mk, kw = fac(np.random.default_rng(state), lv)
                cur = np.array(getattr(probe_of(fac, state, lv), prop), dtype=float)
                kw = dict(kw)
                kw["new1"] = cur * 1.01 + 0.001
                kw["new2"] = cur[::-1].copy() + 0.5
                kw["centre"] = np.zeros(cur.shape[1]) if (prop == "points" and cur.ndim == 2) else np.zeros(3)

                def call(new1, new2, centre, **ctor):
                    g, twin = mk(**ctor), mk(**ctor)
                    loc = None
                    try:
                        c = centre if np.ndim(g.points) == 2 and g.points.shape[1] == len(centre) else np.array(0.0)
                        loc = g.get_localgrid(c, np.inf)
                        loc_before = (np.array(loc.points), np.array(loc.weights))
                    except Exception:  # noqa: BLE001 - not every class has local grids
                        c = None
                    twin_before = (np.array(twin.points, dtype=float), np.array(twin.weights, dtype=float))
                    new1_before = np.array(new1)
                    out = []
                    for step, val in enumerate((new1, new2, new1)):
                        try:
                            setattr(g, prop, val)
                        except (ValueError, TypeError):
                            pass          # a rejected assignment is a legitimate answer
                        if step == 0 and c is not None:
                            try:
                                g.get_localgrid(c, 0.7)          # builds / rebuilds the tree
                            except Exception:  # noqa: BLE001
                                pass
                        if step == 1 and hasattr(g, "radial_component_splines"):
                            try:
                                g.radial_component_splines(np.ones(g.size))   # fills the basis cache
                            except Exception:  # noqa: BLE001
                                pass
                        try:
                            out.append(g.integrate(np.ones(g.size)) if not isinstance(g, MultiDomainGrid) else g.size)
                        except Exception:  # noqa: BLE001
                            pass
                    # (MolGrid(store=True)[i] IS the caller's own AtomGrid object: assigning to it is the caller's doing)
                    if g is not twin and not (_same(twin.points, twin_before[0]) and _same(twin.weights, twin_before[1])):
                        raise Mismatch(f"a second {cname} built from the same arguments changed when `{prop}` of the first was assigned")
                    if loc is not None and not (_same(loc.points, loc_before[0]) and _same(loc.weights, loc_before[1])):
                        raise Mismatch(f"the infinite-radius local grid of a {cname} changed when `{prop}` of the grid was assigned")
                    if np.asarray(new1).tobytes() != new1_before.tobytes():
                        raise Mismatch(f"the array assigned to `{prop}` first changed when a second one was assigned")
                    return out
                return call, kw

    @entry("rtransform.ExpRTransform.set_maximum_parameter_b", "history")
    def _(rng, lv):
        n = 6 + 4 * lv
        klass = getattr(rt, str(rng.choice(["ExpRTransform", "PowerRTransform", "LinearInfiniteRTransform"])))

        def call(x1, x2, oned_grid):
            tf = klass(0.1, 8.0)
            tf.set_maximum_parameter_b(x1)
            a = tf.transform(x1)
            g = tf.transform_1d_grid(oned_grid)
            tf.set_maximum_parameter_b(x2)
            return a, g.points, tf.transform(x2), tf.b
        return call, dict(x1=np.arange(n, dtype=float), x2=np.arange(n + 2, dtype=float),
                          oned_grid=OneDGrid(np.arange(n, dtype=float), np.ones(n), (0.0, float(n - 1))))

    # ------------------------------------------------------------------------------------------
    # (l) class 14: arrays of every kind INSIDE an object that is handed to a function
    # ------------------------------------------------------------------------------------------
    KINDS = ("float32", "int", "fortran", "negstride", "strided", "readonly")

    for kind in KINDS:
        @entry("rtransform.BaseTransform.transform_1d_grid", f"grid-holding-{kind}-arrays")
        def _(rng, lv, kind=kind):
            n = 6 + 3 * lv
            pts = np.sort(rng.uniform(-0.9, 0.9, n))
            g = OneDGrid(_kinded(pts, kind) if kind != "int" else np.arange(1, n + 1), _kinded(_w(rng, n), kind if kind != "int" else "float32"),
                         (-1, 1) if kind != "int" else (0, np.inf))
            tf = rt.BeckeRTransform(0.01, 1.3) if kind != "int" else rt.IdentityRTransform()

            def call(oned_grid):
                t = tf.transform_1d_grid(oned_grid)
                return t.points, t.weights
            return call, dict(oned_grid=g)

        @entry("atomgrid.AtomGrid.__init__", f"rgrid-holding-{kind}-arrays", covers=["atomgrid.AtomGrid.interpolate"])
        def _(rng, lv, kind=kind):
            n = 3 + 2 * lv
            pts = np.sort(rng.uniform(0.1, 3.0, n)) + np.arange(n) * 0.05
            if kind == "int":
                pts = np.arange(1, n + 1)
            rg = OneDGrid(_kinded(pts, kind) if kind != "int" else pts, _kinded(_w(rng, n), "float32" if kind == "int" else kind), (0, np.inf))
            kw = dict(rgrid=rg, degrees=_kinded(np.array([3, 5, 7, 3, 5, 7, 3][:n]), kind) if kind in ("negstride", "strided", "readonly", "fortran")
                      else [3] * n, center=_kinded(rng.normal(0, 0.3, 3), kind if kind != "int" else "float32"))
            kw["pts"] = RO(_pts(rng, 3))

            def call(rgrid, degrees, center, pts):
                g = AtomGrid(rgrid, degrees=degrees, center=center)
                f = g.interpolate(np.ones(g.size))
                return g.points, f(pts), g.spherical_average(np.ones(g.size))(np.array([0.5]))
            return call, kw

        @entry("cubic.Tensor1DGrids.__init__", f"oned-holding-{kind}-arrays")
        def _(rng, lv, kind=kind):
            def one(n):
                p = np.sort(rng.uniform(-1, 1, n)) + np.arange(n) * 1e-3
                if kind == "int":
                    p = np.arange(n)
                return OneDGrid(_kinded(p, kind) if kind != "int" else p, _kinded(_w(rng, n), "float32" if kind == "int" else kind), (-3, 9))

            def call(**k):
                g = Tensor1DGrids(**k)
                return g.points, g.weights, g.get_points_along_axes()
            return call, dict(oned_x=one(2), oned_y=one(3), oned_z=one(4))

        @entry("molgrid.MolGrid.__init__", f"atgrids-holding-{kind}-arrays", covers=["poisson.interpolate_laplacian"])
        def _(rng, lv, kind=kind):
            atcoords = np.array([[0.0, 0.0, -0.7], [0.0, 0.0, 0.7]])
            atgrids = []
            for i in range(2):
                n = 3 + i
                pts = np.sort(rng.uniform(0.1, 3.0, n)) + np.arange(n) * 0.05
                rg = OneDGrid(_kinded(pts, kind if kind != "int" else "float32"), _kinded(_w(rng, n), kind if kind != "int" else "float32"), (0, np.inf))
                atgrids.append(AtomGrid(rg, degrees=[3], center=_kinded(atcoords[i], kind if kind != "int" else "float32")))
            size = sum(g.size for g in atgrids)
            atnums = np.array([1, 8])
            kw = dict(atnums=_kinded(atnums, kind) if kind in ("negstride", "strided", "readonly") else atnums, atgrids=atgrids,
                      aim_weights=_kinded(rng.uniform(0.2, 1.0, size), kind if kind != "int" else "float32"),
                      fv=_kinded(rng.normal(size=size), kind if kind != "int" else "float32"), pts=RO(_pts(rng, 3)))

            def call(atnums, atgrids, aim_weights, fv, pts):
                m = MolGrid(atnums, atgrids, aim_weights, store=True)
                return m.integrate(np.asarray(fv, dtype=float)), m.interpolate(fv)(pts), interpolate_laplacian(m, fv)(pts), m[0].points
            return call, kw

        @entry("utils.dipole_moment_of_molecule", f"grid-holding-{kind}-arrays")
        def _(rng, lv, kind=kind):
            n = 8
            k2 = kind if kind != "int" else "float32"
            g = Grid(_kinded(_pts(rng, n, scale=2.0), kind), _kinded(_w(rng, n), k2))
            kw = dict(grid=g, density=_kinded(rng.uniform(0, 1, n), k2), coords=_kinded(rng.normal(size=(2, 3)), kind),
                      charges=np.array([1, 8]))
            return (lambda grid, density, coords, charges: umod.dipole_moment_of_molecule(grid, density, coords, charges)), kw

    # ------------------------------------------------------------------------------------------
    # (m) class 15: both of two alternative arguments at once; omitted / None / the default value
    # ------------------------------------------------------------------------------------------
    for form in ("arrays", "lists", "sizes-untabulated"):
        @entry("atomgrid.AtomGrid.__init__", f"degrees-and-sizes-both-{form}")
        def _(rng, lv, form=form):
            n = 3 + 2 * lv
            d = [int(x) for x in rng.choice([3, 4, 5, 6], size=n)]
            z = [int(x) for x in rng.choice([6, 14, 26] if form != "sizes-untabulated" else [7, 15, 27], size=n)]
            kw = dict(rgrid=_oned(rng, n), degrees=np.array(d) if form == "arrays" else d, sizes=np.array(z) if form == "arrays" else z,
                      center=rng.normal(0, 0.3, 3))

            def call(**k):
                g = AtomGrid(**k)
                return g.degrees, g.points
            return call, kw

        @entry("atomgrid.AtomGrid.from_pruned", f"d-and-s-sectors-both-{form}")
        def _(rng, lv, form=form):
            d, z = [3, 4, 6, 5], ([6, 14, 26, 14] if form != "sizes-untabulated" else [7, 15, 27, 15])
            kw = dict(rgrid=_oned(rng, 5 + 2 * lv), radius=1.0, r_sectors=[0.3, 0.8, 1.5] if form != "arrays" else np.array([0.3, 0.8, 1.5]),
                      d_sectors=np.array(d) if form == "arrays" else d, s_sectors=np.array(z) if form == "arrays" else z,
                      center=rng.normal(size=3))
            return (lambda **k: AtomGrid.from_pruned(**k).degrees), kw

    @entry("molgrid.MolGrid.from_pruned", "d-and-s-sectors-both")
    def _(rng, lv):
        atnums, atcoords, _g = _mol(rng, 0)
        kw = dict(atnums=atnums, atcoords=atcoords, rgrid=_oned(rng, 5), radius=[1.0, 1.2], r_sectors=[[0.5, 1.0], [0.4, 0.9]],
                  d_sectors=[[3, 4, 7], [3, 6, 5]], s_sectors=[[7, 14, 26], [6, 27, 14]])
        return (lambda **k: MolGrid.from_pruned(**k).points), kw

    for form in ("omitted", "none", "default-values"):
        @entry("atomgrid.AtomGrid.convert_cartesian_to_spherical", f"optional-{form}")
        def _(rng, lv, form=form):
            kw = dict(rgrid=_oned(rng, 3), degrees=[3], center=rng.normal(0, 0.3, 3))

            def call(rgrid, degrees, center):
                g = AtomGrid(rgrid, degrees=degrees, center=center)
                if form == "omitted":
                    return g.convert_cartesian_to_spherical()
                if form == "none":
                    return g.convert_cartesian_to_spherical(None, None)
                return g.convert_cartesian_to_spherical(points=g.points, center=g.center)
            return call, kw

        @entry("becke.BeckeWeights.generate_weights", f"optional-{form}")
        def _(rng, lv, form=form):
            natom = 2 if form == "default-values" else 1     # the defaults describe one sector
            atcoords = (np.array([[0.0, 0.0, -0.7], [0.0, 0.0, 0.7]]) + rng.normal(0, 0.05, (2, 3)))[:natom]
            n = 4
            kw = dict(points=_pts(rng, 2 * n, scale=1.5), atcoords=atcoords, atnums=np.array([1, 8][:natom]))
            extra = {"omitted": {}, "none": dict(select=None, pt_ind=None),
                     "default-values": dict(select=[0, 1], pt_ind=[0, n, 2 * n])}[form]
            kw.update({k: v for k, v in extra.items() if v is not None})
            nones = {k: None for k, v in extra.items() if v is None}
            return (lambda **k: BeckeWeights().generate_weights(**k, **nones)), kw

        @entry("ode.solve_ode_bvp", f"optional-{form}")
        def _(rng, lv, form=form):
            x = np.linspace(0.0, 1.0, 8)
            kw = dict(x=x, fx=CB(lambda t: np.sin(t) + 1.0), coeffs=np.array([1.0, 0.5, 2.0]), bd_cond=[[0, 0, 0.0], [1, 0, 1.0]])
            if form == "default-values":
                kw["initial_guess_y"] = rng.random((2, 8))

            def call(x, fx, coeffs, bd_cond, initial_guess_y=None):
                if form == "omitted":
                    return solve_ode_bvp(x, fx, coeffs, bd_cond)(x)
                if form == "none":
                    return solve_ode_bvp(x, fx, coeffs, bd_cond, None, 1e-4, 5000, None, False)(x)
                return solve_ode_bvp(x, fx, coeffs, bd_cond, transform=None, tol=1e-4, max_nodes=5000,
                                     initial_guess_y=initial_guess_y, no_derivatives=False)(x)
            return call, kw

    # ------------------------------------------------------------------------------------------
    # (n) class 16: ONE argument object for several requests and several entry points (also as a view
    #     of a larger table); every answer must equal the one obtained from a pristine copy
    # ------------------------------------------------------------------------------------------
    def agree(name, a, b):
        if not _same(a, b):
            raise Mismatch(f"{name}: answer from the shared argument differs from the answer from a pristine copy: "
                           f"{_short(a, 120)} vs {_short(b, 120)}")

    for holder in ("array", "row-view"):
        @entry("rtransform.BaseTransform.deriv", f"one-x-for-every-method-{holder}")
        def _(rng, lv, holder=holder):
            n = 6 + 4 * lv
            x = np.sort(rng.uniform(-0.9, 0.9, n))
            if holder == "row-view":
                table = np.full((3, n), 0.123)
                table[1] = x
                x = table[1]
            tfs = [rt.BeckeRTransform(0.01, 1.3), rt.MultiExpRTransform(0.01, 1.2), rt.KnowlesRTransform(0.01, 1.2, 2),
                   rt.HandyRTransform(0.01, 1.2, 2), rt.LinearFiniteRTransform(0.1, 3.0)]

            def call(x):
                pristine = np.array(x)
                for tf in tfs:
                    for m in ("transform", "deriv", "deriv2", "deriv3", "transform", "deriv"):
                        agree(f"{type(tf).__name__}.{m}", getattr(tf, m)(x), getattr(tf, m)(np.array(pristine)))
                    r = tf.transform(x)
                    for m in ("inverse", "deriv_inverse", "inverse"):
                        agree(f"{type(tf).__name__}.{m}", getattr(tf, m)(r), getattr(tf, m)(np.array(r)))
            return call, dict(x=x)

        @entry("atomgrid.AtomGrid.interpolate", f"one-density-for-every-request-{holder}",
               covers=["atomgrid.AtomGrid.spherical_average", "atomgrid.AtomGrid.radial_component_splines",
                       "atomgrid.AtomGrid.integrate_angular_coordinates", "basegrid.Grid.moments"])
        def _(rng, lv, holder=holder):
            kw = dict(rgrid=_oned(rng, 4 + lv), degrees=[5], center=rng.normal(0, 0.3, 3))
            size = AtomGrid(copy.deepcopy(kw["rgrid"]), degrees=[5]).size
            fv = rng.normal(size=size)
            if holder == "row-view":
                table = np.full((3, size), 0.5)
                table[1] = fv
                fv = table[1]
            kw["fv"] = fv
            kw["pts"] = RO(_pts(rng, 3))
            kw["r"] = RO(rng.uniform(0.1, 2.0, 3))

            def call(rgrid, degrees, center, fv, pts, r):
                g = AtomGrid(rgrid, degrees=degrees, center=center)
                p = np.array(fv)
                for _rep in range(2):
                    agree("integrate", g.integrate(fv, fv), g.integrate(np.array(p), np.array(p)))
                    agree("interpolate", g.interpolate(fv)(pts), g.interpolate(np.array(p))(pts))
                    agree("spherical_average", g.spherical_average(fv)(r), g.spherical_average(np.array(p))(r))
                    agree("integrate_angular_coordinates", g.integrate_angular_coordinates(fv), g.integrate_angular_coordinates(np.array(p)))
                    agree("moments", g.moments(1, center.reshape(1, 3), fv), g.moments(1, center.reshape(1, 3), np.array(p)))
                    agree("radial_component_splines", [s_(r) for s_ in g.radial_component_splines(fv)],
                          [s_(r) for s_ in g.radial_component_splines(np.array(p))])
            return call, kw

    @entry("molgrid.MolGrid.from_pruned", "one-sector-list-for-every-atom")
    def _(rng, lv):
        atnums, atcoords, _g = _mol(rng, 0)
        d, r_ = [3, 4, 7], [0.5, 1.0]
        kw = dict(atnums=atnums, atcoords=atcoords, rgrid=_oned(rng, 5 + 2 * lv), radius=[1.0, 1.2], r_sectors=[r_, r_], d_sectors=[d, d])

        def call(**k):
            a = MolGrid.from_pruned(**k)
            b = MolGrid.from_pruned(**k)
            agree("from_pruned twice", a.points, b.points)
            agree("degrees per atom", a.atgrids[0].degrees if a.atgrids else None, b.atgrids[0].degrees if b.atgrids else None)
            return a.weights
        return call, kw

    @entry("molgrid.MolGrid.from_size", "one-rgrid-object-for-three-molecules")
    def _(rng, lv):
        atnums, atcoords, _g = _mol(rng, 0)
        kw = dict(atnums=atnums, atcoords=atcoords, rgrid=_radial(rng, 5 + 2 * lv))

        def call(atnums, atcoords, rgrid):
            ref = MolGrid.from_size(np.array(atnums), np.array(atcoords), 14, copy.deepcopy(rgrid))
            for _rep in range(3):
                m = MolGrid.from_size(atnums, atcoords, 14, rgrid)
                agree("from_size", (m.points, m.weights), (ref.points, ref.weights))
                m2 = MolGrid.from_preset(atnums, atcoords, "coarse", rgrid)
                a = AtomGrid.from_preset(1, "coarse", rgrid, center=atcoords[0])
            return m2.size, a.size
        return call, kw

    for target in ("atomgrid", "molgrid"):
        @entry("poisson.solve_poisson_bvp", f"{target}-one-density-for-several-solves",
               covers=["robust_poisson.solve_poisson_robust", "poisson.interpolate_laplacian"], slow=(target == "molgrid"))
        def _(rng, lv, target=target):
            from grid.onedgrid import GaussLegendre
            from grid.rtransform import BeckeRTransform, InverseRTransform
            btf = BeckeRTransform(1e-4, 1.5)
            cs = np.array([[0.0, 0.0, 0.0]]) if target == "atomgrid" else np.array([[0.0, 0.0, -0.7], [0.0, 0.0, 0.7]])
            ags = []
            for c in cs:
                g1 = btf.transform_1d_grid(GaussLegendre(12))
                ags.append(AtomGrid(OneDGrid(np.array(g1.points), np.array(g1.weights), (0, np.inf)), degrees=[3], center=c.copy()))
            grid = ags[0] if target == "atomgrid" else MolGrid(np.array([1, 1]), ags, BeckeWeights(), store=True)
            fv = sum(np.exp(-np.sum((grid.points - c) ** 2, axis=1)) for c in cs)
            table = np.full((3, fv.size), 0.25)
            table[1] = fv
            tf = InverseRTransform(btf)
            kw = dict(grid=grid, fv=table[1], pts=RO(_pts(rng, 3, scale=0.8)), ode_params={"tol": 1e-3, "max_nodes": 5000},
                      atnums=np.ones(len(cs), dtype=int), atcoords=cs.copy())

            def call(grid, fv, pts, ode_params, atnums, atcoords):
                p = np.array(fv)
                incl = target == "atomgrid"
                first = solve_poisson_bvp(grid, fv, tf, include_origin=incl, ode_params=ode_params)(pts)
                lap = interpolate_laplacian(grid, fv)(pts)
                rob = solve_poisson_robust(grid, fv, tf, atnums, atcoords, ode_params=ode_params, include_origin=incl)(pts)
                again = solve_poisson_bvp(grid, fv, tf, include_origin=incl, ode_params=ode_params)(pts)
                agree("solve_poisson_bvp (second solve, same density array and option dict)", again, first)
                agree("interpolate_laplacian", interpolate_laplacian(grid, np.array(p))(pts), lap)
                return rob
            return call, kw

    @entry("coulomb.coulomb_potential", "one-exponent-array-for-s-and-p-and-three-calls")
    def _(rng, lv):
        k = 3
        c, al, co = _pts(rng, k), rng.uniform(0.3, 3, k), rng.uniform(0.1, 1, k)
        kw = dict(points=_pts(rng, 5, scale=2.0), centers=c, coeffs=co, alphas=al)

        def call(points, centers, coeffs, alphas):
            ref = cmod.coulomb_potential(np.array(points), np.array(centers), np.array(coeffs), np.array(alphas),
                                         np.array(centers), np.array(coeffs), np.array(alphas))
            for _rep in range(3):
                agree("coulomb_potential", cmod.coulomb_potential(points, centers, coeffs, alphas, centers, coeffs, alphas), ref)
                agree("coulomb_gaussian_s", cmod.coulomb_gaussian_s(alphas, 1.0), cmod.coulomb_gaussian_s(np.array(alphas), 1.0))
        return call, kw

    # ------------------------------------------------------------------------------------------
    # (o) class 19: where the consumed layer is extreme (singular ends of the transforms, infinite
    #     radii, coincident centres): branches that replace inf / nan are reached only there
    # ------------------------------------------------------------------------------------------
    for cname in ("BeckeRTransform", "MultiExpRTransform", "KnowlesRTransform", "HandyRTransform", "HandyModRTransform",
                  "LinearFiniteRTransform", "InverseRTransform", "HyperbolicRTransform", "ExpRTransform", "PowerRTransform",
                  "LinearInfiniteRTransform", "IdentityRTransform"):
        if not hasattr(rt, cname):
            continue

        @entry("rtransform.BaseTransform.transform_1d_grid", f"{cname}-at-the-singular-ends",
               covers=[f"rtransform.{cname}.transform", f"rtransform.{cname}.deriv", f"rtransform.{cname}.inverse"])
        def _(rng, lv, cname=cname):
            n = 7
            if cname in ("BeckeRTransform", "MultiExpRTransform", "KnowlesRTransform", "HandyRTransform", "HandyModRTransform",
                         "LinearFiniteRTransform"):
                tf = {"BeckeRTransform": lambda: rt.BeckeRTransform(0.01, 1.3), "MultiExpRTransform": lambda: rt.MultiExpRTransform(0.01, 1.2),
                      "KnowlesRTransform": lambda: rt.KnowlesRTransform(0.01, 1.2, 2), "HandyRTransform": lambda: rt.HandyRTransform(0.01, 1.2, 2),
                      "HandyModRTransform": lambda: rt.HandyModRTransform(0.01, 10.0, 2),
                      "LinearFiniteRTransform": lambda: rt.LinearFiniteRTransform(0.1, 3.0)}[cname]()
                x = np.array([-1.0, -1.0 + 1e-15, -1.0 + 1e-8, 0.0, 1.0 - 1e-8, 1.0 - 1e-16, 1.0])
                dom = (-1.0, 1.0)
            elif cname == "InverseRTransform":
                tf = rt.InverseRTransform(rt.BeckeRTransform(0.01, 1.3))
                x = np.array([0.01, 0.01 + 1e-12, 0.1, 1.3, 1e3, 1e16, np.inf])
                dom = (0.01, np.inf)
            elif cname == "IdentityRTransform":
                tf = rt.IdentityRTransform()
                x = np.array([0.0, 1e-300, 1e-8, 1.0, 1e8, 1e300, np.inf])
                dom = (0.0, np.inf)
            else:
                tf = {"HyperbolicRTransform": lambda: rt.HyperbolicRTransform(0.4 / n, 1.0 / (n + 2)), "ExpRTransform": lambda: rt.ExpRTransform(0.1, 8.0, b=float(n)),
                      "PowerRTransform": lambda: rt.PowerRTransform(0.1, 8.0, b=float(n)),
                      "LinearInfiniteRTransform": lambda: rt.LinearInfiniteRTransform(0.1, 8.0, b=float(n))}[cname]()
                x = np.array([0.0, 1e-300, 1e-8, 1.0, n - 1e-8, float(n), n + 1.0])
                dom = (0.0, float(n + 1))

            def call(x, oned_grid):
                out = []
                for m in ("transform", "deriv", "deriv2", "deriv3"):
                    out.append(getattr(tf, m)(x))
                r = tf.transform(x)
                for m in ("inverse", "deriv_inverse", "deriv2_inverse", "deriv3_inverse"):
                    try:
                        out.append(getattr(tf, m)(r))
                    except (ValueError, ZeroDivisionError, FloatingPointError):
                        pass
                g = tf.transform_1d_grid(oned_grid)
                return out, g.points, g.weights, g.domain
            return call, dict(x=x, oned_grid=OneDGrid(np.array(x), np.ones(len(x)), dom))

    @entry("becke.BeckeWeights.__call__", "coincident-atoms-and-far-points")
    def _(rng, lv):
        atcoords = np.array([[0.0, 0.0, 0.0], [0.0, 0.0, 0.0], [0.0, 0.0, 1.4]])
        pts = np.vstack([atcoords, [[1e8, 0, 0], [0, 1e150, 0], [1e-300, 0, 0]]])
        kw = dict(points=pts, atcoords=atcoords, atnums=np.array([1, 1, 8]), indices=np.array([0, 2, 4, 6]))
        return (lambda points, atcoords, atnums, indices: BeckeWeights(order=3)(points, atcoords, atnums, indices)), kw

    @entry("atomgrid.AtomGrid.interpolate", "radial-grid-reaching-1e16-and-zero")
    def _(rng, lv):
        tf = rt.BeckeRTransform(0.0, 1.5)
        x = np.array([-1.0, -0.9, -0.3, 0.2, 0.7, 1.0 - 1e-16])
        with np.errstate(all="ignore"):
            r, w = tf.transform(x), tf.deriv(x) * 0.3
        r = np.where(np.isfinite(r), r, 1e16)
        w = np.where(np.isfinite(w), w, 1e16)
        kw = dict(rgrid=OneDGrid(r, w, (0, np.inf)), degrees=[3], center=np.zeros(3))
        size = AtomGrid(copy.deepcopy(kw["rgrid"]), degrees=[3]).size
        kw["fv"] = rng.normal(size=size)
        kw["pts"] = RO(np.array([[0.0, 0.0, 0.0], [0.0, 0.0, 1e-200], [0.3, 0.1, 0.2], [1e10, 0.0, 0.0]]))

        def call(rgrid, degrees, center, fv, pts):
            g = AtomGrid(rgrid, degrees=degrees, center=center)
            f = g.interpolate(fv)
            return f(pts), f(pts, deriv=1), g.spherical_average(fv)(np.array([0.0, 1.0])), interpolate_laplacian(g, fv)(pts)
        return call, kw

    for tfname in ("Becke", "Identity"):
        @entry("ode.solve_ode_ivp", f"span-touching-the-singular-end-{tfname}")
        def _(rng, lv, tfname=tfname):
            transform = rt.BeckeRTransform(0.05, 1.2) if tfname == "Becke" else rt.IdentityRTransform()
            span = np.array([-1.0, -0.2]) if tfname == "Becke" else np.array([0.0, 1.0])
            kw = dict(x_span=span, fx=CB(lambda t: 1.0 / (1.0 + t**2)), coeffs=[CB(lambda t: t), 0.5, 1.0], y0=np.array([0.3, -0.2]))

            def call(x_span, fx, coeffs, y0):
                return solve_ode_ivp(x_span, fx, coeffs, y0, transform, method="RK45", rtol=1e-4, atol=1e-5)(np.array([x_span[0] + 0.1]))
            return call, kw

    # ------------------------------------------------------------------------------------------
    # (p) class 20: unequal dimensions, sizes 1 and 2
    # ------------------------------------------------------------------------------------------
    for shape in ((2, 3, 4), (4, 2, 3), (3, 4, 2), (2, 2, 3), (2, 3), (3, 2), (1, 2, 3), (2, 1)):
        @entry("cubic.UniformGrid.__init__", "shape-" + "x".join(map(str, shape)),
               covers=["cubic._HyperRectangleGrid.index_to_coordinates", "cubic._HyperRectangleGrid.coordinates_to_index",
                       "cubic._HyperRectangleGrid.get_points_along_axes"])
        def _(rng, lv, shape=shape):
            d = len(shape)
            kw = dict(origin=rng.normal(0, 0.2, d), axes=np.diag(rng.uniform(0.2, 0.5, d)), shape=np.array(shape))
            weight = str(rng.choice(["Trapezoid", "Rectangle", "Fourier1", "Alternative"] + (["Fourier2"] if d == 3 else [])))
            kw["vals"] = rng.normal(size=int(np.prod(shape)))
            kw["idx"] = np.array([s_ - 1 for s_ in shape])

            def call(origin, axes, shape, vals, idx):
                g = UniformGrid(origin, axes, shape, weight=weight)
                last = int(np.prod(shape)) - 1
                return (g.points, g.weights, g.integrate(vals), g.index_to_coordinates(0), g.index_to_coordinates(last),
                        g.coordinates_to_index(idx), g.get_points_along_axes(), g.closest_point(origin))
            return call, kw

    for sizes in ((2, 3, 4), (4, 2, 3), (3, 4, 2), (2, 3), (3, 2), (1, 2, 3)):
        @entry("cubic.Tensor1DGrids.__init__", "sizes-" + "x".join(map(str, sizes)))
        def _(rng, lv, sizes=sizes):
            names = ["oned_x", "oned_y", "oned_z"][: len(sizes)]
            kw = {nm: _oned(rng, n, False) for nm, n in zip(names, sizes)}
            kw["vals"] = rng.normal(size=int(np.prod(sizes)))

            def call(vals, **k):
                g = Tensor1DGrids(**k)
                return g.points, g.weights, g.integrate(vals), g.get_points_along_axes(), g.index_to_coordinates(int(np.prod(sizes)) - 1)
            return call, kw

    for nshell, degs in ((1, [3]), (1, [4]), (2, [3, 7]), (2, [6, 3]), (3, [3])):
        @entry("atomgrid.AtomGrid.integrate_angular_coordinates", f"{nshell}-shells-degrees-{'-'.join(map(str, degs))}",
               covers=["atomgrid.AtomGrid.interpolate", "atomgrid.AtomGrid.radial_component_splines"])
        def _(rng, lv, nshell=nshell, degs=degs):
            kw = dict(rgrid=_oned(rng, nshell), degrees=list(degs), center=rng.normal(0, 0.3, 3))
            size = AtomGrid(copy.deepcopy(kw["rgrid"]), degrees=list(degs)).size
            kw["f1"] = rng.normal(size=(1, size))
            kw["f2"] = rng.normal(size=(2, 1, size))
            kw["pts"] = RO(_pts(rng, 2))

            def call(rgrid, degrees, center, f1, f2, pts):
                g = AtomGrid(rgrid, degrees=degrees, center=center)
                out = [g.integrate_angular_coordinates(f1), g.integrate_angular_coordinates(f2), g.integrate_angular_coordinates(f1[0])]
                try:
                    out.append(g.interpolate(f1[0])(pts))
                    out.append([s_(np.array([0.5])) for s_ in g.radial_component_splines(f2[1, 0])])
                except Exception:  # noqa: BLE001 - one or two shells cannot carry a cubic spline
                    pass
                return out
            return call, kw

    for natom, nrad in ((1, (2,)), (2, (1, 3)), (2, (3, 2)), (3, (2, 1, 4))):
        @entry("molgrid.MolGrid.__init__", f"{natom}-atoms-radial-sizes-{'-'.join(map(str, nrad))}",
               covers=["molgrid.MolGrid.get_atomic_grid", "molgrid.MolGrid.__getitem__", "becke.BeckeWeights.__call__"])
        def _(rng, lv, natom=natom, nrad=nrad):
            atcoords = np.array([[0.0, 0.0, -0.7], [0.0, 0.0, 0.7], [0.9, 0.3, 0.0]])[:natom]
            atgrids = [AtomGrid(_oned(rng, n), degrees=[3 + 2 * i], center=atcoords[i].copy()) for i, n in enumerate(nrad)]
            aim = str(rng.choice(["becke", "array"]))
            size = sum(g.size for g in atgrids)
            kw = dict(atnums=np.array([1, 8, 6][:natom]), atgrids=atgrids,
                      aim_weights=BeckeWeights() if aim == "becke" else rng.uniform(0.2, 1.0, size), fv=rng.normal(size=size))

            def call(atnums, atgrids, aim_weights, fv):
                out = []
                for store in (True, False):
                    m = MolGrid(atnums, atgrids, aim_weights, store=store)
                    out += [m.points, m.weights, m.integrate(fv), m[natom - 1].points, m.get_atomic_grid(0).weights]
                return out
            return call, kw

    for n in (1, 2):
        for ncent in (1, 2, 3):
            if n == ncent:
                continue

            @entry("basegrid.Grid.moments", f"{n}-points-{ncent}-centres")
            def _(rng, lv, n=n, ncent=ncent):
                tm = str(rng.choice(["cartesian", "pure", "radial", "pure-radial"]))
                kw = dict(points=_pts(rng, n), weights=_w(rng, n), centers=rng.normal(0, 0.3, (ncent, 3)), fv=rng.normal(size=n))
                return (lambda points, weights, centers, fv: Grid(points, weights).moments(2, centers, fv, type_mom=tm, return_orders=True)), kw

        @entry("utils.generate_real_spherical_harmonics", f"{n}-angles", covers=["utils.generate_derivative_real_spherical_harmonics", "utils.solid_harmonics"])
        def _(rng, lv, n=n):
            kw = dict(theta=rng.uniform(-np.pi, np.pi, n), phi=rng.uniform(0.05, np.pi - 0.05, n))

            def call(theta, phi):
                out = []
                for l_max in (0, 1, 2):
                    out += [umod.generate_real_spherical_harmonics(l_max, theta, phi), umod.generate_derivative_real_spherical_harmonics(l_max, theta, phi),
                            umod.solid_harmonics(l_max, np.column_stack([np.ones(len(theta)), theta, phi]))]
                return out
            return call, kw

        @entry("periodicgrid.PeriodicGrid.get_localgrid", f"{n}-points")
        def _(rng, lv, n=n):
            kw = dict(points=rng.uniform(-1.5, 2.5, (n, 3)), weights=_w(rng, n), realvecs=(np.eye(3) * rng.uniform(0.8, 1.5, 3))[: 3 - n],
                      center=rng.uniform(-1, 1, 3))

            def call(points, weights, realvecs, center):
                g = PeriodicGrid(points, weights, realvecs, wrap=bool(n - 1))
                lg = g.get_localgrid(center, 1.1)
                return g.points, lg.points, lg.weights, lg.indices
            return call, kw

        @entry("coulomb.coulomb_potential", f"{n}-centres-{3 - n}-points")
        def _(rng, lv, n=n):
            kw = dict(points=_pts(rng, 3 - n, scale=2.0), centers_s=_pts(rng, n), coeffs_s=rng.uniform(0.1, 1, n), alphas_s=rng.uniform(0.3, 3, n))
            return (lambda **a: cmod.coulomb_potential(**a)), kw


# ---- round 5: degenerate value patterns next to the alias patterns (callbacks), sizes past block
# ---- boundaries, orders the code may assume, parameters independent of the data, shared state --------
def _entries_round5():
    import grid.coulomb as cmod
    import grid.rtransform as rt
    import grid.utils as umod
    from grid.atomgrid import AtomGrid
    from grid.basegrid import Grid, OneDGrid
    from grid.becke import BeckeWeights
    from grid.molgrid import MolGrid
    from grid.ngrid import MultiDomainGrid
    from grid.ode import solve_ode_bvp, solve_ode_ivp
    from grid.onedgrid import GaussLegendre
    from grid.periodicgrid import PeriodicGrid
    from grid.poisson import interpolate_laplacian, solve_poisson_bvp, solve_poisson_ivp
    from grid.robust_poisson import solve_poisson_robust

    # ------------------------------------------------------------------------------------------
    # (q) value patterns of the equation, for every entry point that takes callbacks: the alias
    #     patterns (callback returns a cached array / its own argument / a row of a caller table) are
    #     applied on top by the framework.  Coefficients: all lower ones zero (numbers, ints, an array,
    #     callables, mixed), leading coefficient 1 / 2 / -0.5 / a function; a single lower term;
    #     right-hand side: ordinary, zero, constant.
    # ------------------------------------------------------------------------------------------
    def zeros_like_arg(x):
        return np.zeros_like(np.asarray(x, dtype=float))

    def coeff_pattern(order, pat, lead):
        leadc = CB(lambda x, lead=lead: lead + 0.0 * x)
        if pat == "lower-zero-numbers":
            return [0.0] * order + [lead]
        if pat == "lower-zero-ints":
            return [0] * order + [lead]
        if pat == "lower-zero-array":
            return np.array([0.0] * order + [lead])
        if pat == "lower-zero-callables":
            return [CB(zeros_like_arg) for _ in range(order)] + [leadc]
        if pat == "lower-zero-mixed":
            return [CB(zeros_like_arg) if i % 2 == 0 else 0.0 for i in range(order)] + [leadc]
        if pat == "one-lower-term":
            return [0.0] * (order - 1) + [0.75, lead]
        if pat == "leading-function":
            return [0.0] * order + [CB(lambda x: 2.0 + 0.25 * np.cos(x))]
        raise KeyError(pat)

    rhs_kinds = {"ordinary": lambda x: np.sin(x) + 1.0, "zero": zeros_like_arg, "constant": lambda x: np.full(np.shape(x), 0.5)}

    for order in (1, 2, 3):
        for pat in ("lower-zero-numbers", "lower-zero-ints", "lower-zero-array", "lower-zero-callables", "lower-zero-mixed",
                    "one-lower-term", "leading-function"):
            for tf in (False, True):
                @entry("ode.solve_ode_ivp", f"order{order}-{pat}{'-transform' if tf else ''}")
                def _(rng, lv, order=order, pat=pat, tf=tf):
                    lead = float(rng.choice([1.0, 2.0, -0.5]))
                    rk = str(rng.choice(sorted(rhs_kinds)))
                    span = (-0.9, -0.1) if tf else (0.1, 0.8)
                    kw = dict(x_span=span, fx=CB(rhs_kinds[rk]), coeffs=coeff_pattern(order, pat, lead),
                              y0=[float(v) for v in rng.normal(size=order)], pts=RO(np.linspace(span[0] + 0.05, span[1] - 0.05, 3)))
                    transform = rt.BeckeRTransform(0.05, 1.2) if tf else None

                    def call(x_span, fx, coeffs, y0, pts):
                        return solve_ode_ivp(x_span, fx, coeffs, y0, transform, method="RK45", rtol=1e-4, atol=1e-5)(pts)
                    return call, kw

                @entry("ode.solve_ode_bvp", f"order{order}-{pat}{'-transform' if tf else ''}")
                def _(rng, lv, order=order, pat=pat, tf=tf):
                    lead = float(rng.choice([1.0, 2.0, -0.5]))
                    rk = str(rng.choice(sorted(rhs_kinds)))
                    n = 8
                    x = np.linspace(-0.9, 0.5, n) if tf else np.linspace(0.0, 1.5, n)
                    kw = dict(x=x, fx=CB(rhs_kinds[rk]), coeffs=coeff_pattern(order, pat, lead),
                              bd_cond=[[0, 0, 0.0], [1, 0, 1.0], [0, 1, 0.5]][:order], initial_guess_y=rng.normal(size=(order, n)))
                    transform = rt.BeckeRTransform(0.05, 1.2) if tf else None

                    def call(x, fx, coeffs, bd_cond, initial_guess_y):
                        return solve_ode_bvp(x, fx, coeffs, bd_cond, transform, tol=1e-2, max_nodes=300, initial_guess_y=initial_guess_y)(x[1:-1])
                    return call, kw

    for kind in ("zero", "constant", "first-argument-column", "nonvectorized-zero"):
        @entry("ngrid.MultiDomainGrid.integrate", f"integrand-{kind}")
        def _(rng, lv, kind=kind):
            def shape_of(x, y):
                return np.broadcast(np.asarray(x)[..., 0], np.asarray(y)[..., 0]).shape

            fn = {"zero": lambda x, y: np.zeros(shape_of(x, y)),
                  "constant": lambda x, y: np.full(shape_of(x, y), 0.25),
                  "first-argument-column": lambda x, y: (np.asarray(y)[..., 0] if np.ndim(y) > 1 else np.asarray(x)[..., 0]),
                  "nonvectorized-zero": lambda x, y: 0.0}[kind]
            gl = [Grid(_pts(rng, 4), _w(rng, 4)), Grid(_pts(rng, 5), _w(rng, 5))]
            chunk = int(rng.choice([3, 7, 6000]))
            nonvec = kind.startswith("nonvectorized")
            return (lambda grid_list, integrand: MultiDomainGrid(grid_list).integrate(
                integrand, non_vectorized=nonvec, integration_chunk_size=chunk)), dict(grid_list=gl, integrand=CB(fn))

    for kind in ("zeros", "ones", "one-hot"):
        @entry("molgrid.MolGrid.__init__", f"aim-callback-{kind}", covers=["molgrid.MolGrid.from_size"])
        def _(rng, lv, kind=kind):
            atnums, atcoords, atgrids = _mol(rng, lv)

            def aim(points, atcoords, atnums, indices):
                if kind == "zeros":
                    return np.zeros(len(points))
                if kind == "ones":
                    return np.ones(len(points))
                w = np.zeros(len(points))
                w[: indices[1]] = 1.0
                return w

            def call(atnums, atgrids, aim_weights):
                m = MolGrid(atnums, atgrids, aim_weights, store=True)
                return m.weights, m.aim_weights, m.integrate(np.ones(m.size))
            return call, dict(atnums=atnums, atgrids=atgrids, aim_weights=CB(aim))

    def radial12():
        btf = rt.BeckeRTransform(1e-4, 1.5)
        g = btf.transform_1d_grid(GaussLegendre(12))
        return OneDGrid(np.array(g.points), np.array(g.weights), (0, np.inf)), btf

    for kind in ("zero-density", "one-shell-density", "constant-density"):
        for route in ("bvp", "ivp", "laplacian", "robust"):
            @entry({"bvp": "poisson.solve_poisson_bvp", "ivp": "poisson.solve_poisson_ivp", "laplacian": "poisson.interpolate_laplacian",
                    "robust": "robust_poisson.solve_poisson_robust"}[route], f"atomgrid-{kind}")
            def _(rng, lv, kind=kind, route=route):
                rgrid, btf = radial12()
                center = rng.normal(0, 0.1, 3)
                kw = dict(rgrid=rgrid, degrees=[3], center=center)
                probe = AtomGrid(copy.deepcopy(rgrid), degrees=[3], center=center.copy())
                fv = np.zeros(probe.size)
                if kind == "one-shell-density":
                    fv[probe.indices[5]:probe.indices[6]] = 1.0
                elif kind == "constant-density":
                    fv[:] = 0.5
                kw.update(fv=fv, pts=RO(np.vstack([center, center + _pts(rng, 2, scale=0.8)])), ode_params={"tol": 1e-3, "max_nodes": 5000})
                tf = rt.InverseRTransform(btf)

                def call(rgrid, degrees, center, fv, pts, ode_params):
                    g = AtomGrid(rgrid, degrees=degrees, center=center)
                    if route == "bvp":
                        return solve_poisson_bvp(g, fv, tf, include_origin=True, ode_params=ode_params)(pts)
                    if route == "ivp":
                        return solve_poisson_ivp(g, fv, tf, r_interval=(20.0, 1e-2), ode_params={"rtol": 1e-4, "atol": 1e-4})(pts)
                    if route == "laplacian":
                        return interpolate_laplacian(g, fv)(pts)
                    return solve_poisson_robust(g, np.abs(fv), tf, np.array([1]), center.reshape(1, 3), ode_params=ode_params,
                                                include_origin=True)(pts)
                return call, kw

    # ------------------------------------------------------------------------------------------
    # (r) class 21: argument arrays past block / chunk boundaries on the cheapest objects
    # ------------------------------------------------------------------------------------------
    def big_sizes(lv):
        return [1025, 4097] if lv == 0 else ([20001, 65537] if lv == 1 else [31234, 2**19 + 1])

    for which in (0, 1):
        @entry("basegrid.Grid.integrate", f"past-block-boundary-{which}", covers=["basegrid.Grid.__getitem__", "basegrid.Grid.get_localgrid"])
        def _(rng, lv, which=which):
            n = big_sizes(lv)[which]
            kw = dict(points=_pts(rng, n), weights=_w(rng, n), a=rng.normal(size=n), b=rng.normal(size=n), idx=rng.integers(0, n, n // 3 + 1),
                      center=np.zeros(3))

            def call(points, weights, a, b, idx, center):
                g = Grid(points, weights)
                whole = g.integrate(a, b)
                parts = Grid(points[: n // 2], weights[: n // 2]).integrate(a[: n // 2], b[: n // 2]) + \
                    Grid(points[n // 2:], weights[n // 2:]).integrate(a[n // 2:], b[n // 2:])
                tol = 1e-9 if min(a_.dtype.itemsize for a_ in (points, weights, a, b)) >= 8 else 2e-2
                if not np.isclose(whole, parts, rtol=tol, atol=tol, equal_nan=True):
                    raise Mismatch(f"integrate over {n} points is not the sum over a split: {whole} vs {parts}")
                return g[idx].points, g.get_localgrid(center, 0.3).indices
            return call, kw

        @entry("rtransform.BaseTransform.deriv", f"past-block-boundary-{which}")
        def _(rng, lv, which=which):
            n = big_sizes(lv)[which]
            tfs = [rt.BeckeRTransform(0.01, 1.3), rt.KnowlesRTransform(0.01, 1.2, 2), rt.HandyModRTransform(0.01, 10.0, 2)]

            def call(x):
                for tf in tfs:
                    for m in ("transform", "deriv", "deriv2", "deriv3"):
                        whole = getattr(tf, m)(x)
                        if not _same(whole, np.concatenate([getattr(tf, m)(x[:1000]), getattr(tf, m)(x[1000:])])):
                            raise Mismatch(f"{type(tf).__name__}.{m} on {n} nodes differs from the evaluation in two pieces")
                    r = tf.transform(x)
                    tf.inverse(r), tf.deriv_inverse(r)
            return call, dict(x=np.sort(rng.uniform(-0.95, 0.95, n)))

        @entry("coulomb.coulomb_potential", f"past-block-boundary-{which}", covers=["coulomb.coulomb_gaussian_s", "coulomb.coulomb_gaussian_p"])
        def _(rng, lv, which=which):
            n = big_sizes(lv)[which]
            k = 3
            kw = dict(points=_pts(rng, n, scale=2.0), centers=_pts(rng, k), coeffs=rng.uniform(0.1, 1, k), alphas=rng.uniform(0.3, 3, k),
                      r=rng.uniform(0.0, 3.0, n))

            def call(points, centers, coeffs, alphas, r):
                whole = cmod.coulomb_potential(points, centers, coeffs, alphas, centers, coeffs, alphas)
                pieces = np.concatenate([cmod.coulomb_potential(p_, centers, coeffs, alphas, centers, coeffs, alphas)
                                         for p_ in (points[:777], points[777:])])
                if not _same(whole, pieces):
                    raise Mismatch(f"coulomb_potential on {n} points differs from the evaluation in two pieces")
                return cmod.coulomb_gaussian_s(r, 1.3), cmod.coulomb_gaussian_p(r, 0.7)
            return call, kw

        @entry("utils.generate_real_spherical_harmonics", f"past-block-boundary-{which}",
               covers=["utils.convert_cart_to_sph", "utils.solid_harmonics", "utils.generate_derivative_real_spherical_harmonics"])
        def _(rng, lv, which=which):
            n = big_sizes(min(lv, 1))[which]
            kw = dict(points=_pts(rng, n), center=rng.normal(size=3))

            def call(points, center):
                sph = umod.convert_cart_to_sph(points, center)
                y = umod.generate_real_spherical_harmonics(2, sph[:, 1], sph[:, 2])
                y2 = np.hstack([umod.generate_real_spherical_harmonics(2, sph[:900, 1], sph[:900, 2]),
                                umod.generate_real_spherical_harmonics(2, sph[900:, 1], sph[900:, 2])])
                if not _same(y, y2):
                    raise Mismatch(f"spherical harmonics on {n} angles differ from the evaluation in two pieces")
                return umod.solid_harmonics(2, sph), umod.generate_derivative_real_spherical_harmonics(1, sph[:, 1], sph[:, 2])
            return call, kw

    @entry("becke.BeckeWeights.__call__", "past-block-boundary")
    def _(rng, lv):
        n = 1025 if lv == 0 else 4097
        atcoords = np.array([[0.0, 0.0, -0.7], [0.0, 0.0, 0.7]])
        kw = dict(points=_pts(rng, 2 * n + 1, scale=1.5), atcoords=atcoords, atnums=np.array([1, 8]), indices=np.array([0, n, 2 * n + 1]))
        return (lambda points, atcoords, atnums, indices: BeckeWeights()(points, atcoords, atnums, indices)), kw

    @entry("ngrid.MultiDomainGrid.integrate", "product-past-the-chunk-size")
    def _(rng, lv):
        gl = [Grid(_pts(rng, 79), _w(rng, 79)), Grid(_pts(rng, 77), _w(rng, 77))]      # 6083 pairs, chunk 6000 / 1000
        chunk = int(rng.choice([6000, 1000]))
        fn = lambda x, y: np.exp(-np.sum(x**2, axis=-1)) * np.exp(-np.sum((x - y) ** 2, axis=-1))   # noqa: E731
        return (lambda grid_list, integrand: MultiDomainGrid(grid_list).integrate(integrand, integration_chunk_size=chunk)), dict(
            grid_list=gl, integrand=CB(fn))

    @entry("atomgrid.AtomGrid.interpolate", "evaluation-points-past-block-boundary")
    def _(rng, lv):
        n = 1025 if lv == 0 else 4097
        kw = dict(rgrid=_oned(rng, 5), degrees=[5], center=rng.normal(0, 0.3, 3))
        size = AtomGrid(copy.deepcopy(kw["rgrid"]), degrees=[5]).size
        kw.update(fv=rng.normal(size=size), pts=_pts(rng, n))

        def call(rgrid, degrees, center, fv, pts):
            f = AtomGrid(rgrid, degrees=degrees, center=center).interpolate(fv)
            whole = f(pts)
            if not _same(whole, np.concatenate([f(pts[:600]), f(pts[600:])])):
                raise Mismatch(f"interpolation at {n} points differs from the evaluation in two pieces")
            return f(pts, deriv=1)
        return call, kw

    # ------------------------------------------------------------------------------------------
    # (s) class 22: inputs in an order the code may silently assume (a library that sorts must sort a copy)
    # ------------------------------------------------------------------------------------------
    for order_ in ("descending", "shuffled"):
        def reorder(a, rng, order_=order_):
            return np.array(a[::-1]) if order_ == "descending" else np.array(a[rng.permutation(len(a))])

        @entry("rtransform.BaseTransform.transform_1d_grid", f"{order_}-nodes", covers=["rtransform.BeckeRTransform.transform"])
        def _(rng, lv, reorder=reorder):
            n = 7 + 4 * lv
            x = reorder(np.sort(rng.uniform(-0.9, 0.9, n)), rng)
            tfs = [rt.BeckeRTransform(0.01, 1.3), rt.MultiExpRTransform(0.01, 1.2), rt.LinearFiniteRTransform(0.1, 3.0)]

            def call(x, oned_grid):
                out = []
                for tf in tfs:
                    out += [tf.transform(x), tf.deriv(x), tf.inverse(tf.transform(x))]
                    g = tf.transform_1d_grid(oned_grid)
                    out += [g.points, g.weights]
                return out
            return call, dict(x=x, oned_grid=OneDGrid(np.array(x), _w(rng, n), (-1, 1)))

        @entry("atomgrid.AtomGrid.__init__", f"{order_}-radial-grid",
               covers=["atomgrid.AtomGrid.interpolate", "atomgrid.AtomGrid.spherical_average", "atomgrid.AtomGrid.from_pruned"])
        def _(rng, lv, reorder=reorder):
            n = 5 + 2 * lv
            perm = np.arange(n)[::-1] if reorder(np.arange(3), rng)[0] == 2 and True else rng.permutation(n)
            r = (np.sort(rng.uniform(0.05, 3.0, n)) + np.arange(n) * 0.05)[perm]
            kw = dict(rgrid=OneDGrid(r, _w(rng, n), (0, np.inf)), degrees=[int(d) for d in rng.choice([3, 5, 7], size=n)], center=rng.normal(0, 0.3, 3),
                      r_sectors=reorder(np.array([0.3, 0.8, 1.5]), rng), d_sectors=[7, 3, 5, 4])
            kw["pts"] = RO(_pts(rng, 3))

            def call(rgrid, degrees, center, r_sectors, d_sectors, pts):
                g = AtomGrid(rgrid, degrees=degrees, center=center)
                fv = np.ones(g.size)
                out = [g.points, g.integrate(fv), g.integrate_angular_coordinates(fv)]
                for step in (lambda: g.interpolate(fv)(pts), lambda: g.spherical_average(fv)(np.array([0.5, 1.0])),
                             lambda: AtomGrid.from_pruned(rgrid, 1.0, r_sectors=r_sectors, d_sectors=d_sectors, center=center).degrees):
                    try:
                        out.append(step())
                    except ValueError:
                        pass          # an order the library refuses is a legitimate answer
                return out
            return call, kw

        @entry("atomgrid.AtomGrid.interpolate", f"{order_}-evaluation-points", covers=["molgrid.MolGrid.interpolate", "basegrid.Grid.get_localgrid"])
        def _(rng, lv, reorder=reorder):
            kw = dict(rgrid=_oned(rng, 5), degrees=[5], center=rng.normal(0, 0.3, 3))
            size = AtomGrid(copy.deepcopy(kw["rgrid"]), degrees=[5]).size
            base_pts = kw["center"] + np.outer(np.linspace(0.1, 2.0, 9), [0.6, 0.0, 0.8])      # increasing radii
            kw.update(fv=rng.normal(size=size), pts=reorder(base_pts, rng))

            def call(rgrid, degrees, center, fv, pts):
                g = AtomGrid(rgrid, degrees=degrees, center=center)
                f = g.interpolate(fv)
                each = np.array([f(p_[None, :])[0] for p_ in pts])
                if not _same(f(pts), each):
                    raise Mismatch("interpolation at reordered points differs from the point-by-point evaluation")
                return g.get_localgrid(pts[0], 1.0).indices
            return call, kw

    @entry("rtransform.BaseTransform.transform_1d_grid", "descending-grid-made-by-the-library-fed-back")
    def _(rng, lv):
        n = 7 + 4 * lv
        desc = rt.InverseRTransform(rt.BeckeRTransform(0.01, 1.3))       # maps increasing r to increasing x; its inverse use below reverses
        x = np.sort(rng.uniform(-0.9, 0.9, n))
        g1 = rt.MultiExpRTransform(0.01, 1.2).transform_1d_grid(OneDGrid(x, _w(rng, n), (-1, 1)))
        kw = dict(rgrid=OneDGrid(np.array(g1.points), np.array(g1.weights), (0.01, np.inf)), center=np.zeros(3))

        def call(rgrid, center):
            g = AtomGrid(rgrid, degrees=[3], center=center)
            t = desc.transform_1d_grid(rgrid) if rgrid.points.min() >= 0.01 else None
            return g.points, g.integrate(np.ones(g.size)), None if t is None else t.points
        return call, kw

    # ------------------------------------------------------------------------------------------
    # (t) class 24: explicit parameters on any grid of the domain; one transform object for two grids
    # ------------------------------------------------------------------------------------------
    for cname in ("ExpRTransform", "PowerRTransform", "LinearInfiniteRTransform", "HyperbolicRTransform"):
        @entry(f"rtransform.{cname}.transform", "explicit-b-nodes-beyond-it")
        def _(rng, lv, cname=cname):
            b = 6.0
            tf = getattr(rt, cname)(0.1, 8.0, b=b) if cname != "HyperbolicRTransform" else rt.HyperbolicRTransform(0.05, 0.12)
            x = np.array([0.0, 1e-12, 0.5, b - 1e-9, b, b + 1e-9, b + 3.0, 2 * b])

            def call(x):
                out = []
                for m in ("transform", "deriv", "deriv2", "deriv3"):
                    try:
                        out.append(getattr(tf, m)(x))
                    except (ValueError, ZeroDivisionError):
                        pass
                return out
            return call, dict(x=x)

        if cname != "HyperbolicRTransform":
            @entry(f"rtransform.{cname}.set_maximum_parameter_b", "one-transform-two-grids-in-sequence")
            def _(rng, lv, cname=cname):
                n1, n2 = 6 + 3 * lv, 11 + 3 * lv
                g1 = OneDGrid(np.arange(n1, dtype=float), np.ones(n1), (0.0, float(n1 - 1)))
                g2 = OneDGrid(np.arange(n2, dtype=float) * 0.5, np.ones(n2), (0.0, float(n2 - 1) * 0.5))

                def call(grid_a, grid_b):
                    tf = getattr(rt, cname)(0.1, 8.0)
                    first = tf.transform_1d_grid(grid_a)
                    a0 = (np.array(first.points), np.array(first.weights))
                    try:
                        tf.transform_1d_grid(grid_b)
                    except ValueError:
                        pass
                    again = tf.transform_1d_grid(grid_a)
                    if not (_same(again.points, a0[0]) and _same(again.weights, a0[1]) and _same(first.points, a0[0])):
                        raise Mismatch(f"{cname}: the grid made from the first 1D grid changed after the transform was applied to a second one")
                    return tf.b
                return call, dict(grid_a=g1, grid_b=g2)

    # ------------------------------------------------------------------------------------------
    # (u) class 26: two instances that share set-up objects of the caller, used in either order
    # ------------------------------------------------------------------------------------------
    for first in ("with-origin-node-first", "without-origin-node-first"):
        @entry("atomgrid.AtomGrid.spherical_average", f"two-grids-sharing-degrees-{first}",
               covers=["atomgrid.AtomGrid.radial_component_splines", "atomgrid.AtomGrid.integrate_angular_coordinates"])
        def _(rng, lv, first=first):
            n = 4 + 2 * lv
            r1 = np.sort(rng.uniform(0.05, 3.0, n)) + np.arange(n) * 0.05
            r0 = r1.copy()
            r0[0] = 0.0
            w = _w(rng, n)
            kw = dict(rgrid_a=OneDGrid(r0, w, (0, np.inf)), rgrid_b=OneDGrid(r1, w, (0, np.inf)), degrees=np.array([3, 5, 7, 5, 3, 7, 5, 3][:n]),
                      center=rng.normal(0, 0.3, 3), r=RO(np.array([0.0, 0.5, 1.0])))

            def answers(g, r):
                fv = np.cos(np.arange(g.size))
                return [g.integrate_angular_coordinates(fv), g.spherical_average(fv)(r), [s_(r) for s_ in g.radial_component_splines(fv)]]

            def call(rgrid_a, rgrid_b, degrees, center, r):
                alone = answers(AtomGrid(copy.deepcopy(rgrid_a), degrees=np.array(degrees), center=center.copy()), r)
                ga = AtomGrid(rgrid_a, degrees=degrees, center=center)
                gb = AtomGrid(rgrid_b, degrees=degrees, center=center)      # same weights array, same degrees array, same centre
                seq = [gb, ga] if first.startswith("without") else [ga, gb]
                got = {id(g): answers(g, r) for g in seq}
                got2 = answers(ga, r)
                if not (_same(got[id(ga)], alone) and _same(got2, alone)):
                    raise Mismatch("an atomic grid gives other answers when a second grid sharing its weights / degrees / centre arrays is used")
            return call, kw

    for first in ("a-first", "b-first"):
        @entry("periodicgrid.PeriodicGrid.get_localgrid", f"two-cells-of-one-shape-{first}")
        def _(rng, lv, first=first):
            n = 10 + 6 * lv
            kw = dict(points=rng.uniform(-1.5, 2.5, (n, 3)), weights=_w(rng, n), cell_a=np.eye(3) * rng.uniform(0.8, 1.5, 3),
                      cell_b=np.eye(3) * rng.uniform(1.6, 2.2, 3), center=rng.uniform(-1, 1, 3))

            def call(points, weights, cell_a, cell_b, center):
                alone = PeriodicGrid(np.array(points), np.array(weights), np.array(cell_a), wrap=True).get_localgrid(np.array(center), 0.9)
                alone = (np.array(alone.points), np.array(alone.weights), np.array(alone.indices))
                ga = PeriodicGrid(points, weights, cell_a, wrap=True)
                gb = PeriodicGrid(points, weights, cell_b, wrap=True)
                for g in ([ga, gb] if first == "a-first" else [gb, ga]):
                    lg = g.get_localgrid(center, 0.9)
                    if g is ga:
                        mine = (lg.points, lg.weights, lg.indices)
                lg2 = ga.get_localgrid(center, 0.9)
                if not (_same(mine, alone) and _same((lg2.points, lg2.weights, lg2.indices), alone)):
                    raise Mismatch("a periodic grid gives another local grid when a grid with another cell is built from the same arrays")
            return call, kw


if __name__ == "__main__":
    import json

    if "--audit" in sys.argv:
        repo = os.environ.get("GRID_REPO")
        if repo:
            sys.path.insert(0, os.path.join(repo, "src"))
        rep = param_audit()
        print(f"{len(rep['parameters'])} parameters of {len({r['callable'] for r in rep['parameters']})} public callables; "
              f"{sum(r['arraylike'] for r in rep['parameters'])} array/list/dict, "
              f"{sum(r['callable_param'] for r in rep['parameters'])} callable, "
              f"{sum(r['intseq'] for r in rep['parameters'])} integer sequences; holes: {len(rep['holes'])}")
        for h in rep["holes"]:
            print(f"  {h['callable']}({h['param']}): missing {h['missing']}  kinds={h['kinds']} calls={h['calls']} doc={h['doc']!r}")
        if rep["errors"]:
            print("errors:", json.dumps(rep["errors"], indent=1)[:2000])
        if "--json" in sys.argv:
            open("/var/tmp/c20-param-audit.json", "w").write(json.dumps(rep, indent=1, default=sorted))

"""C20 registry: dynamic validation that no public entry point of src/grid modifies caller data.

    run(ctx, budget, flagged)          budget in {"quick", "thorough", "large"}
    replay(entry_name, pattern, seed)  raises AssertionError iff caller data still changes

Each registry entry names one public function/method by the qualified name that the static
effects analysis (harness/translate/effects.py) uses, and has a builder producing FRESH
arguments from a numpy Generator.  The framework deep-collects every caller-owned mutable
object reachable from the arguments, snapshots it, applies an aliasing pattern, calls the
entry point (exceptions are fine, except "read-only" write errors), and compares bit for bit.

Patterns
    rw           writable arrays, snapshot compare
    ro           every caller array (and the base of every view) has writeable=False
    alias        parameters of equal shape/dtype receive the same array object; a second
                 sub-case passes overlapping views of one buffer; equal grid objects are shared
    cb-identity  every user callback returns (a view of) the array it received
    cb-cached    every user callback returns one cached constant array per result shape
"""
from __future__ import annotations

import copy
import hashlib
import importlib
import inspect
import os
import re
import shutil
import signal
import tempfile
import time
import traceback
import warnings
import zlib

import numpy as np

PATTERNS = ["rw", "ro", "alias", "cb-identity", "cb-cached"]
GRID_MODULES = [
    "angular", "atomgrid", "basegrid", "becke", "coulomb", "cubic", "hirshfeld", "molgrid",
    "ngrid", "ode", "onedgrid", "periodicgrid", "poisson", "robust_poisson", "rtransform", "utils",
]
LEVEL_BASE = 10**6  # seed = level * LEVEL_BASE + base seed
TMP_ROOT = "/var/tmp"
_RO_MSG = re.compile(r"read-only|readonly|read only|not writeable|WRITEABLE", re.I)


# ----------------------------------------------------------------------------
# markers used by the builders
# ----------------------------------------------------------------------------
class CB:
    """Marks a user callback among the arguments (the framework wraps it per pattern)."""

    def __init__(self, fn):
        self.fn = fn


class RO:
    """Marks an array that is handed over read-only in every pattern (evaluation points of a
    returned interpolant / solution / potential)."""

    def __init__(self, arr):
        self.arr = np.asarray(arr)


class Entry:
    def __init__(self, name, variant, builder, slow=False, covers=()):
        self.name = name
        self.variant = variant
        self.builder = builder
        self.slow = slow
        self.covers = tuple(covers)

    @property
    def id(self):
        return self.name if not self.variant else f"{self.name}#{self.variant}"

    @property
    def module(self):
        return self.name.split(".")[0]

    def build(self, rng, level=0):
        return self.builder(rng, level)


_ENTRIES: list[Entry] = []


def entry(name, variant="", slow=False, covers=()):
    def deco(fn):
        _ENTRIES.append(Entry(name, variant, fn, slow=slow, covers=covers))
        return fn

    return deco


def _is_lib_obj(o) -> bool:
    m = getattr(type(o), "__module__", "") or ""
    return m == "grid" or m.startswith("grid.")


# ----------------------------------------------------------------------------
# collecting / snapshotting caller-owned objects
# ----------------------------------------------------------------------------
class _State:
    def __init__(self, pattern, sub):
        self.pattern = pattern
        self.sub = sub
        self.arrays = []       # (path, ndarray)
        self.containers = []   # (path, list/tuple/dict)
        self.callbacks = []    # paths
        self.always_ro = []    # ndarrays
        self.cb_records = []   # (path, ndarray, bytes)
        self.cb_cache = {}     # (path, shape, dtype) -> ndarray
        self.cb_calls = 0
        self.aliased = []      # descriptions
        self.protect_cb = False
        self.flag_log = []     # (ndarray, original writeable)


def _walk(obj, path, st: _State, seen: set, in_obj=False, depth=0):
    if depth > 8 or obj is None or isinstance(obj, (str, bytes, int, float, complex, bool)):
        return
    if isinstance(obj, (np.generic,)):
        return
    i = id(obj)
    if isinstance(obj, np.ndarray):
        if i in seen:
            return
        seen.add(i)
        st.arrays.append((path, obj))
        return
    if isinstance(obj, (list, tuple)):
        if i in seen:
            return
        seen.add(i)
        if not in_obj:
            st.containers.append((path, obj))
        if len(obj) > 2000:
            return
        for k, e in enumerate(obj):
            _walk(e, f"{path}[{k}]", st, seen, in_obj, depth + 1)
        return
    if isinstance(obj, dict):
        if i in seen:
            return
        seen.add(i)
        if not in_obj:
            st.containers.append((path, obj))
        for k, e in obj.items():
            _walk(e, f"{path}[{k!r}]", st, seen, in_obj, depth + 1)
        return
    if isinstance(obj, _CBWrapper):
        return
    if _is_lib_obj(obj) and hasattr(obj, "__dict__"):
        if i in seen:
            return
        seen.add(i)
        for k, e in vars(obj).items():
            _walk(e, f"{path}.{k}", st, seen, True, depth + 1)


def _struct(obj, depth=0):
    """Structural snapshot of a container (arrays by identity: their bytes are tracked apart)."""
    if isinstance(obj, np.ndarray):
        return ("ndarray", id(obj))
    if isinstance(obj, list):
        return ("list", [_struct(e, depth + 1) for e in obj]) if depth < 8 else ("list", len(obj))
    if isinstance(obj, tuple):
        return ("tuple", [_struct(e, depth + 1) for e in obj]) if depth < 8 else ("tuple", len(obj))
    if isinstance(obj, dict):
        return ("dict", [(str(k), _struct(v, depth + 1)) for k, v in obj.items()])
    if isinstance(obj, (int, float, complex, bool, str, bytes, type(None), np.generic)):
        return ("val", type(obj).__name__, repr(obj))
    return ("obj", id(obj))


def _struct_diff(a, b, path):
    if a == b:
        return None
    if a[0] != b[0]:
        return path, a, b
    if a[0] in ("list", "tuple") and isinstance(a[1], list):
        if len(a[1]) != len(b[1]):
            return path, f"len {len(a[1])}", f"len {len(b[1])}"
        for k, (x, y) in enumerate(zip(a[1], b[1])):
            d = _struct_diff(x, y, f"{path}[{k}]")
            if d:
                return d
    if a[0] == "dict":
        ka, kb = [k for k, _ in a[1]], [k for k, _ in b[1]]
        if ka != kb:
            return path, f"keys {ka}", f"keys {kb}"
        for (k, x), (_, y) in zip(a[1], b[1]):
            d = _struct_diff(x, y, f"{path}[{k}]")
            if d:
                return d
    return path, a, b


def _short(x, n=160):
    s = x if isinstance(x, str) else repr(x)
    return s if len(s) <= n else s[:n] + "..."


def _array_diff(arr: np.ndarray, snap):
    """-> None or dict(index, before, after)."""
    shape, dtype, data = snap
    if arr.shape != shape or arr.dtype != dtype:
        return {"index": None, "before": f"shape {shape} dtype {dtype}",
                "after": f"shape {arr.shape} dtype {arr.dtype}"}
    now = arr.tobytes()
    if now == data:
        return None
    b1 = np.frombuffer(data, dtype=np.uint8)
    b2 = np.frombuffer(now, dtype=np.uint8)
    first = int(np.argmax(b1 != b2)) // max(1, dtype.itemsize)
    before = np.frombuffer(data, dtype=dtype)
    idx = [int(v) for v in np.unravel_index(first, shape)] if shape else []
    try:
        after = arr.reshape(-1)[first] if arr.ndim else arr[()]
    except Exception:
        after = np.frombuffer(now, dtype=dtype)[first]
    ndiff = int(np.count_nonzero(before != np.frombuffer(now, dtype=dtype))) if dtype.kind in "iufb" else None
    return {"index": idx, "before": before[first].item() if dtype.kind in "iufbc" else repr(before[first]),
            "after": after.item() if hasattr(after, "item") else repr(after), "n_changed": ndiff}


def _snap(arr: np.ndarray):
    return (arr.shape, arr.dtype, arr.tobytes())


def _protect(arr: np.ndarray, st: _State):
    chain = []
    a = arr
    while isinstance(a, np.ndarray):
        chain.append(a)
        a = a.base
    for a in reversed(chain):  # bases first
        st.flag_log.append((a, bool(a.flags.writeable)))
        try:
            a.flags.writeable = False
        except ValueError:
            pass


def _unprotect(st: _State):
    # restore in the order recorded (bases were recorded before their views)
    done = set()
    for a, w in st.flag_log:
        if id(a) in done:
            continue
        done.add(id(a))
        if w:
            try:
                a.flags.writeable = True
            except ValueError:
                pass
    st.flag_log = []


# ----------------------------------------------------------------------------
# callbacks
# ----------------------------------------------------------------------------
class _CBWrapper:
    def __init__(self, fn, path, st: _State):
        self.fn = fn
        self.path = path
        self.st = st

    def _record(self, r):
        st = self.st
        if isinstance(r, np.ndarray):
            if st.protect_cb:
                _protect(r, st)
            if len(st.cb_records) < 200000:
                st.cb_records.append((self.path, r, _snap(r)))
        elif isinstance(r, (list, tuple)):
            for e in r:
                self._record(e)

    def __call__(self, *args, **kw):
        st = self.st
        st.cb_calls += 1
        real = self.fn(*args, **kw)
        out = real
        if isinstance(real, np.ndarray) and st.pattern == "cb-identity":
            cands = [a for a in list(args) + list(kw.values()) if isinstance(a, np.ndarray)]
            chosen = None
            for a in cands:  # the very object when shapes allow
                if a.shape == real.shape and a.dtype == real.dtype:
                    chosen = a
                    break
            if chosen is None:
                for a in cands:  # else a view of it
                    if a.dtype == real.dtype and a.size >= real.size and real.size > 0:
                        try:
                            v = a.reshape(-1)[: real.size].reshape(real.shape)
                        except Exception:
                            continue
                        if np.shares_memory(v, a):
                            chosen = v
                            break
            if chosen is not None:
                out = chosen
        elif isinstance(real, np.ndarray) and st.pattern == "cb-cached":
            key = (self.path, real.shape, real.dtype.str)
            if key not in st.cb_cache:
                st.cb_cache[key] = np.array(real)
            out = st.cb_cache[key]
        self._record(out)
        return out


def _subst(obj, path, st: _State, depth=0):
    """Replace CB / RO markers (lists and dicts in place, tuples rebuilt)."""
    if isinstance(obj, CB):
        st.callbacks.append(path)
        return _CBWrapper(obj.fn, path, st)
    if isinstance(obj, RO):
        st.always_ro.append(obj.arr)
        return obj.arr
    if depth > 6:
        return obj
    if isinstance(obj, list):
        for k in range(len(obj)):
            obj[k] = _subst(obj[k], f"{path}[{k}]", st, depth + 1)
        return obj
    if isinstance(obj, tuple):
        new = tuple(_subst(e, f"{path}[{k}]", st, depth + 1) for k, e in enumerate(obj))
        return new if any(a is not b for a, b in zip(new, obj)) else obj
    if isinstance(obj, dict):
        for k in list(obj.keys()):
            obj[k] = _subst(obj[k], f"{path}[{k!r}]" if depth else str(k), st, depth + 1)
        return obj
    return obj


# ----------------------------------------------------------------------------
# aliasing
# ----------------------------------------------------------------------------
def _slots(obj, path, out, depth=0):
    """(parent, key, value, path) of arrays / library objects in mutable parents."""
    if depth > 4:
        return
    if isinstance(obj, dict):
        items = list(obj.items())
    elif isinstance(obj, list):
        items = list(enumerate(obj))
    else:
        return
    for k, v in items:
        p = f"{path}[{k!r}]" if path else str(k)
        if isinstance(v, np.ndarray) or (_is_lib_obj(v) and hasattr(v, "__dict__")):
            out.append((obj, k, v, p))
        elif isinstance(v, (dict, list)):
            _slots(v, p, out, depth + 1)


def _apply_alias(kwargs, st: _State):
    slots = []
    _slots(kwargs, "", slots)
    ro_ids = {id(a) for a in st.always_ro}
    groups = {}
    for parent, k, v, p in slots:
        if id(v) in ro_ids:
            continue
        if isinstance(v, np.ndarray):
            if v.size == 0:
                continue
            key = ("arr", v.shape, v.dtype.str)
        else:
            size = getattr(v, "size", None)
            try:
                size = int(size)
            except Exception:
                size = None
            key = ("obj", type(v).__name__, size)
        groups.setdefault(key, []).append((parent, k, v, p))
    for key, members in groups.items():
        # distinct objects only
        uniq = []
        for m in members:
            if all(m[2] is not u[2] for u in uniq):
                uniq.append(m)
        if len(uniq) < 2:
            continue
        if key[0] == "obj" or st.sub == "same":
            first = uniq[0][2]
            for parent, k, v, p in uniq[1:]:
                parent[k] = first
            st.aliased.append(f"{'='.join(m[3] for m in uniq)} (same object)")
        else:  # overlapping views of one buffer
            (pa, ka, va, ppa), (pb, kb, vb, ppb) = uniq[0], uniq[1]
            n = va.size
            step = max(1, va.shape[-1] // 2) if va.ndim else 1
            buf = np.empty(n + step, dtype=va.dtype)
            buf[:n] = va.reshape(-1)
            buf[n:] = vb.reshape(-1)[-step:]
            pa[ka] = buf[:n].reshape(va.shape)
            pb[kb] = buf[step:step + n].reshape(va.shape)
            st.aliased.append(f"{ppa}~{ppb} (overlapping views, offset {step})")


# ----------------------------------------------------------------------------
# one case
# ----------------------------------------------------------------------------
class _Timeout(Exception):
    pass


def _alarm(signum, frame):
    raise _Timeout("case exceeded its time limit")


def _rng_for(entry_id: str, seed: int):
    return np.random.default_rng([zlib.crc32(entry_id.encode()), seed % LEVEL_BASE, seed // LEVEL_BASE])


def _lib_frame(tb) -> str:
    last = ""
    for fr in traceback.extract_tb(tb):
        if "/grid/" in fr.filename and "/harness/" not in fr.filename:
            last = f"{fr.filename.split('/grid/')[-1]}:{fr.lineno} in {fr.name}: {fr.line}"
    return last


def _execute(ent: Entry, pattern: str, seed: int, sub: str = "same", protect: bool = True,
             limit: float = 60.0):
    """-> dict(applicable, violations, sig, exc, nontrivial, readonly_exc)"""
    level = seed // LEVEL_BASE
    rng = _rng_for(ent.id, seed)
    np.random.seed(int(rng.integers(0, 2**31 - 1)))
    st = _State(pattern, sub)
    call, kwargs = ent.build(rng, level)
    kwargs = _subst(dict(kwargs), "", st)
    has_cb = bool(st.callbacks)
    res = {"applicable": True, "violations": [], "sig": [], "exc": None, "nontrivial": False,
           "readonly_exc": None, "aliased": [], "cb_calls": 0}
    if pattern in ("cb-identity", "cb-cached") and not has_cb:
        res["applicable"] = False
        return res
    if pattern == "alias":
        _apply_alias(kwargs, st)
        if not st.aliased:
            res["applicable"] = False
            return res
        res["aliased"] = list(st.aliased)
    _walk(kwargs, "", st, set())
    # paths start with "[<name>]" from the dict walk; tidy
    st.arrays = [(_tidy(p), a) for p, a in st.arrays]
    st.containers = [(_tidy(p), c) for p, c in st.containers if c is not kwargs]
    res["nontrivial"] = bool(st.arrays or st.containers or has_cb)
    sig = [f"{p}:{a.dtype.str.lstrip('<|=')}{list(a.shape)}" for p, a in st.arrays if "." not in p]
    sig += [f"{p}:{type(c).__name__}[{len(c)}]" for p, c in st.containers]
    sig += [f"{p}:cb" for p in st.callbacks]
    sig += [f"{p}:obj" for p in sorted({q.split('.')[0] for q, _ in st.arrays if "." in q})]
    res["sig"] = sorted(sig)

    snaps = [_snap(a) for _, a in st.arrays]
    csnaps = [_struct(c) for _, c in st.containers]
    if protect:
        for a in st.always_ro:
            _protect(a, st)
        if pattern == "ro":
            st.protect_cb = True
            for _, a in st.arrays:
                _protect(a, st)
    exc = None
    tb_txt = ""
    old = None
    use_alarm = hasattr(signal, "setitimer")
    try:
        if use_alarm:
            try:
                old = signal.signal(signal.SIGVTALRM, _alarm)
                signal.setitimer(signal.ITIMER_VIRTUAL, limit)
            except ValueError:
                use_alarm = False
        with warnings.catch_warnings():
            warnings.simplefilter("ignore")
            with np.errstate(all="ignore"):
                call(**kwargs)
    except KeyboardInterrupt:
        raise
    except BaseException as e:  # noqa: BLE001 - "returns (or raises)"
        exc = e
        tb_txt = _lib_frame(e.__traceback__)
    finally:
        if use_alarm:
            signal.setitimer(signal.ITIMER_VIRTUAL, 0)
            if old is not None:
                signal.signal(signal.SIGVTALRM, old)
        _unprotect(st)
    res["cb_calls"] = st.cb_calls
    if exc is not None:
        res["exc"] = f"{type(exc).__name__}: {str(exc)[:200]}" + (f" @ {tb_txt}" if tb_txt else "")
        if isinstance(exc, (ValueError, RuntimeError, TypeError)) and _RO_MSG.search(str(exc)):
            res["readonly_exc"] = {"error": f"{type(exc).__name__}: {exc}", "where": tb_txt}

    viol = res["violations"]
    for (p, a), s in zip(st.arrays, snaps):
        d = _array_diff(a, s)
        if d:
            viol.append({"argname": p.split("[")[0].split(".")[0], "object": p, "kind": "array", **d})
    for (p, c), s in zip(st.containers, csnaps):
        d = _struct_diff(s, _struct(c), p)
        if d:
            viol.append({"argname": p.split("[")[0].split(".")[0], "object": d[0], "kind": type(c).__name__,
                         "index": None, "before": _short(d[1]), "after": _short(d[2])})
    seen_cb = set()
    for p, a, s in st.cb_records:
        d = _array_diff(a, s)
        if d:
            k = p  # one report per callback and case
            if k in seen_cb:
                continue
            seen_cb.add(k)
            viol.append({"argname": "callback-result", "object": f"result of callback {p}"
                         + (" (cached array)" if pattern == "cb-cached" else
                            " (its own argument)" if pattern == "cb-identity" else ""),
                         "kind": "callback-result", **d})
            if len(seen_cb) >= 3:
                break
    return res


def _tidy(p: str) -> str:
    # "['x'][0].attr" -> "x[0].attr"
    m = re.match(r"^\['([^']+)'\](.*)$", p)
    return (m.group(1) + m.group(2)) if m else p


def _subs(pattern, ent):
    if pattern == "alias":
        return ["same"] if ent.slow else ["same", "overlap"]
    return ["same"]


def _run_case(ent: Entry, pattern: str, seed: int, limit: float = 60.0):
    """Run all sub-cases of (entry, pattern, seed). -> (applicable, violations, info)"""
    info = {"sig": [], "exc": None, "nontrivial": False, "aliased": []}
    violations = []
    applicable = False
    for sub in _subs(pattern, ent):
        r = _execute(ent, pattern, seed, sub, True, limit)
        if not r["applicable"]:
            continue
        applicable = True
        if not info["sig"]:
            info["sig"] = r["sig"]
        info["nontrivial"] = info["nontrivial"] or r["nontrivial"]
        info["aliased"] += r["aliased"]
        if r["exc"]:
            info["exc"] = r["exc"]
        vs = list(r["violations"])
        if r["readonly_exc"]:
            # locate the object: same case without write protection
            r2 = _execute(ent, pattern, seed, sub, False, limit)
            located = r2["violations"]
            if located:
                for v in located:
                    v = dict(v)
                    v["readonly_error"] = r["readonly_exc"]
                    vs.append(v)
            else:
                vs.append({"argname": "read-only-input", "object": "a write-protected caller array",
                           "kind": "readonly-exception", "index": None, "before": None, "after": None,
                           "readonly_error": r["readonly_exc"]})
        uniq, seen_obj = [], set()
        for v in vs:
            if v["object"] in seen_obj:
                continue
            seen_obj.add(v["object"])
            uniq.append(v)
        vs = uniq
        for v in vs:
            v["sub"] = sub
            if r["aliased"]:
                v["aliasing"] = r["aliased"]
        violations += vs
    return applicable, violations, info


def _snippet(ent: Entry, pattern: str, seed: int) -> str:
    return ("import sys; sys.path.insert(0, '/verif'); from harness.props import c20_registry as r; "
            f"r.replay({ent.id!r}, {pattern!r}, {seed})")


def _what(ent, pattern, v) -> str:
    if v.get("kind") == "readonly-exception":
        s = f"{ent.name} ({pattern}): in-place write attempted on {v['object']}"
    else:
        s = f"{ent.name} ({pattern}): {v['object']} changed"
    if v.get("index") is not None:
        s += f" at index {v['index']}: {v.get('before')!r} -> {v.get('after')!r}"
    elif v.get("before") is not None:
        s += f": {v.get('before')} -> {v.get('after')}"
    if v.get("readonly_error"):
        s += f" [{v['readonly_error']['error'][:80]} @ {v['readonly_error']['where'][:120]}]"
    return s


def replay(entry_name: str, pattern: str, seed: int) -> None:
    import sys

    repo = os.environ.get("GRID_REPO")
    if repo and "grid" not in sys.modules:  # replay against a worktree, as ./check does
        sys.path.insert(0, os.path.join(repo, "src"))
    _load_entries()
    ent = next((e for e in _ENTRIES if e.id == entry_name), None)
    if ent is None:
        ent = next((e for e in _ENTRIES if e.name == entry_name), None)
    if ent is None:
        raise KeyError(f"no registry entry {entry_name!r}")
    applicable, violations, info = _run_case(ent, pattern, int(seed))
    if violations:
        raise AssertionError("caller data changed: " + "; ".join(_what(ent, pattern, v) for v in violations[:4]))


# ----------------------------------------------------------------------------
# coverage enumeration
# ----------------------------------------------------------------------------
_DUNDERS = {"__init__", "__call__", "__getitem__"}


def _public(name: str) -> bool:
    return (not name.startswith("_")) or name in _DUNDERS


def public_api():
    """-> (callables: sorted list of qualified names, n_property_getters)"""
    names, getters = set(), 0
    for m in GRID_MODULES:
        mod = importlib.import_module(f"grid.{m}")
        for n, o in vars(mod).items():
            if getattr(o, "__module__", None) != mod.__name__:
                continue
            if inspect.isfunction(o) and _public(n):
                names.add(f"{m}.{n}")
            elif inspect.isclass(o) and not n.startswith("_") and not issubclass(o, Warning):
                for attr in dir(o):
                    if not _public(attr):
                        continue
                    for klass in o.__mro__:
                        if attr in vars(klass):
                            break
                    else:
                        continue
                    km = klass.__module__
                    if not km.startswith("grid."):
                        continue
                    raw = vars(klass)[attr]
                    if getattr(raw, "__isabstractmethod__", False):
                        continue  # abstract declaration: covered through every concrete subclass
                    q = f"{km[5:]}.{klass.__name__}.{attr}"
                    if isinstance(raw, property):
                        if raw.fset is not None:
                            names.add(q)
                        else:
                            getters += 1
                    elif isinstance(raw, (staticmethod, classmethod)) or inspect.isfunction(raw):
                        names.add(q)
    return sorted(names), getters


# ----------------------------------------------------------------------------
# module dependencies (for "flagged" ordering)
# ----------------------------------------------------------------------------
def _module_deps():
    from ..common import SRC

    deps = {}
    for m in GRID_MODULES:
        try:
            text = (SRC / f"{m}.py").read_text()
        except OSError:
            text = ""
        deps[m] = set(re.findall(r"from grid\.(\w+) import", text)) & set(GRID_MODULES)
    closure = {}
    for m in GRID_MODULES:
        seen, todo = set(), [m]
        while todo:
            x = todo.pop()
            for y in deps.get(x, ()):
                if y not in seen:
                    seen.add(y)
                    todo.append(y)
        closure[m] = seen
    return closure


def _priority(ent: Entry, flagged: set, closure) -> int:
    if not flagged:
        return 3
    if ent.name in flagged or any(c in flagged for c in ent.covers):
        return 0
    fmods = {f.split(".")[0] for f in flagged}
    if ent.module in fmods:
        return 1
    if closure.get(ent.module, set()) & fmods:
        return 2
    return 3


# ----------------------------------------------------------------------------
# run
# ----------------------------------------------------------------------------
def run(ctx, budget: str, flagged: set) -> None:
    _load_entries()
    t0 = time.time()
    c0 = time.process_time()  # budgets in CPU seconds: the machine may be loaded
    flagged = set(flagged or ())
    closure = _module_deps()
    prio = {e.id: _priority(e, flagged, closure) for e in _ENTRIES}
    order = sorted(range(len(_ENTRIES)), key=lambda i: (prio[_ENTRIES[i].id], i))
    if budget == "quick":
        plan = [(0, 0)]
        wall, limit = 55.0, 6.0
    elif budget == "thorough":
        plan = [(0, 0), (0, 1), (1, 0), (1, 1)]
        wall, limit = 900.0, 60.0
    else:
        plan = [(lv, r) for lv in (0, 1, 2) for r in (0, 1, 2)]
        wall, limit = 1800.0, 90.0
    reg = {
        "budget": budget, "entries": len(_ENTRIES), "entries_by_module": {},
        "cases": {p: 0 for p in PATTERNS}, "not_applicable": {p: 0 for p in PATTERNS},
        "raised": {}, "timeouts": [], "skipped": {}, "build_errors": {}, "trivial_entries": [],
        "flagged_first": sorted(e.id for e in _ENTRIES if prio[e.id] == 0),
        "entries_run": 0,
    }
    for e in _ENTRIES:
        reg["entries_by_module"][e.module] = reg["entries_by_module"].get(e.module, 0) + 1
    base = (ctx.seed % 1000) * 1000
    failing = {}
    for i in order:
        ent = _ENTRIES[i]
        if ent.slow and budget == "quick" and prio[ent.id] > 1:
            reg["skipped"][ent.id] = "slow: runs in thorough/large budgets (or when its module is flagged)"
            continue
        if time.process_time() - c0 > wall:
            reg["skipped"][ent.id] = f"time budget of the {budget} run exhausted"
            continue
        ran = False
        if failing.get(ent.name, 0) >= 3:
            reg["skipped"][ent.id] = "this entry point already has 3 violating cases in this run"
            continue
        for level, rep in plan:
            seed = level * LEVEL_BASE + base + rep
            for pattern in PATTERNS:
                try:
                    applicable, violations, info = _run_case(ent, pattern, seed, limit)
                except KeyboardInterrupt:
                    raise
                except BaseException as e:  # builder / harness problem
                    reg["build_errors"][f"{ent.id}:{pattern}:{seed}"] = (
                        f"{type(e).__name__}: {str(e)[:200]} @ {_lib_frame(e.__traceback__)[:200]}")
                    continue
                if not applicable:
                    reg["not_applicable"][pattern] += 1
                    continue
                ran = True
                reg["cases"][pattern] += 1
                ctx.count([ent.id, pattern, info["sig"]], nontrivial=info["nontrivial"],
                          tag=f"{ent.module}:{pattern}")
                if not info["nontrivial"] and ent.id not in reg["trivial_entries"]:
                    reg["trivial_entries"].append(ent.id)
                if info["exc"]:
                    reg["raised"][f"{ent.id}:{pattern}:{seed}"] = info["exc"][:300]
                    if info["exc"].startswith("_Timeout"):
                        reg["timeouts"].append(f"{ent.id}:{pattern}:{seed}")
                if violations:
                    failing[ent.name] = failing.get(ent.name, 0) + 1
                for v in violations[:3]:
                    ctx.fail(
                        "oracle",
                        key=f"{ent.name}:{v['argname'] or 'callback-result'}",
                        what=_what(ent, pattern, v),
                        witness={"entry": ent.id, "pattern": pattern, "seed": seed,
                                 "changed_object": v["object"], "kind": v["kind"],
                                 "first_differing_index": v.get("index"),
                                 "before": v.get("before"), "after": v.get("after"),
                                 "n_changed": v.get("n_changed"), "sub_case": v.get("sub"),
                                 "aliasing": v.get("aliasing"), "readonly_error": v.get("readonly_error"),
                                 "argument_signature": info["sig"], "exception": info["exc"]},
                        snippet=_snippet(ent, pattern, seed),
                    )
                if not info["nontrivial"]:
                    break  # no caller-owned object: one call is enough
        if ran:
            reg["entries_run"] += 1
    api, getters = public_api()
    covered = {e.name for e in _ENTRIES} | {c for e in _ENTRIES for c in e.covers}
    reg["public_callables"] = len(api)
    reg["property_getters_not_enumerated"] = getters
    reg["not_covered"] = [n for n in api if n not in covered]
    reg["entry_names_unknown_to_api"] = sorted(n for n in {e.name for e in _ENTRIES} if n not in api)
    reg["n_raised"] = len(reg["raised"])
    reg["raised"] = dict(list(reg["raised"].items())[:60])
    reg["wall_s"] = round(time.time() - t0, 1)
    reg["cpu_s"] = round(time.process_time() - c0, 1)
    ctx.extra["registry"] = reg
    ctx.extra[f"registry_{budget}"] = {k: reg[k] for k in ("entries_run", "cases", "wall_s", "cpu_s", "n_raised")}
    if reg["build_errors"]:
        ctx.info(f"C20 registry: {len(reg['build_errors'])} cases could not be built/run: "
                 + "; ".join(f"{k}: {v}" for k, v in list(reg["build_errors"].items())[:3]))
    if reg["not_covered"]:
        ctx.info(f"C20 registry: {len(reg['not_covered'])} public callables without entry: "
                 + ", ".join(reg["not_covered"][:12]))


_LOADED = False


def _load_entries():
    global _LOADED
    if _LOADED:
        return
    _LOADED = True
    _define_entries()


# ============================================================================
# builders
# ============================================================================
def _define_entries():
    _entries_basegrid()
    _entries_angular_atomgrid()
    _entries_becke_hirshfeld_molgrid()
    _entries_cubic_periodic_ngrid()
    _entries_ode_poisson()
    _entries_coulomb_utils()
    _entries_rtransform_onedgrid()


# ---- helpers ---------------------------------------------------------------
def _pts(rng, n, d=3, scale=1.0):
    if d == 0:
        return rng.uniform(-1.0, 1.0, n) * scale
    return rng.uniform(-1.0, 1.0, (n, d)) * scale


def _w(rng, n):
    return rng.uniform(0.1, 1.0, n)


def _oned(rng, n, positive=True):
    """A caller-owned OneDGrid built from plain caller arrays."""
    from grid.basegrid import OneDGrid

    if positive:
        pts = np.sort(rng.uniform(0.05, 3.0, n)) + np.arange(n) * 0.05
        return OneDGrid(pts, _w(rng, n), (0, np.inf))
    pts = np.sort(rng.uniform(-1.0, 1.0, n)) + np.arange(n) * 1e-3
    return OneDGrid(pts, _w(rng, n), (-1.5, 1.5))


def _radial(rng, n):
    """Caller-owned radial grid from a Becke transform of Gauss-Legendre, as plain arrays."""
    from grid.basegrid import OneDGrid
    from grid.onedgrid import GaussLegendre
    from grid.rtransform import BeckeRTransform

    g = BeckeRTransform(1e-4, 1.0 + float(rng.random())).transform_1d_grid(GaussLegendre(n))
    return OneDGrid(np.array(g.points), np.array(g.weights), (0, np.inf))


def _atgrid(rng, n=4, deg=3, center=None, radial=False):
    from grid.atomgrid import AtomGrid

    rg = _radial(rng, n) if radial else _oned(rng, n)
    return AtomGrid(rg, degrees=[deg], center=np.zeros(3) if center is None else center)


def _mol(rng, level, natom=2):
    """atnums, atcoords, atgrids (caller-owned objects)."""
    atnums = np.array([1, 8, 6][:natom])
    atcoords = np.array([[0.0, 0.0, -0.7], [0.0, 0.0, 0.7], [0.9, 0.3, 0.0]])[:natom] + rng.normal(0, 0.05, (natom, 3))
    atgrids = [_atgrid(rng, 4 + 2 * level, 3 if level == 0 else 5, center=atcoords[i].copy()) for i in range(natom)]
    return atnums, atcoords, atgrids


def _tmpdir():
    return tempfile.mkdtemp(prefix="gv-c20-", dir=TMP_ROOT)


# ---- basegrid ----------------------------------------------------------------
def _entries_basegrid():
    from grid.basegrid import Grid, LocalGrid, OneDGrid

    @entry("basegrid.Grid.__init__")
    def _(rng, lv):
        n = 6 + 10 * lv
        d = int(rng.choice([0, 1, 2, 3]))
        return (lambda points, weights: Grid(points, weights)), dict(points=_pts(rng, n, d), weights=_w(rng, n))

    for nv in (1, 2, 3):
        @entry("basegrid.Grid.integrate", f"{nv}-arrays", covers=["basegrid.Grid.__init__"])
        def _(rng, lv, nv=nv):
            n = 7 + 10 * lv
            kw = dict(points=_pts(rng, n), weights=_w(rng, n))
            for i in range(nv):
                kw[f"v{i}"] = rng.normal(size=n)

            def call(points, weights, **vs):
                return Grid(points, weights).integrate(*[vs[k] for k in sorted(vs)])
            return call, kw

    @entry("basegrid.Grid.integrate", "weights-as-values")
    def _(rng, lv):
        n = 9
        def call(points, weights, v):
            g = Grid(points, weights)
            return g.integrate(g.weights, v, g.points[:, 0])
        return call, dict(points=_pts(rng, n), weights=_w(rng, n), v=rng.normal(size=n))

    for d in (1, 3):
        @entry("basegrid.Grid.get_localgrid", f"{d}d")
        def _(rng, lv, d=d):
            n = 12 + 20 * lv
            pts = _pts(rng, n, d)
            if d == 1:
                pts = pts[:, 0].copy()
                center = np.array(0.1)
            else:
                center = rng.uniform(-0.3, 0.3, d)

            def call(points, weights, center, radius):
                g = Grid(points, weights)
                lg = g.get_localgrid(center, radius)
                lg2 = g.get_localgrid(center, radius * 0.5)  # cached tree
                return lg.points, lg2.indices
            return call, dict(points=pts, weights=_w(rng, n), center=center, radius=0.8)

    kinds = ["int", "npint", "slice", "intarray", "mask", "list", "negarray", "empty", "ellipsis"]

    def index_of(kind, rng, n):
        if kind == "int":
            return int(rng.integers(0, n))
        if kind == "npint":
            return np.int64(rng.integers(0, n))
        if kind == "slice":
            return slice(1, n - 1, 2)
        if kind == "intarray":
            return rng.integers(0, n, size=5)
        if kind == "mask":
            m = rng.random(n) < 0.5
            m[0] = True
            return m
        if kind == "list":
            return [0, n - 1, 2]
        if kind == "negarray":
            return -1 - rng.integers(0, n, size=4)
        if kind == "empty":
            return np.zeros(0, dtype=int)
        return Ellipsis

    for kind in kinds:
        @entry("basegrid.Grid.__getitem__", kind)
        def _(rng, lv, kind=kind):
            n = 8 + 10 * lv
            def call(points, weights, index):
                g = Grid(points, weights)[index]
                return g.points, g.weights
            return call, dict(points=_pts(rng, n), weights=_w(rng, n), index=index_of(kind, rng, n))

        @entry("basegrid.OneDGrid.__getitem__", kind)
        def _(rng, lv, kind=kind):
            n = 8 + 10 * lv
            def call(points, weights, index):
                g = OneDGrid(points, weights, (-2.0, 2.0))[index]
                return g.points, g.weights
            return call, dict(points=np.sort(rng.uniform(-1, 1, n)), weights=_w(rng, n), index=index_of(kind, rng, n))

    for tm in ("cartesian", "pure", "radial", "pure-radial"):
        for ro in (False, True):
            @entry("basegrid.Grid.moments", f"{tm}{'-orders' if ro else ''}")
            def _(rng, lv, tm=tm, ro=ro):
                n = 10 + 15 * lv
                orders = int(rng.integers(1, 3 + lv))
                def call(points, weights, centers, func_vals):
                    return Grid(points, weights).moments(orders, centers, func_vals, type_mom=tm, return_orders=ro)
                return call, dict(points=_pts(rng, n), weights=_w(rng, n),
                                  centers=rng.normal(0, 0.3, (2 + lv, 3)), func_vals=rng.normal(size=n))

    @entry("basegrid.Grid.points")
    def _(rng, lv):
        n = 8 + 5 * lv
        def call(points, weights, new_points, center):
            g = Grid(points, weights)
            g.get_localgrid(center, 0.5)
            g.points = new_points
            return g.get_localgrid(center, 0.7).points, g.integrate(g.points[:, 0])
        return call, dict(points=_pts(rng, n), weights=_w(rng, n), new_points=_pts(rng, n), center=np.zeros(3))

    @entry("basegrid.Grid.weights")
    def _(rng, lv):
        n = 8 + 5 * lv
        def call(points, weights, new_weights):
            g = Grid(points, weights)
            g.weights = new_weights
            return g.integrate(g.weights)
        return call, dict(points=_pts(rng, n), weights=_w(rng, n), new_weights=_w(rng, n))

    @entry("basegrid.Grid.save")
    def _(rng, lv):
        def call(points, weights):
            d = _tmpdir()
            try:
                Grid(points, weights).save(os.path.join(d, "g.npz"))
            finally:
                shutil.rmtree(d, ignore_errors=True)
        return call, dict(points=_pts(rng, 6), weights=_w(rng, 6))

    @entry("basegrid.LocalGrid.__init__")
    def _(rng, lv):
        n = 6 + 5 * lv
        def call(points, weights, center, indices):
            g = LocalGrid(points, weights, center, indices)
            return g.center, g.indices, g.integrate(g.weights)
        return call, dict(points=_pts(rng, n), weights=_w(rng, n), center=rng.normal(size=3), indices=np.arange(n))

    @entry("basegrid.LocalGrid.save")
    def _(rng, lv):
        def call(points, weights, center, indices):
            d = _tmpdir()
            try:
                LocalGrid(points, weights, center, indices).save(os.path.join(d, "g.npz"))
            finally:
                shutil.rmtree(d, ignore_errors=True)
        return call, dict(points=_pts(rng, 6), weights=_w(rng, 6), center=np.zeros(3), indices=np.arange(6))

    @entry("basegrid.OneDGrid.__init__")
    def _(rng, lv):
        n = 6 + 5 * lv
        def call(points, weights, domain):
            g = OneDGrid(points, weights, domain)
            return g.domain, g.integrate(g.points)
        return call, dict(points=np.sort(rng.uniform(-1, 1, n)), weights=_w(rng, n), domain=(-1.5, 1.5))

    @entry("basegrid.OneDGrid.__init__", "domain-list")
    def _(rng, lv):
        n = 6
        return (lambda points, weights, domain: OneDGrid(points, weights, domain).domain), dict(
            points=np.sort(rng.uniform(-1, 1, n)), weights=_w(rng, n), domain=[-1.5, 1.5])



# ---- angular, atomgrid -------------------------------------------------------
def _entries_angular_atomgrid():
    from grid.angular import AngularGrid
    from grid.atomgrid import AtomGrid

    @entry("angular.AngularGrid.__init__")
    def _(rng, lv):
        deg = int(rng.choice([3, 5, 7, 9]))
        def call(method, cache):
            g = AngularGrid(deg, method=method, cache=cache)
            g2 = AngularGrid(size=int(g.size), method=method, cache=cache)
            return g.points, g2.weights
        return call, dict(method=str(rng.choice(["lebedev", "spherical"])), cache=bool(rng.integers(0, 2)))

    @entry("angular.AngularGrid.__init__", "cached-arrays-stay-intact")
    def _(rng, lv):
        # the arrays of a cached grid are the caller's after construction: building the same
        # grid again must not touch them
        deg = int(rng.choice([3, 5, 7]))
        def call(first):
            g = AngularGrid(deg, cache=True)
            return g.points.sum() + first.points.sum()
        return call, dict(first=AngularGrid(deg, cache=True))

    for form in ("array", "list"):
        for method in ("lebedev", "spherical"):
            @entry("angular.AngularGrid.convert_angular_sizes_to_degrees", f"{form}-{method}")
            def _(rng, lv, form=form, method=method):
                sizes = rng.integers(4, 200 + 400 * lv, size=3 + 3 * lv)
                sizes = sizes if form == "array" else [int(s) for s in sizes]
                return (lambda sizes: AngularGrid.convert_angular_sizes_to_degrees(sizes, method)), dict(sizes=sizes)

    def ag_kwargs(rng, lv, radial=False):
        n = 4 + 3 * lv
        rgrid = _radial(rng, n) if radial else _oned(rng, n)
        degrees = [int(d) for d in rng.choice([3, 5, 7], size=n)]
        return dict(rgrid=rgrid, degrees=degrees, center=rng.normal(0, 0.3, 3))

    def ag_size(kw):
        return AtomGrid(copy.deepcopy(kw["rgrid"]), degrees=list(kw["degrees"])).size

    for form in ("degrees-list1", "degrees-list", "degrees-array", "sizes-list", "sizes-array", "no-center"):
        @entry("atomgrid.AtomGrid.__init__", form)
        def _(rng, lv, form=form):
            n = 4 + 3 * lv
            rgrid = _oned(rng, n)
            kw = dict(rgrid=rgrid)
            if form == "degrees-list1":
                kw["degrees"] = [int(rng.choice([3, 5, 7]))]
            elif form in ("degrees-list", "no-center"):
                kw["degrees"] = [int(d) for d in rng.choice([3, 5, 7, 9], size=n)]
            elif form == "degrees-array":
                kw["degrees"] = rng.choice([3, 5, 7, 9], size=n)
            elif form == "sizes-list":
                kw["degrees"] = None
                kw["sizes"] = [int(d) for d in rng.choice([6, 14, 26, 30], size=n)]
            else:
                kw["degrees"] = None
                kw["sizes"] = rng.choice([6, 14, 26, 30], size=n)
            if form != "no-center":
                kw["center"] = rng.normal(0, 0.5, 3)
            kw["rotate"] = int(rng.choice([0, 7]))

            def call(**k):
                g = AtomGrid(**k)
                return g.points, g.weights, g.degrees, g.indices, g.center
            return call, kw

    @entry("atomgrid.AtomGrid.from_preset", "default-rgrid")
    def _(rng, lv):
        atnum = int(rng.choice([1, 6, 8]))
        preset = str(rng.choice(["coarse", "medium"] if lv == 0 else ["coarse", "medium", "fine", "sg_1"]))
        return (lambda center: AtomGrid.from_preset(atnum, preset, center=center).points), dict(center=rng.normal(size=3))

    @entry("atomgrid.AtomGrid.from_preset", "given-rgrid")
    def _(rng, lv):
        atnum = int(rng.choice([1, 6, 8]))
        preset = str(rng.choice(["coarse", "medium", "sg_1"]))
        rot = int(rng.choice([0, 3]))
        return (lambda rgrid, center: AtomGrid.from_preset(atnum, preset, rgrid, center=center, rotate=rot).points), dict(
            rgrid=_radial(rng, 8 + 6 * lv), center=[0.1, 0.2, -0.3] if rng.random() < 0.5 else rng.normal(size=3))

    for form in ("lists", "arrays", "s-list", "s-array"):
        @entry("atomgrid.AtomGrid.from_pruned", form)
        def _(rng, lv, form=form):
            n = 6 + 4 * lv
            r_sectors = [0.3, 0.8, 1.5]
            d = [3, 5, 7, 5]
            s = [6, 14, 26, 14]
            kw = dict(rgrid=_oned(rng, n), radius=float(rng.uniform(0.8, 1.5)), center=rng.normal(size=3))
            if form == "lists":
                kw.update(r_sectors=r_sectors, d_sectors=d)
            elif form == "arrays":
                kw.update(r_sectors=np.array(r_sectors), d_sectors=np.array(d))
            elif form == "s-list":
                kw.update(r_sectors=r_sectors, d_sectors=None, s_sectors=s)
            else:
                kw.update(r_sectors=np.array(r_sectors), d_sectors=None, s_sectors=np.array(s))
            def call(**k):
                g = AtomGrid.from_pruned(**k)
                return g.points, g.degrees
            return call, kw

    @entry("atomgrid.AtomGrid.get_shell_grid")
    def _(rng, lv):
        kw = ag_kwargs(rng, lv)
        def call(rgrid, degrees, center):
            g = AtomGrid(rgrid, degrees=degrees, center=center)
            a = g.get_shell_grid(0)
            b = g.get_shell_grid(g.n_shells - 1, r_sq=False)
            return a.points, b.weights
        return call, kw

    for form in ("default", "points", "points-center", "center-list"):
        @entry("atomgrid.AtomGrid.convert_cartesian_to_spherical", form)
        def _(rng, lv, form=form):
            kw = ag_kwargs(rng, lv)
            if form != "default":
                kw["points"] = _pts(rng, 5 + 5 * lv)
            if form == "points-center":
                kw["new_center"] = rng.normal(size=3)
            if form == "center-list":
                kw["new_center"] = [0.1, 0.0, 0.2]
            def call(rgrid, degrees, center, points=None, new_center=None):
                return AtomGrid(rgrid, degrees=degrees, center=center).convert_cartesian_to_spherical(points, new_center)
            return call, kw

    for form in ("1d", "2d"):
        @entry("atomgrid.AtomGrid.integrate_angular_coordinates", form)
        def _(rng, lv, form=form):
            kw = ag_kwargs(rng, lv)
            n = ag_size(kw)
            kw["func_vals"] = rng.normal(size=n) if form == "1d" else rng.normal(size=(2, n))
            def call(rgrid, degrees, center, func_vals):
                return AtomGrid(rgrid, degrees=degrees, center=center).integrate_angular_coordinates(func_vals)
            return call, kw

    @entry("atomgrid.AtomGrid.spherical_average")
    def _(rng, lv):
        kw = ag_kwargs(rng, lv)
        kw["func_vals"] = rng.normal(size=ag_size(kw))
        kw["r"] = RO(rng.uniform(0.1, 2.0, 5))
        def call(rgrid, degrees, center, func_vals, r):
            s = AtomGrid(rgrid, degrees=degrees, center=center).spherical_average(func_vals)
            return s(r), s(r, 1)
        return call, kw

    @entry("atomgrid.AtomGrid.radial_component_splines")
    def _(rng, lv):
        kw = ag_kwargs(rng, lv)
        kw["func_vals"] = rng.normal(size=ag_size(kw))
        kw["r"] = RO(rng.uniform(0.1, 2.0, 5))
        def call(rgrid, degrees, center, func_vals, r):
            g = AtomGrid(rgrid, degrees=degrees, center=center)
            sp = g.radial_component_splines(func_vals)
            sp2 = g.radial_component_splines(func_vals)  # cached basis
            return [s(r) for s in sp], [s(r, 1) for s in sp2]
        return call, kw

    @entry("atomgrid.AtomGrid.interpolate")
    def _(rng, lv):
        kw = ag_kwargs(rng, lv)
        kw["func_vals"] = rng.normal(size=ag_size(kw))
        kw["pts"] = RO(_pts(rng, 4 + 3 * lv))
        def call(rgrid, degrees, center, func_vals, pts):
            f = AtomGrid(rgrid, degrees=degrees, center=center).interpolate(func_vals)
            out = [f(pts), f(pts, deriv=1), f(pts, deriv=1, deriv_spherical=True),
                   f(pts, 1, False, True), f(pts, 2, False, True)]
            return out
        return call, kw

    @entry("atomgrid.AtomGrid.interpolate", "origin-and-grid-points")
    def _(rng, lv):
        kw = ag_kwargs(rng, lv)
        kw["func_vals"] = rng.normal(size=ag_size(kw))
        c = kw["center"]
        kw["pts"] = RO(np.vstack([c, c + [0.0, 0.0, 0.5], c + [0.3, 0.0, 0.0]]))
        def call(rgrid, degrees, center, func_vals, pts):
            f = AtomGrid(rgrid, degrees=degrees, center=center).interpolate(func_vals)
            return f(pts), f(pts, deriv=1)
        return call, kw

    @entry("basegrid.Grid.get_localgrid", "atomgrid")
    def _(rng, lv):
        kw = ag_kwargs(rng, lv)
        kw["lcenter"] = kw["center"] + rng.normal(0, 0.2, 3)
        def call(rgrid, degrees, center, lcenter):
            lg = AtomGrid(rgrid, degrees=degrees, center=center).get_localgrid(lcenter, 1.0)
            return lg.points, lg.indices
        return call, kw

    @entry("basegrid.Grid.integrate", "atomgrid")
    def _(rng, lv):
        kw = ag_kwargs(rng, lv)
        n = ag_size(kw)
        kw["a"] = rng.normal(size=n)
        kw["b"] = rng.normal(size=n)
        def call(rgrid, degrees, center, a, b):
            return AtomGrid(rgrid, degrees=degrees, center=center).integrate(a, b)
        return call, kw

    @entry("basegrid.Grid.moments", "atomgrid-pure")
    def _(rng, lv):
        kw = ag_kwargs(rng, lv)
        kw["func_vals"] = rng.normal(size=ag_size(kw))
        kw["centers"] = rng.normal(0, 0.2, (2, 3))
        def call(rgrid, degrees, center, func_vals, centers):
            return AtomGrid(rgrid, degrees=degrees, center=center).moments(2, centers, func_vals, type_mom="pure")
        return call, kw

    @entry("atomgrid.AtomGrid.save")
    def _(rng, lv):
        kw = ag_kwargs(rng, 0)
        def call(rgrid, degrees, center):
            d = _tmpdir()
            try:
                AtomGrid(rgrid, degrees=degrees, center=center).save(os.path.join(d, "a.npz"))
            finally:
                shutil.rmtree(d, ignore_errors=True)
        return call, kw



# ---- becke, hirshfeld, molgrid -------------------------------------------------
def _entries_becke_hirshfeld_molgrid():
    from grid.atomgrid import AtomGrid
    from grid.becke import BeckeWeights
    from grid.hirshfeld import HirshfeldWeights
    from grid.molgrid import MolGrid

    def user_aim(points, atcoords, atnums, indices):
        return np.full(len(points), 1.0 / len(atcoords))

    def becke_args(rng, lv, natom=2):
        n = 6 + 6 * lv
        atnums = np.array([1, 8, 6][:natom])
        atcoords = np.array([[0.0, 0.0, -0.7], [0.0, 0.0, 0.7], [0.9, 0.3, 0.0]])[:natom] + rng.normal(0, 0.05, (natom, 3))
        points = _pts(rng, n * natom, scale=1.5)
        indices = np.arange(natom + 1) * n
        return dict(points=points, atcoords=atcoords, atnums=atnums), indices

    @entry("becke.BeckeWeights.__init__", "radii-dict")
    def _(rng, lv):
        def call(radii, points, atcoords, atnums, indices):
            b = BeckeWeights(radii, order=3)
            return b(points, atcoords, atnums, indices)
        kw, ind = becke_args(rng, lv)
        return call, dict(radii={1: 0.8, 8: float(rng.uniform(1.0, 1.5))}, indices=ind, **kw)

    @entry("becke.BeckeWeights.__call__")
    def _(rng, lv):
        natom = 2 + (lv > 0)
        kw, ind = becke_args(rng, lv, natom)
        return (lambda points, atcoords, atnums, indices: BeckeWeights(order=int(2 + lv))(points, atcoords, atnums, indices)), dict(indices=ind, **kw)

    for meth in ("generate_weights", "compute_weights"):
        for form in ("select-int", "select-list-ptind-list", "select-none-ptind-array", "defaults"):
            @entry(f"becke.BeckeWeights.{meth}", form)
            def _(rng, lv, meth=meth, form=form):
                kw, ind = becke_args(rng, lv)
                if form == "select-int":
                    kw.update(select=int(rng.integers(0, 2)))
                elif form == "select-list-ptind-list":
                    kw.update(select=[0, 1], pt_ind=[int(i) for i in ind])
                elif form == "select-none-ptind-array":
                    kw.update(pt_ind=ind)
                else:
                    kw["atcoords"] = kw["atcoords"][:1].copy()
                    kw["atnums"] = kw["atnums"][:1].copy()
                def call(points, atcoords, atnums, **k):
                    return getattr(BeckeWeights(), meth)(points, atcoords, atnums, **k)
                return call, kw

    @entry("becke.BeckeWeights.compute_atom_weight")
    def _(rng, lv):
        kw, ind = becke_args(rng, lv, 3 if lv else 2)
        sel = int(rng.integers(0, 2))
        return (lambda points, atcoords, atnums: BeckeWeights().compute_atom_weight(points, atcoords, atnums, sel)), kw

    @entry("hirshfeld.HirshfeldWeights.__init__")
    def _(rng, lv):
        return (lambda: HirshfeldWeights()), {}

    @entry("hirshfeld.HirshfeldWeights.__call__")
    def _(rng, lv):
        kw, ind = becke_args(rng, lv)
        return (lambda points, atcoords, atnums, indices: HirshfeldWeights()(points, atcoords, atnums, indices)), dict(indices=ind, **kw)

    @entry("hirshfeld.HirshfeldWeights.generate_proatom")
    def _(rng, lv):
        num = int(rng.choice([1, 6, 8]))
        return (lambda points, coord: HirshfeldWeights.generate_proatom(points, coord, num)), dict(
            points=_pts(rng, 8 + 8 * lv, scale=2.0), coord=rng.normal(0, 0.2, 3))

    for form in ("aim-array", "aim-callback", "aim-becke", "aim-hirshfeld", "store"):
        @entry("molgrid.MolGrid.__init__", form)
        def _(rng, lv, form=form):
            atnums, atcoords, atgrids = _mol(rng, lv, 2 + (lv > 1))
            size = sum(g.size for g in atgrids)
            if form in ("aim-array", "store"):
                aim = rng.uniform(0.1, 1.0, size)
            elif form == "aim-callback":
                aim = CB(user_aim)
            elif form == "aim-becke":
                aim = BeckeWeights()
            else:
                aim = HirshfeldWeights()
            store = form == "store"
            def call(atnums, atgrids, aim_weights):
                m = MolGrid(atnums, atgrids, aim_weights, store=store)
                return m.points, m.weights, m.aim_weights, m.atweights, m.indices, m.atcoords
            return call, dict(atnums=atnums, atgrids=atgrids, aim_weights=aim)

    for form in ("default", "rgrid", "aim-callback", "aim-array-lists"):
        @entry("molgrid.MolGrid.from_size", form)
        def _(rng, lv, form=form):
            atnums, atcoords, _g = _mol(rng, 0)
            kw = dict(atnums=atnums, atcoords=atcoords, size=int(rng.choice([6, 14, 26])))
            kw["rgrid"] = _radial(rng, 5 + 3 * lv)
            if form == "default":
                pass
            elif form == "aim-callback":
                kw["aim_weights"] = CB(user_aim)
            elif form == "aim-array-lists":
                probe = MolGrid.from_size(atnums.copy(), atcoords.copy(), kw["size"], copy.deepcopy(kw["rgrid"]))
                kw["aim_weights"] = rng.uniform(0.1, 1, probe.size)
            kw["store"] = bool(rng.integers(0, 2))
            def call(**k):
                m = MolGrid.from_size(**k)
                return m.points, m.weights
            return call, kw

    for form in ("str", "list", "dict", "rgrid-list", "rgrid-dict", "aim-callback"):
        @entry("molgrid.MolGrid.from_preset", form)
        def _(rng, lv, form=form):
            atnums, atcoords, _g = _mol(rng, 0)
            kw = dict(atnums=atnums, atcoords=atcoords, preset="coarse", rgrid=_radial(rng, 6 + 4 * lv))
            if form == "list":
                kw["preset"] = ["coarse", "medium"]
            elif form == "dict":
                kw["preset"] = {1: "coarse", 8: "medium"}
            elif form == "rgrid-list":
                kw["rgrid"] = [_radial(rng, 6), _radial(rng, 7)]
            elif form == "rgrid-dict":
                kw["rgrid"] = {1: _radial(rng, 6), 8: _radial(rng, 7)}
            elif form == "aim-callback":
                kw["aim_weights"] = CB(user_aim)
            kw["store"] = bool(rng.integers(0, 2))
            def call(**k):
                m = MolGrid.from_preset(**k)
                return m.points, m.weights
            return call, kw

    for form in ("scalars", "lists", "s-sectors", "rgrid-list"):
        @entry("molgrid.MolGrid.from_pruned", form)
        def _(rng, lv, form=form):
            atnums, atcoords, _g = _mol(rng, 0)
            kw = dict(atnums=atnums, atcoords=atcoords, rgrid=_oned(rng, 6 + 4 * lv))
            if form == "scalars":
                kw.update(radius=1.0, r_sectors=[[0.5, 1.0], [0.4, 0.9]], d_sectors=[[3, 5, 7], [3, 7, 5]])
            elif form == "lists":
                kw.update(radius=[1.0, 1.2], r_sectors=[[0.5, 1.0], [0.4, 0.9]], d_sectors=[[3, 5, 7], [3, 7, 5]])
            elif form == "s-sectors":
                kw.update(radius=[1.0, 1.2], r_sectors=[[0.5, 1.0], [0.4, 0.9]], d_sectors=None,
                          s_sectors=[[6, 14, 26], [6, 26, 14]])
            else:
                kw.update(radius=[1.0, 0.9], r_sectors=[np.array([0.5, 1.0]), np.array([0.4, 0.9])],
                          d_sectors=[np.array([3, 5, 7]), np.array([3, 7, 5])], rgrid=[_oned(rng, 5), _oned(rng, 6)])
            def call(**k):
                m = MolGrid.from_pruned(**k)
                return m.points, m.weights
            return call, kw

    def mol_kwargs(rng, lv):
        atnums, atcoords, atgrids = _mol(rng, lv)
        size = sum(g.size for g in atgrids)
        return dict(atnums=atnums, atgrids=atgrids, aim_weights=rng.uniform(0.2, 1.0, size)), size

    @entry("basegrid.Grid.integrate", "molgrid")
    def _(rng, lv):
        kw, size = mol_kwargs(rng, lv)
        kw["a"] = rng.normal(size=size)
        kw["b"] = rng.normal(size=size)
        return (lambda atnums, atgrids, aim_weights, a, b: MolGrid(atnums, atgrids, aim_weights).integrate(a, b)), kw

    @entry("molgrid.MolGrid.interpolate")
    def _(rng, lv):
        kw, size = mol_kwargs(rng, lv)
        kw["func_vals"] = rng.normal(size=size)
        kw["pts"] = RO(_pts(rng, 4 + 3 * lv))
        def call(atnums, atgrids, aim_weights, func_vals, pts):
            f = MolGrid(atnums, atgrids, aim_weights, store=True).interpolate(func_vals)
            return [f(pts), f(pts, deriv=1), f(pts, deriv=1, deriv_spherical=True),
                    f(pts, deriv=1, only_radial_derivs=True), f(pts, deriv=2, only_radial_derivs=True)]
        return call, kw

    for store in (True, False):
        @entry("molgrid.MolGrid.get_atomic_grid", f"store-{store}")
        def _(rng, lv, store=store):
            kw, size = mol_kwargs(rng, lv)
            def call(atnums, atgrids, aim_weights):
                m = MolGrid(atnums, atgrids, aim_weights, store=store)
                g = m.get_atomic_grid(1)
                return g.points, g.weights
            return call, kw

        @entry("molgrid.MolGrid.__getitem__", f"store-{store}")
        def _(rng, lv, store=store):
            kw, size = mol_kwargs(rng, lv)
            def call(atnums, atgrids, aim_weights):
                m = MolGrid(atnums, atgrids, aim_weights, store=store)
                g = m[0]
                h = m[np.int64(1)]
                return g.points, h.weights
            return call, kw

    @entry("basegrid.Grid.get_localgrid", "molgrid")
    def _(rng, lv):
        kw, size = mol_kwargs(rng, lv)
        kw["center"] = rng.normal(0, 0.3, 3)
        def call(atnums, atgrids, aim_weights, center):
            lg = MolGrid(atnums, atgrids, aim_weights).get_localgrid(center, 1.0)
            return lg.points
        return call, kw

    @entry("molgrid.MolGrid.save")
    def _(rng, lv):
        kw, size = mol_kwargs(rng, 0)
        def call(atnums, atgrids, aim_weights):
            d = _tmpdir()
            try:
                MolGrid(atnums, atgrids, aim_weights, store=True).save(os.path.join(d, "m.npz"))
            finally:
                shutil.rmtree(d, ignore_errors=True)
        return call, kw



# ---- cubic, periodicgrid, ngrid ----------------------------------------------
def _entries_cubic_periodic_ngrid():
    from grid.basegrid import Grid, OneDGrid
    from grid.cubic import Tensor1DGrids, UniformGrid
    from grid.ngrid import MultiDomainGrid
    from grid.periodicgrid import PeriodicGrid

    for dim in (2, 3):
        @entry("cubic.Tensor1DGrids.__init__", f"{dim}d")
        def _(rng, lv, dim=dim):
            kw = dict(oned_x=_oned(rng, 3 + lv, False), oned_y=_oned(rng, 4 + lv, False))
            if dim == 3:
                kw["oned_z"] = _oned(rng, 3 + lv, False)
            def call(**k):
                g = Tensor1DGrids(**k)
                return g.points, g.weights, g.origin, g.get_points_along_axes()
            return call, kw

    @entry("cubic.Tensor1DGrids.__init__", "equal-sizes")
    def _(rng, lv):
        n = 4 + lv
        kw = dict(oned_x=_oned(rng, n, False), oned_y=_oned(rng, n, False), oned_z=_oned(rng, n, False))
        return (lambda **k: Tensor1DGrids(**k).points), kw

    def ug_kwargs(rng, lv, dim=3, n=None, diag=False):
        n = n or (5 + lv)
        axes = np.diag(rng.uniform(0.2, 0.5, dim))
        if not diag:
            axes = axes + rng.normal(0, 0.02, (dim, dim))
        return dict(origin=rng.normal(0, 0.2, dim), axes=axes, shape=np.array([n, n + 1, n][:dim]))

    for weight in ("Trapezoid", "Rectangle", "Fourier1", "Fourier2", "Alternative"):
        for dim in (2, 3):
            @entry("cubic.UniformGrid.__init__", f"{weight}-{dim}d")
            def _(rng, lv, weight=weight, dim=dim):
                kw = ug_kwargs(rng, lv, dim, n=4 + lv)
                def call(origin, axes, shape):
                    g = UniformGrid(origin, axes, shape, weight=weight)
                    return g.points, g.weights, g.axes, g.origin, g.shape
                return call, kw

    for rot in (True, False):
        @entry("cubic.UniformGrid.from_molecule", f"rotate-{rot}")
        def _(rng, lv, rot=rot):
            atcoords = rng.normal(0, 0.8, (3, 3))
            def call(atcorenums, atcoords):
                g = UniformGrid.from_molecule(atcorenums, atcoords, spacing=1.0 - 0.2 * lv, extension=1.5, rotate=rot)
                return g.points
            return call, dict(atcorenums=np.array([1.0, 8.0, 1.0]), atcoords=atcoords)

    combos = [("cubic", False, (0, 0, 0)), ("linear", False, (0, 0, 0)), ("nearest", False, (0, 0, 0)),
              ("cubic", False, (1, 0, 0)), ("cubic", False, (0, 2, 0)), ("cubic", False, (1, 1, 1)),
              ("cubic", True, (0, 0, 0)), ("cubic", True, (0, 0, 1)), ("cubic", True, (2, 0, 0))]
    for method, use_log, nu in combos:
        @entry("cubic._HyperRectangleGrid.interpolate", f"{method}{'-log' if use_log else ''}-nu{''.join(map(str, nu))}",
               slow=use_log and nu != (0, 0, 0))
        def _(rng, lv, method=method, use_log=use_log, nu=nu):
            kw = ug_kwargs(rng, lv, 3, n=6 + lv, diag=True)
            size = int(np.prod(kw["shape"]))
            kw["values"] = rng.uniform(0.5, 2.0, size)
            inner = kw["origin"] + np.diag(kw["axes"]) * 2.0
            kw["points"] = inner + rng.uniform(0.0, 0.3, (3 + lv, 3))
            def call(origin, axes, shape, points, values):
                g = UniformGrid(origin, axes, shape)
                return g.interpolate(points, values, use_log=use_log, nu_x=nu[0], nu_y=nu[1], nu_z=nu[2], method=method)
            return call, kw

    @entry("cubic._HyperRectangleGrid.interpolate", "tensor1d")
    def _(rng, lv):
        n = 6 + lv
        kw = dict(oned_x=_oned(rng, n, False), oned_y=_oned(rng, n, False), oned_z=_oned(rng, n + 1, False))
        kw["values"] = rng.uniform(0.5, 2.0, n * n * (n + 1))
        kw["points"] = rng.uniform(-0.2, 0.2, (3, 3))
        def call(oned_x, oned_y, oned_z, points, values):
            return Tensor1DGrids(oned_x, oned_y, oned_z).interpolate(points, values)
        return call, kw

    for which in ("closest", "origin"):
        for form in ("array", "list"):
            @entry("cubic.UniformGrid.closest_point", f"{which}-{form}")
            def _(rng, lv, which=which, form=form):
                kw = ug_kwargs(rng, lv, 3, diag=True)
                p = kw["origin"] + rng.uniform(0.2, 1.0, 3)
                kw["point"] = p if form == "array" else [float(x) for x in p]
                return (lambda origin, axes, shape, point: UniformGrid(origin, axes, shape).closest_point(point, which)), kw

    for form in ("array", "list", "tuple", "2d-array"):
        @entry("cubic._HyperRectangleGrid.coordinates_to_index", form)
        def _(rng, lv, form=form):
            kw = ug_kwargs(rng, lv, 3)
            idx = [int(rng.integers(0, 4)) for _ in range(3)]
            kw["indices"] = {"array": np.array(idx), "list": idx, "tuple": tuple(idx),
                             "2d-array": rng.integers(0, 4, (5, 3))}[form]
            return (lambda origin, axes, shape, indices: UniformGrid(origin, axes, shape).coordinates_to_index(indices)), kw

    for dim in (2, 3):
        @entry("cubic._HyperRectangleGrid.index_to_coordinates", f"{dim}d")
        def _(rng, lv, dim=dim):
            kw = ug_kwargs(rng, lv, dim)
            i = int(rng.integers(0, 20))
            return (lambda origin, axes, shape: UniformGrid(origin, axes, shape).index_to_coordinates(i)), kw

    @entry("cubic._HyperRectangleGrid.get_points_along_axes")
    def _(rng, lv):
        kw = ug_kwargs(rng, lv, 3)
        return (lambda origin, axes, shape: UniformGrid(origin, axes, shape).get_points_along_axes()), kw

    @entry("basegrid.Grid.integrate", "uniformgrid")
    def _(rng, lv):
        kw = ug_kwargs(rng, lv, 3, n=4)
        size = int(np.prod(kw["shape"]))
        kw["a"] = rng.normal(size=size)
        kw["b"] = rng.normal(size=size)
        return (lambda origin, axes, shape, a, b: UniformGrid(origin, axes, shape).integrate(a, b)), kw

    for form in ("default", "pseudo"):
        @entry("cubic.UniformGrid.generate_cube", form, covers=["cubic.UniformGrid.from_cube"])
        def _(rng, lv, form=form):
            kw = ug_kwargs(rng, lv, 3, n=3 + lv)
            size = int(np.prod(kw["shape"]))
            kw.update(data=rng.normal(size=size), atcoords=rng.normal(size=(2, 3)), atnums=np.array([1, 8]))
            if form == "pseudo":
                kw["pseudo_numbers"] = np.array([1.0, 6.0])
            def call(origin, axes, shape, **k):
                d = _tmpdir()
                try:
                    f = os.path.join(d, "x.cube")
                    UniformGrid(origin, axes, shape).generate_cube(f, **k)
                    g, data = UniformGrid.from_cube(f, return_data=True)
                    g2 = UniformGrid.from_cube(f, weight="Rectangle")
                    return g.points, data, g2.weights
                finally:
                    shutil.rmtree(d, ignore_errors=True)
            return call, kw

    @entry("cubic.UniformGrid.from_cube")
    def _(rng, lv):
        def call(data):
            d = _tmpdir()
            try:
                f = os.path.join(d, "y.cube")
                g = UniformGrid(np.zeros(3), np.eye(3) * 0.5, np.array([2, 2, 3]))
                g.generate_cube(f, data, np.zeros((1, 3)), np.array([1]))
                return UniformGrid.from_cube(f, return_data=True)
            finally:
                shutil.rmtree(d, ignore_errors=True)
        return call, dict(data=rng.normal(size=12))

    @entry("cubic.UniformGrid.save")
    def _(rng, lv):
        kw = ug_kwargs(rng, 0, 3, n=3)
        def call(origin, axes, shape):
            d = _tmpdir()
            try:
                UniformGrid(origin, axes, shape).save(os.path.join(d, "u.npz"))
            finally:
                shutil.rmtree(d, ignore_errors=True)
        return call, kw

    @entry("cubic.Tensor1DGrids.save")
    def _(rng, lv):
        kw = dict(oned_x=_oned(rng, 3, False), oned_y=_oned(rng, 3, False), oned_z=_oned(rng, 3, False))
        def call(**k):
            d = _tmpdir()
            try:
                Tensor1DGrids(**k).save(os.path.join(d, "t.npz"))
            finally:
                shutil.rmtree(d, ignore_errors=True)
        return call, kw

    # periodic
    def pg_kwargs(rng, lv, dim, nvec=None):
        n = 10 + 15 * lv
        nvec = dim if nvec is None else nvec
        if dim == 1:
            pts = rng.uniform(-1.5, 2.5, n)
            rv = np.array([float(rng.uniform(0.8, 1.5))]) if nvec else None
        else:
            pts = rng.uniform(-1.5, 2.5, (n, dim))
            rv = (np.eye(dim) * rng.uniform(0.8, 1.5, dim) + rng.normal(0, 0.05, (dim, dim)))[:nvec] if nvec else None
        return dict(points=pts, weights=_w(rng, n), realvecs=rv)

    for dim, nvec in ((1, 1), (2, 2), (3, 3), (3, 2), (3, 1), (3, 0)):
        for wrap in (True, False):
            @entry("periodicgrid.PeriodicGrid.__init__", f"{dim}d-{nvec}vec-wrap{wrap}")
            def _(rng, lv, dim=dim, nvec=nvec, wrap=wrap):
                kw = pg_kwargs(rng, lv, dim, nvec)
                def call(points, weights, realvecs):
                    g = PeriodicGrid(points, weights, realvecs, wrap=wrap)
                    return g.points, g.weights, g.realvecs, g.recivecs, g.frac_intvls, g.spacings
                return call, kw

            @entry("periodicgrid.PeriodicGrid.get_localgrid", f"{dim}d-{nvec}vec-wrap{wrap}")
            def _(rng, lv, dim=dim, nvec=nvec, wrap=wrap):
                kw = pg_kwargs(rng, lv, dim, nvec)
                kw["center"] = np.array(float(rng.uniform(-1, 1))) if dim == 1 else rng.uniform(-1, 1, dim)
                radius = float(rng.uniform(0.3, 1.2))
                def call(points, weights, realvecs, center):
                    g = PeriodicGrid(points, weights, realvecs, wrap=wrap)
                    lg = g.get_localgrid(center, radius)
                    lg2 = g.get_localgrid(center, radius * 0.5)
                    return lg.points, lg.weights, lg2.indices
                return call, kw

    for kind in ("int", "slice", "intarray", "mask"):
        @entry("periodicgrid.PeriodicGrid.__getitem__", kind)
        def _(rng, lv, kind=kind):
            kw = pg_kwargs(rng, lv, 3)
            n = len(kw["weights"])
            kw["index"] = {"int": 3, "slice": slice(1, n, 2), "intarray": rng.integers(0, n, 4),
                           "mask": rng.random(n) < 0.5}[kind]
            def call(points, weights, realvecs, index):
                g = PeriodicGrid(points, weights, realvecs, wrap=True)[index]
                return g.points, g.realvecs
            return call, kw

    for wrap in (True, False):
        @entry("periodicgrid.PeriodicGrid.points", f"setter-wrap{wrap}")
        def _(rng, lv, wrap=wrap):
            kw = pg_kwargs(rng, lv, 3)
            kw["new_points"] = rng.uniform(-1.5, 2.5, kw["points"].shape)
            kw["center"] = rng.uniform(-1, 1, 3)
            def call(points, weights, realvecs, new_points, center):
                g = PeriodicGrid(points, weights, realvecs, wrap=wrap)
                g.get_localgrid(center, 0.5)
                g.points = new_points
                return g.frac_intvls, g.get_localgrid(center, 0.7).points
            return call, kw

    @entry("basegrid.Grid.integrate", "periodicgrid")
    def _(rng, lv):
        kw = pg_kwargs(rng, lv, 3)
        kw["a"] = rng.normal(size=len(kw["weights"]))
        return (lambda points, weights, realvecs, a: PeriodicGrid(points, weights, realvecs, wrap=True).integrate(a)), kw

    # ngrid
    def g3(rng, n):
        return Grid(_pts(rng, n), _w(rng, n))

    @entry("ngrid.MultiDomainGrid.__init__")
    def _(rng, lv):
        def call(grid_list):
            m = MultiDomainGrid(grid_list)
            return m.size, m.num_domains, list(m.weights), [tuple(p) for p in m.points]
        return call, dict(grid_list=[g3(rng, 3), g3(rng, 4)])

    @entry("ngrid.MultiDomainGrid.__init__", "num_domains")
    def _(rng, lv):
        def call(grid_list):
            m = MultiDomainGrid(grid_list, num_domains=2)
            return m.size, list(m.weights), [tuple(p) for p in m.points]
        return call, dict(grid_list=[g3(rng, 3)])

    def f1(x):
        return np.exp(-np.sum(x**2, axis=-1))

    def f2(x, y):
        return np.exp(-np.sum(x**2, axis=-1)) * np.exp(-np.sum((x - y) ** 2, axis=-1))

    def f3(x, y, z):
        return f2(x, y) * np.exp(-np.sum(z**2, axis=-1))

    def f2p(x, y):  # point-wise, returns an array (3,) -> exercised as "callback returns arrays"
        return np.exp(-np.sum(x**2)) * np.exp(-np.sum((x - y) ** 2)) * np.ones(1)

    for form in ("1-domain", "2-grids", "num_domains-2", "3-grids", "non-vectorized", "non-vectorized-num_domains",
                 "chunk-1", "chunk-7"):
        @entry("ngrid.MultiDomainGrid.integrate", form)
        def _(rng, lv, form=form):
            n = 3 + 2 * lv
            kw = {}
            nd = None
            nonvec = form.startswith("non-vectorized")
            chunk = 6000
            if form == "1-domain":
                gl, fn = [g3(rng, n + 3)], f1
            elif form in ("2-grids", "non-vectorized", "chunk-1", "chunk-7"):
                gl, fn = [g3(rng, n), g3(rng, n + 1)], f2
                if form == "non-vectorized":
                    fn = f2p
                if form.startswith("chunk"):
                    chunk = int(form.split("-")[1])
                    nonvec = bool(rng.integers(0, 2))
            elif form in ("num_domains-2", "non-vectorized-num_domains"):
                gl, fn, nd = [g3(rng, n)], f2, 2
            else:
                gl, fn = [g3(rng, n), g3(rng, 2), g3(rng, 3)], f3
            def call(grid_list, integrand):
                return MultiDomainGrid(grid_list, num_domains=nd).integrate(
                    integrand, non_vectorized=nonvec, integration_chunk_size=chunk)
            return call, dict(grid_list=gl, integrand=CB(fn))

    @entry("ngrid.MultiDomainGrid.get_localgrid")
    def _(rng, lv):
        return (lambda grid_list, center: MultiDomainGrid(grid_list).get_localgrid(center, 1.0)), dict(
            grid_list=[g3(rng, 3)], center=np.zeros(3))

    @entry("ngrid.MultiDomainGrid.moments")
    def _(rng, lv):
        return (lambda grid_list, centers, func_vals: MultiDomainGrid(grid_list).moments(1, centers, func_vals)), dict(
            grid_list=[g3(rng, 3)], centers=np.zeros((1, 3)), func_vals=np.ones(3))



# ---- ode, poisson, robust_poisson -----------------------------------------------
def _entries_ode_poisson():
    from grid.atomgrid import AtomGrid
    from grid.becke import BeckeWeights
    from grid.molgrid import MolGrid
    from grid.ode import solve_ode_bvp, solve_ode_ivp
    from grid.onedgrid import GaussLegendre
    from grid.poisson import interpolate_laplacian, solve_poisson_bvp, solve_poisson_ivp
    from grid.robust_poisson import solve_poisson_robust
    from grid.rtransform import BeckeRTransform, InverseRTransform, LinearFiniteRTransform

    def fx(x):
        return np.sin(x) + 1.0

    def c0(x):
        return 1.0 + 0.1 * x**2

    def c1(x):
        return 0.5 + 0.0 * x

    def c2(x):
        return 2.0 + 0.1 * np.cos(x)

    def coeffs_of(form, order=2):
        if form == "callable":
            return [CB(c0), CB(c1), CB(c2)][: order + 1] if order == 2 else [CB(c0), CB(c2)]
        if form == "mixed":
            return [CB(c0), 0.5, 2.0] if order == 2 else [CB(c0), 2.0]
        if form == "list":
            return [1.0, 0.5, 2.0] if order == 2 else [1.0, 2.0]
        return np.array([1.0, 0.5, 2.0]) if order == 2 else np.array([1.0, 2.0])

    for cform in ("callable", "mixed", "list", "array"):
        for tf in (False, True):
            for yform in ("list", "array"):
                if cform in ("mixed", "list") and yform == "array" and tf:
                    continue
                @entry("ode.solve_ode_ivp", f"coeffs-{cform}-y0-{yform}{'-transform' if tf else ''}")
                def _(rng, lv, cform=cform, tf=tf, yform=yform):
                    y0 = [float(rng.normal()), float(rng.normal())]
                    kw = dict(x_span=(0.1, 0.8 + 0.4 * lv) if not tf else (-0.9, -0.1), fx=CB(fx),
                              coeffs=coeffs_of(cform), y0=y0 if yform == "list" else np.array(y0),
                              pts=RO(np.linspace(0.15, 0.75, 4) if not tf else np.linspace(-0.85, -0.15, 4)))
                    transform = BeckeRTransform(0.05, 1.2) if tf else None
                    nod = bool(rng.integers(0, 2))
                    def call(x_span, fx, coeffs, y0, pts):
                        sol = solve_ode_ivp(x_span, fx, coeffs, y0, transform, no_derivatives=nod,
                                            method="RK45" if lv else "DOP853", rtol=1e-5, atol=1e-6)
                        return sol(pts)
                    return call, kw

    @entry("ode.solve_ode_ivp", "first-order-x_span-list")
    def _(rng, lv):
        def call(x_span, fx, coeffs, y0, pts):
            return solve_ode_ivp(x_span, fx, coeffs, y0)(pts)
        return call, dict(x_span=[0.0, 1.0], fx=CB(fx), coeffs=coeffs_of("mixed", 1), y0=[0.3],
                          pts=RO(np.linspace(0.1, 0.9, 3)))

    for cform in ("callable", "mixed", "list", "array"):
        for tf in (False, True):
            for guess in (False, True):
                if guess and cform in ("list", "array"):
                    continue
                @entry("ode.solve_ode_bvp", f"coeffs-{cform}{'-transform' if tf else ''}{'-guess' if guess else ''}")
                def _(rng, lv, cform=cform, tf=tf, guess=guess):
                    n = 8 + 6 * lv
                    x = np.linspace(0.0, 1.5, n) if not tf else np.linspace(-0.9, 0.5, n)
                    bd = [[0, 0, float(rng.normal())], [1, 0, float(rng.normal())]]
                    if rng.random() < 0.5:
                        bd = [tuple(b) for b in bd]
                    kw = dict(x=x, fx=CB(fx), coeffs=coeffs_of(cform), bd_cond=bd,
                              pts=RO(x[1:-1:2] + 0.01))
                    if guess:
                        kw["initial_guess_y"] = rng.normal(size=(2, n))
                    transform = BeckeRTransform(0.05, 1.2) if tf else None
                    nod = bool(rng.integers(0, 2))
                    def call(x, fx, coeffs, bd_cond, pts, initial_guess_y=None):
                        sol = solve_ode_bvp(x, fx, coeffs, bd_cond, transform, tol=1e-3, max_nodes=600,
                                            initial_guess_y=initial_guess_y, no_derivatives=nod)
                        return sol(pts)
                    return call, kw

    @entry("ode.solve_ode_bvp", "third-order")
    def _(rng, lv):
        n = 8
        x = np.linspace(0.0, 1.0, n)
        def call(x, fx, coeffs, bd_cond, pts):
            return solve_ode_bvp(x, fx, coeffs, bd_cond, tol=1e-3, max_nodes=600)(pts)
        return call, dict(x=x, fx=CB(fx), coeffs=[CB(c0), 0.3, CB(c1), 1.5],
                          bd_cond=[[0, 0, 0.0], [1, 0, 1.0], [0, 1, 0.5]], pts=RO(np.array([0.2, 0.6])))

    def atom_case(rng, lv):
        n = 12 + 6 * lv
        btf = BeckeRTransform(1e-4, 1.5)
        g = btf.transform_1d_grid(GaussLegendre(n))
        from grid.basegrid import OneDGrid
        rgrid = OneDGrid(np.array(g.points), np.array(g.weights), (0, np.inf))
        center = rng.normal(0, 0.1, 3)
        kw = dict(rgrid=rgrid, degrees=[3 if lv < 2 else 5], center=center)
        probe = AtomGrid(copy.deepcopy(rgrid), degrees=[3 if lv < 2 else 5], center=center.copy())
        r = np.linalg.norm(probe.points - center, axis=1)
        kw["func_vals"] = float(rng.uniform(0.8, 1.2)) * np.exp(-float(rng.uniform(0.8, 1.5)) * r**2)
        kw["pts"] = RO(center + _pts(rng, 4, scale=0.8))
        return kw, btf

    def mol_case(rng, lv):
        btf = BeckeRTransform(1e-4, 1.5)
        from grid.basegrid import OneDGrid
        atcoords = np.array([[0.0, 0.0, -0.7], [0.0, 0.0, 0.7]])
        atgrids = []
        for i in range(2):
            g = btf.transform_1d_grid(GaussLegendre(12 + 4 * lv))
            atgrids.append(AtomGrid(OneDGrid(np.array(g.points), np.array(g.weights), (0, np.inf)), degrees=[3],
                                    center=atcoords[i].copy()))
        atnums = np.array([1, 1])
        probe = MolGrid(atnums.copy(), copy.deepcopy(atgrids), BeckeWeights(), store=True)
        fv = np.exp(-np.sum((probe.points - atcoords[0]) ** 2, axis=1)) + np.exp(-np.sum((probe.points - atcoords[1]) ** 2, axis=1))
        kw = dict(atnums=atnums, atgrids=atgrids, func_vals=fv * float(rng.uniform(0.8, 1.2)),
                  pts=RO(_pts(rng, 4, scale=0.8)))
        return kw, btf

    for target in ("atomgrid", "molgrid"):
        for pform in ("params-dict", "params-empty", "params-none"):
            @entry("poisson.solve_poisson_bvp", f"{target}-{pform}", covers=["ode.solve_ode_bvp"])
            def _(rng, lv, target=target, pform=pform):
                kw, btf = atom_case(rng, lv) if target == "atomgrid" else mol_case(rng, lv)
                kw["ode_params"] = {"params-dict": {"tol": 1e-3, "max_nodes": 5000}, "params-empty": {}, "params-none": None}[pform]
                tf = InverseRTransform(btf)
                incl = target == "atomgrid"
                def call(func_vals, pts, ode_params, **g):
                    grid = (AtomGrid(g["rgrid"], degrees=g["degrees"], center=g["center"]) if target == "atomgrid"
                            else MolGrid(g["atnums"], g["atgrids"], BeckeWeights(), store=True))
                    pot = solve_poisson_bvp(grid, func_vals, tf, include_origin=incl, ode_params=ode_params)
                    return pot(pts)
                return call, kw

            @entry("poisson.solve_poisson_ivp", f"{target}-{pform}", covers=["ode.solve_ode_ivp"],
                   slow=(target == "molgrid" and pform != "params-dict"))
            def _(rng, lv, target=target, pform=pform):
                kw, btf = atom_case(rng, lv) if target == "atomgrid" else mol_case(rng, lv)
                kw["ode_params"] = {"params-dict": {"rtol": 1e-4, "atol": 1e-4}, "params-empty": {}, "params-none": None}[pform]
                kw["r_interval"] = (20.0, 1e-2) if rng.random() < 0.5 else [20.0, 1e-2]
                tf = InverseRTransform(btf)
                def call(func_vals, pts, ode_params, r_interval, **g):
                    grid = (AtomGrid(g["rgrid"], degrees=g["degrees"], center=g["center"]) if target == "atomgrid"
                            else MolGrid(g["atnums"], g["atgrids"], BeckeWeights(), store=True))
                    pot = solve_poisson_ivp(grid, func_vals, tf, r_interval=r_interval, ode_params=ode_params)
                    return pot(pts)
                return call, kw

        @entry("poisson.interpolate_laplacian", target)
        def _(rng, lv, target=target):
            kw, btf = atom_case(rng, lv) if target == "atomgrid" else mol_case(rng, lv)
            def call(func_vals, pts, **g):
                grid = (AtomGrid(g["rgrid"], degrees=g["degrees"], center=g["center"]) if target == "atomgrid"
                        else MolGrid(g["atnums"], g["atgrids"], BeckeWeights(), store=True))
                lap = interpolate_laplacian(grid, func_vals)
                return lap(pts), lap(pts, 1e-3)
            return call, kw

        for split2 in (False, True):
            @entry("robust_poisson.solve_poisson_robust", f"{target}{'-split2' if split2 else ''}",
                   covers=["poisson.solve_poisson_bvp", "coulomb.coulomb_potential"])
            def _(rng, lv, target=target, split2=split2):
                kw, btf = atom_case(rng, lv) if target == "atomgrid" else mol_case(rng, lv)
                if target == "atomgrid":
                    kw["r_atnums"] = np.array([1])
                    kw["r_atcoords"] = kw["center"].reshape(1, 3).copy()
                else:
                    kw["r_atnums"] = np.array([1, 1])
                    kw["r_atcoords"] = np.array([[0.0, 0.0, -0.7], [0.0, 0.0, 0.7]])
                if split2:
                    kw["alphas_basis"] = np.array([0.5, 1.0, 2.0, 4.0]) if rng.random() < 0.7 else [0.5, 1.0, 2.0]
                kw["ode_params"] = {"tol": 1e-3, "max_nodes": 5000}
                kw["func_vals"] = np.abs(kw["func_vals"])
                tf = InverseRTransform(btf)
                def call(func_vals, pts, ode_params, r_atnums, r_atcoords, alphas_basis=None, **g):
                    grid = (AtomGrid(g["rgrid"], degrees=g["degrees"], center=g["center"]) if target == "atomgrid"
                            else MolGrid(g["atnums"], g["atgrids"], BeckeWeights(), store=True))
                    pot = solve_poisson_robust(grid, func_vals, tf, r_atnums, r_atcoords, split2=split2,
                                               alphas_basis=alphas_basis, ode_params=ode_params,
                                               include_origin=(target == "atomgrid"))
                    return pot(pts)
                return call, kw



# ---- coulomb, utils -------------------------------------------------------------
def _entries_coulomb_utils():
    import grid.coulomb as cmod
    import grid.utils as umod
    from grid.basegrid import Grid

    for fname in ("coulomb_gaussian_s", "coulomb_gaussian_p", "coulomb_gaussian_s_unnormalized",
                  "coulomb_gaussian_p_unnormalized"):
        if not hasattr(cmod, fname):
            continue
        for norm in (True, False):
            for form in ("array", "with-zero", "2d"):
                @entry(f"coulomb.{fname}", f"{form}-norm{norm}")
                def _(rng, lv, fname=fname, norm=norm, form=form):
                    n = 6 + 10 * lv
                    r = rng.uniform(0.0, 3.0, n)
                    if form == "with-zero":
                        r[::3] = 0.0
                    if form == "2d":
                        r = r.reshape(2, -1)
                    alpha = float(rng.uniform(0.3, 3.0))
                    fn = getattr(cmod, fname)
                    if "normalized" in inspect.signature(fn).parameters:
                        return (lambda r: fn(r, alpha, normalized=norm)), dict(r=r)
                    return (lambda r: fn(r, alpha)), dict(r=r)

    for form in ("s", "s+p", "lists"):
        for norm in (True, False):
            @entry("coulomb.coulomb_potential", f"{form}-norm{norm}")
            def _(rng, lv, form=form, norm=norm):
                k = 3 + lv
                kw = dict(points=_pts(rng, 6 + 6 * lv, scale=2.0), centers_s=_pts(rng, k), coeffs_s=rng.uniform(0.1, 1, k),
                          alphas_s=rng.uniform(0.3, 3, k))
                if form == "s+p":
                    kw.update(centers_p=_pts(rng, k), coeffs_p=rng.uniform(0.1, 1, k), alphas_p=rng.uniform(0.3, 3, k))
                if form == "lists":
                    kw = {a: v.tolist() for a, v in kw.items()}
                return (lambda **a: cmod.coulomb_potential(normalized=norm, **a)), kw

    @entry("coulomb.load_atomic_gaussian_params")
    def _(rng, lv):
        # the arrays handed out become the caller's: a second load must not touch them, and
        # using them as arguments must leave them intact
        first = cmod.load_atomic_gaussian_params(int(rng.choice([1, 6, 8])))
        def call(first, element, points):
            c, a = cmod.load_atomic_gaussian_params(element)
            c2, a2 = cmod.load_atomic_gaussian_params("H")
            return cmod.coulomb_potential(points, np.zeros((len(c), 3)), c, a)
        return call, dict(first=list(first), element=int(rng.choice([1, 6, 7, 8, 17])), points=_pts(rng, 4))

    def angles(rng, lv):
        n = 5 + 8 * lv
        return dict(theta=rng.uniform(-np.pi, np.pi, n), phi=rng.uniform(0.05, np.pi - 0.05, n))

    for fname in ("generate_real_spherical_harmonics", "generate_real_spherical_harmonics_scipy",
                  "generate_derivative_real_spherical_harmonics"):
        for l_max in (0, 1, 3):
            @entry(f"utils.{fname}", f"lmax{l_max}")
            def _(rng, lv, fname=fname, l_max=l_max):
                fn = getattr(umod, fname)
                return (lambda theta, phi: fn(l_max + lv, theta, phi)), angles(rng, lv)

    @entry("utils.generate_real_spherical_harmonics", "poles")
    def _(rng, lv):
        return (lambda theta, phi: umod.generate_real_spherical_harmonics(2, theta, phi)), dict(
            theta=np.array([0.0, 1.0, -2.0, 0.0]), phi=np.array([0.0, np.pi, 0.0, np.pi / 2]))

    @entry("utils.generate_derivative_real_spherical_harmonics", "poles")
    def _(rng, lv):
        return (lambda theta, phi: umod.generate_derivative_real_spherical_harmonics(2, theta, phi)), dict(
            theta=np.array([0.0, 1.0, -2.0, 0.0]), phi=np.array([0.0, np.pi, 0.0, np.pi / 2]))

    for l_max in (0, 2, 4):
        @entry("utils.solid_harmonics", f"lmax{l_max}")
        def _(rng, lv, l_max=l_max):
            n = 5 + 8 * lv
            sph = np.column_stack([rng.uniform(0, 2, n), rng.uniform(-np.pi, np.pi, n), rng.uniform(0, np.pi, n)])
            return (lambda sph_pts: umod.solid_harmonics(l_max, sph_pts)), dict(sph_pts=sph)

    for form in ("no-center", "center-array", "center-list", "with-origin"):
        @entry("utils.convert_cart_to_sph", form)
        def _(rng, lv, form=form):
            kw = dict(points=_pts(rng, 6 + 8 * lv))
            if form == "center-array":
                kw["center"] = rng.normal(size=3)
            if form == "center-list":
                kw["center"] = [0.1, -0.2, 0.3]
            if form == "with-origin":
                kw["points"][0] = 0.0
                kw["points"][1] = [0.0, 0.0, 1.0]
            return (lambda **a: umod.convert_cart_to_sph(**a)), kw

    for form in ("floats", "0d-arrays", "origin", "pole"):
        @entry("utils.convert_derivative_from_spherical_to_cartesian", form)
        def _(rng, lv, form=form):
            d = rng.normal(size=3)
            r, t, p = float(rng.uniform(0.2, 2)), float(rng.uniform(-3, 3)), float(rng.uniform(0.1, 3))
            if form == "origin":
                r = 0.0
            if form == "pole":
                p = 0.0
            vals = [d[0], d[1], d[2], r, t, p]
            if form != "floats":
                vals = [np.array(float(v)) for v in vals]
            names = ["deriv_r", "deriv_theta", "deriv_phi", "r", "theta", "phi"]
            return (lambda **a: umod.convert_derivative_from_spherical_to_cartesian(**a)), dict(zip(names, vals))

    for cov in ("bragg", "cambridge", "alvarez"):
        for form in ("array", "list", "int"):
            @entry("utils.get_cov_radii", f"{cov}-{form}")
            def _(rng, lv, cov=cov, form=form):
                at = rng.integers(1, 30, size=3 + lv)
                at = {"array": at, "list": [int(a) for a in at], "int": int(at[0])}[form]
                return (lambda atnums: umod.get_cov_radii(atnums, cov)), dict(atnums=at)

    @entry("utils.get_cov_radii", "result-is-callers")
    def _(rng, lv):
        # a radii array handed out earlier is the caller's; later look-ups must not alter it
        first = umod.get_cov_radii(np.array([1, 6, 8]))
        return (lambda first, atnums: umod.get_cov_radii(atnums) + first), dict(first=first, atnums=np.array([1, 6, 8]))

    @entry("utils.dipole_moment_of_molecule")
    def _(rng, lv):
        n = 10 + 10 * lv
        kw = dict(points=_pts(rng, n, scale=2.0), weights=_w(rng, n), density=rng.uniform(0, 1, n),
                  coords=rng.normal(size=(2, 3)), charges=np.array([1, 8]))
        def call(points, weights, density, coords, charges):
            return umod.dipole_moment_of_molecule(Grid(points, weights), density, coords, charges)
        return call, kw

    for type_ord in ("cartesian", "radial", "pure", "pure-radial"):
        for dim in (1, 2, 3):
            @entry("utils.generate_orders_horton_order", f"{type_ord}-{dim}d")
            def _(rng, lv, type_ord=type_ord, dim=dim):
                order = int(rng.integers(1, 4))
                return (lambda: umod.generate_orders_horton_order(order, type_ord, dim)), {}


# ---- rtransform, onedgrid -------------------------------------------------------
def _entries_rtransform_onedgrid():
    import grid.onedgrid as omod
    import grid.rtransform as rt
    from grid.basegrid import OneDGrid

    def mk(cls_name, rng, n):
        """-> (transform, x in the domain (caller array))."""
        if cls_name == "BeckeRTransform":
            return rt.BeckeRTransform(0.01, float(rng.uniform(0.8, 2.0))), "finite"
        if cls_name == "LinearFiniteRTransform":
            return rt.LinearFiniteRTransform(0.1, float(rng.uniform(2.0, 5.0))), "finite"
        if cls_name == "InverseRTransform":
            return rt.InverseRTransform(rt.BeckeRTransform(0.01, 1.3)), "positive"
        if cls_name == "IdentityRTransform":
            return rt.IdentityRTransform(), "positive"
        if cls_name == "LinearInfiniteRTransform":
            return rt.LinearInfiniteRTransform(0.1, 8.0, b=float(n)), "index"
        if cls_name == "ExpRTransform":
            return rt.ExpRTransform(0.1, 8.0, b=float(n)), "index"
        if cls_name == "PowerRTransform":
            return rt.PowerRTransform(0.1, 8.0, b=float(n)), "index"
        if cls_name == "HyperbolicRTransform":
            return rt.HyperbolicRTransform(0.4 / n, 1.0 / (n + 2)), "index"
        if cls_name == "MultiExpRTransform":
            return rt.MultiExpRTransform(0.01, 1.2), "finite"
        if cls_name == "KnowlesRTransform":
            return rt.KnowlesRTransform(0.01, 1.2, int(rng.integers(1, 4))), "finite"
        if cls_name == "HandyRTransform":
            return rt.HandyRTransform(0.01, 1.2, int(rng.integers(1, 4))), "finite"
        if cls_name == "HandyModRTransform":
            return rt.HandyModRTransform(0.01, 10.0, int(rng.integers(1, 4))), "finite"
        raise KeyError(cls_name)

    def xs(kind, rng, n):
        if kind == "finite":
            return np.sort(rng.uniform(-0.95, 0.95, n))
        if kind == "positive":
            return np.sort(rng.uniform(0.05, 4.0, n))
        return np.arange(n, dtype=float) + rng.uniform(0.0, 0.5, n)

    classes = [n for n, o in vars(rt).items()
               if inspect.isclass(o) and issubclass(o, rt.BaseTransform) and o is not rt.BaseTransform
               and o.__module__ == rt.__name__]
    fwd = ["transform", "deriv", "deriv2", "deriv3"]
    inv = ["inverse", "deriv_inverse", "deriv2_inverse", "deriv3_inverse"]
    for cname in classes:
        klass = getattr(rt, cname)
        try:
            mk(cname, np.random.default_rng(0), 5)
        except KeyError:
            continue  # a transform class this registry does not know: reported as not covered

        @entry(f"rtransform.{cname}.__init__")
        def _(rng, lv, cname=cname):
            return (lambda: mk(cname, rng, 6)[0]), {}

        for meth in fwd + inv:
            owner = next(k for k in klass.__mro__ if meth in vars(k))
            qual = f"rtransform.{owner.__name__}.{meth}"
            for form in ("array", "view", "2d"):
                @entry(qual, f"{cname}-{form}" if owner is not klass else form)
                def _(rng, lv, cname=cname, meth=meth, form=form):
                    n = 6 + 10 * lv
                    tf, kind = mk(cname, rng, n)
                    x = xs(kind, rng, n)
                    if meth in inv:
                        with np.errstate(all="ignore"):
                            x = np.array(tf.transform(x.copy()))
                    if form == "view":
                        buf = np.repeat(x, 2)
                        x = buf[::2]
                    elif form == "2d":
                        x = x.reshape(2, -1)
                    return (lambda x: getattr(tf, meth)(x)), dict(x=x)

        @entry("rtransform.BaseTransform.transform_1d_grid", cname)
        def _(rng, lv, cname=cname):
            n = 6 + 10 * lv
            tf, kind = mk(cname, rng, n)
            pts = xs(kind, rng, n)
            dom = {"finite": (-1.0, 1.0), "positive": (0.02, np.inf), "index": (0.0, float(n))}[kind]
            def call(oned_grid):
                g = tf.transform_1d_grid(oned_grid)
                return g.points, g.weights, g.domain
            return call, dict(oned_grid=OneDGrid(pts, _w(rng, n), dom))

        if "set_maximum_parameter_b" in vars(klass):
            @entry(f"rtransform.{cname}.set_maximum_parameter_b")
            def _(rng, lv, cname=cname):
                n = 6 + 10 * lv
                klass = getattr(rt, cname)
                def call(x):
                    tf = klass(0.1, 8.0)
                    tf.set_maximum_parameter_b(x)
                    return tf.transform(x), tf.b
                return call, dict(x=np.arange(n, dtype=float))

            @entry("rtransform.BaseTransform.transform_1d_grid", f"{cname}-b-from-grid")
            def _(rng, lv, cname=cname):
                n = 6 + 10 * lv
                klass = getattr(rt, cname)
                def call(oned_grid):
                    g = klass(0.1, 8.0).transform_1d_grid(oned_grid)
                    return g.points
                return call, dict(oned_grid=OneDGrid(np.arange(n, dtype=float), np.ones(n), (0.0, float(n - 1))))

    for form in ("array", "even", "list"):
        @entry("rtransform.BeckeRTransform.find_parameter", form)
        def _(rng, lv, form=form):
            n = 7 if form != "even" else 8
            a = np.sort(rng.uniform(-0.9, 0.9, n))
            if form == "list":
                return (lambda array: rt.BeckeRTransform.find_parameter(np.asarray(array), 0.01, 1.5)), dict(array=a.tolist())
            return (lambda array: rt.BeckeRTransform.find_parameter(array, 0.01, 1.5)), dict(array=a)

    @entry("rtransform.InverseRTransform.__init__", "roundtrip")
    def _(rng, lv):
        n = 6 + 10 * lv
        def call(x):
            tf = rt.BeckeRTransform(0.01, 1.3)
            itf = rt.InverseRTransform(tf)
            r = tf.transform(x)
            return itf.transform(r), itf.inverse(x), itf.deriv(r), itf.deriv2(r), itf.deriv3(r)
        return call, dict(x=np.sort(rng.uniform(-0.9, 0.9, n)))

    # onedgrid: every constructor takes integers / floats / a class only (no caller-owned mutable
    # argument): exercised once, counted as trivial
    for cname, klass in vars(omod).items():
        if not (inspect.isclass(klass) and issubclass(klass, OneDGrid) and klass.__module__ == omod.__name__):
            continue
        params = list(inspect.signature(klass.__init__).parameters)[1:]

        @entry(f"onedgrid.{cname}.__init__")
        def _(rng, lv, klass=klass, params=params):
            n = 5 + 2 * int(rng.integers(0, 3)) + 10 * lv
            kw = {}
            if "quadrature" in params:
                kw["quadrature"] = omod.GaussChebyshev
            def call():
                g = klass(n, **kw)
                return g.points, g.weights
            return call, {}

"""C04, round 5 (AGENT_ROUND5.md): a closed-form reference and the generators for the classes 21-26.

Driven from `c04.py` (`corr_r5` / `oracle_r5` / `oracle_at_r5`, each block an independent `c04.part`).  References are source text
(`R5_SRC`; replay snippets need PROP_SRC in front, nothing else).

closed form   `c04_r5_closed`: the property on every call of a script (a sequence of calls on shared transform objects) against the maps
              *as documented* — r(x) of each class and of its inverse written down here from the class documentation, in 40-digit arithmetic,
              the Jacobian by numerical differentiation of that closed form.  Nothing of the library is evaluated for the reference (the
              round-2 reference runs the library's own `transform` on 40-digit numbers: a rewritten `transform` that cannot take such numbers
              silently switched that reference off).  b left open = maximum of the first array the object transformed.
class 24      parameters are independent of the data: explicit b with nodes at b/2, b (1 -+ 1e-9), b, 1.01 b, 2 b, 100 b; nodes at and next to
              the ends of [-1, 1] and of the codomain for the inverses, next to the pole 1/b of Hyperbolic; one transform object (b left open,
              explicit b, finite-domain, wrapped) on two different grids in sequence, small first and large first.
class 21      grids of 1025 / 4097 / 20001 / 65537 (thorough: 524289) nodes: additivity over a split, closed form at sampled nodes.
class 22      reversed / shuffled grids: the answer is the permuted answer, bit for bit.  (Descending grids produced by decreasing maps and fed
              to the next transform: the chains of round 3.)
class 23      points / weights given as longdouble / float16 (float32 / integer kinds: round 3), twice with the same grid object.
class 25      the arrays of one grid object (points, weights, an ndarray domain) rewritten in place between two calls, every class.
class 26      two instances of one class that differ in one hidden dependency (b inferred from different first grids; trim_inf), interleaved;
              each answer against the one computed before the other instance existed.
"""
import importlib
import math

import numpy as np

from ..common import Ctx

INF = float("inf")


def M():
    return importlib.import_module(__package__ + ".c04")


R5_SRC = r'''
def c04_cf(mpmath, spec, b=None):
    """r(x) of the transform described by `spec`, from the documentation of the class (of its inverse for InverseRTransform): mpf -> mpf.
    Infinite ends are limits; trim_inf=True replaces an infinite image of the forward map by +-1e16."""
    mpf, log, exp, inf = mpmath.mpf, mpmath.log, mpmath.exp, mpmath.inf
    cls, inv = spec["cls"], bool(spec.get("inv"))
    p = [mpf(float(v)) for v in spec["ps"]]
    if cls in C04_B_CLS:
        bb = mpf(float(b if b is not None else spec["ps"][2]))
    nan = mpf("nan")

    def fwd(x):
        if cls == "IdentityRTransform":
            return x
        if cls == "LinearFiniteRTransform":
            return (p[1] - p[0]) / 2 * (1 + x) + p[0]
        if cls == "BeckeRTransform":
            return inf if x == 1 else p[1] * (1 + x) / (1 - x) + p[0]
        if cls == "MultiExpRTransform":
            return inf if x == -1 else (nan if x < -1 else p[0] - p[1] * log((1 + x) / 2))
        if cls == "KnowlesRTransform":
            if x < -1:
                return nan
            a = 1 - ((1 + x) / 2) ** p[2]
            return inf if a == 0 else (nan if a < 0 else p[0] - p[1] * log(a))
        if cls == "HandyRTransform":
            return inf if x == 1 else (nan if (x < -1 or x > 1) else p[1] * ((1 + x) / (1 - x)) ** p[2] + p[0])
        if cls == "HandyModRTransform":
            if x < -1:
                return nan
            d, tm = p[1] - p[0], mpf(2) ** p[2]
            den = tm * (1 - tm + d) - (1 + x) ** p[2] * (d - tm)
            return inf if den == 0 else (1 + x) ** p[2] * d / den + p[0]
        if cls == "LinearInfiniteRTransform":
            return inf if x == inf else (p[1] - p[0]) / bb * x + p[0]
        if cls == "ExpRTransform":
            return inf if x == inf else p[0] * exp(x * log(p[1] / p[0]) / bb)
        if cls == "PowerRTransform":
            return inf if x == inf else (nan if x < -1 else p[0] * (x + 1) ** ((log(p[1]) - log(p[0])) / log(bb + 1)))
        if cls == "HyperbolicRTransform":
            return nan if (x == inf or 1 - p[1] * x == 0) else p[0] * x / (1 - p[1] * x)
        raise KeyError(cls)

    def bwd(r):
        if cls == "IdentityRTransform":
            return r
        if cls == "LinearFiniteRTransform":
            return 2 * (r - p[0]) / (p[1] - p[0]) - 1
        if cls == "BeckeRTransform":
            return mpf(1) if r == inf else (r - p[0] - p[1]) / (r - p[0] + p[1])
        if cls == "MultiExpRTransform":
            return mpf(-1) if r == inf else 2 * exp(-(r - p[0]) / p[1]) - 1
        if cls == "KnowlesRTransform":
            if r == inf:
                return mpf(1)
            a = 1 - exp(-(r - p[0]) / p[1])
            return nan if a < 0 else 2 * a ** (1 / p[2]) - 1
        if cls == "HandyRTransform":
            if r == inf:
                return mpf(1)
            if r < p[0]:
                return nan
            y = ((r - p[0]) / p[1]) ** (1 / p[2])
            return (y - 1) / (y + 1)
        if cls == "HandyModRTransform":
            d, tm = p[1] - p[0], mpf(2) ** p[2]
            q = (r - p[0]) * (d - tm + 1) / ((r - p[0]) * (d - tm) + d)
            return nan if q < 0 else 2 * q ** (1 / p[2]) - 1
        if cls == "LinearInfiniteRTransform":
            return (r - p[0]) * bb / (p[1] - p[0])
        if cls == "ExpRTransform":
            return nan if r <= 0 else bb * log(r / p[0]) / log(p[1] / p[0])
        if cls == "PowerRTransform":
            return nan if r <= 0 else (r / p[0]) ** (log(bb + 1) / (log(p[1]) - log(p[0]))) - 1
        if cls == "HyperbolicRTransform":
            return 1 / p[1] if r == inf else r / (p[0] + p[1] * r)
        raise KeyError(cls)
    trim = cls in C04_HAS_TRIM and bool(spec.get("trim")) and not inv

    def r(x):
        x = mpf(x)
        try:
            v = bwd(x) if inv else fwd(x)
        except ZeroDivisionError:
            return nan
        if isinstance(v, mpmath.mpc):
            return nan
        if trim and mpmath.isinf(v):
            return mpf(10) ** 16 * (1 if v > 0 else -1)
        return v
    return r


def c04_r5_closed(script, rt, OneDGrid, mpmath, slack=1e-7, max_nodes=24):
    """Every call of `script` = {"tfs": [spec], "grids": [spec], "calls": [[tf, grid], ...]} made in order on shared objects, judged against the
    documented closed forms: new points r(x_i) in the order of the input, new weights |r'(x_i)| w_i, new domain = ordered image of the old ends
    containing every node; b left open = maximum of the first array the object transformed.  -> list of (kind, index of the call, message)"""
    import numpy as np
    dps = mpmath.mp.dps
    mpmath.mp.dps = 40
    try:
        with np.errstate(all="ignore"):
            return _c04_r5_closed(script, rt, OneDGrid, mpmath, slack, max_nodes)
    finally:
        mpmath.mp.dps = dps


def _c04_r5_closed(script, rt, OneDGrid, mpmath, slack, max_nodes):
    import numpy as np
    mpf = mpmath.mpf
    tfs = [c04_build_tf(rt, s) for s in script["tfs"]]
    grids = [c04_build_grid(OneDGrid, s) for s in script["grids"]]
    bref = [None] * len(tfs)
    out = []
    u = 2.3e-16

    def diff(f, x, order=1):
        for kw in ({}, {"direction": 1}, {"direction": -1}):
            try:
                d = mpmath.diff(f, mpf(x), order, **kw)
            except Exception:
                continue
            if isinstance(d, mpf) and mpmath.isfinite(d):
                if kw:
                    try:
                        da, db = mpmath.diff(f, mpf(x), order, h=mpf(10) ** -10, **kw), mpmath.diff(f, mpf(x), order, h=mpf(10) ** -14, **kw)
                    except Exception:
                        return None
                    if not (isinstance(da, mpf) and isinstance(db, mpf) and mpmath.isfinite(da) and mpmath.isfinite(db) and abs(da - db) <= 1e-3 * abs(db) + mpf(10) ** -25):
                        return None
                return d
        return None
    for ci, call in enumerate(script["calls"]):
        if call[0] == "edit":
            g = grids[call[1]]
            g.points[...] = np.array(call[2], dtype=g.points.dtype)
            if g.weights is not g.points:
                g.weights[...] = np.array(call[3], dtype=g.weights.dtype)
            continue
        ti, gi = call
        spec, T, g = script["tfs"][ti], tfs[ti], grids[gi]
        cls, inv = spec["cls"], bool(spec.get("inv"))
        name = "%s%s(%s)%s" % ("InverseRTransform of " if inv else "", cls, ", ".join([repr(v) for v in spec["ps"]] + (["b=None"] if spec.get("b_none") else [])
                                + (["trim_inf=%s" % bool(spec.get("trim"))] if cls in C04_HAS_TRIM else [])), "" if ti == 0 and len(tfs) == 1 else " [object %d]" % ti)
        xs, ws = [float(v) for v in g.points], [float(v) for v in g.weights]
        where = "call %d, %s.transform_1d_grid(OneDGrid(%r, %r, %r))" % (ci, name, xs[:8] + (["..."] if len(xs) > 8 else []), ws[:4] + (["..."] if len(ws) > 4 else []), g.domain)
        try:
            h, tag = T.transform_1d_grid(g), "ok"
        except Exception as e:
            h, tag = None, type(e).__name__
        if g.domain is None:
            continue
        glo, ghi = float(g.domain[0]), float(g.domain[1])
        # the declared domain of the class, from its documentation
        if inv:
            tdom = {"IdentityRTransform": (0.0, float("inf")), "HyperbolicRTransform": (0.0, float("inf")), "LinearFiniteRTransform": tuple(spec["ps"][:2]),
                    "HandyModRTransform": tuple(spec["ps"][:2])}.get(cls)
            if tdom is None:
                tdom = tuple(spec["ps"][:2]) if cls in C04_B_CLS else (spec["ps"][0], float("inf"))
        else:
            tdom = (-1.0, 1.0) if cls in C04_HAS_TRIM + ("LinearFiniteRTransform",) else (0.0, float("inf"))
        if glo < tdom[0] or ghi > tdom[1]:
            if tag == "ok":
                out.append(("guard", ci, where + ": the grid's domain sticks out of the documented domain %r of the transform but a grid was returned" % (tdom,)))
            continue
        n = len(xs)
        b = None
        if cls in C04_B_CLS:
            if spec.get("b_none"):
                if bref[ti] is None:
                    if n == 0 or abs(max(xs)) < 1e-16 or max(xs) != max(xs):
                        continue
                    bref[ti] = max(xs)
                b = bref[ti]
            else:
                b = spec["ps"][2]
        rmap = c04_cf(mpmath, spec, b)
        pscale = max([1.0] + [abs(float(v)) for v in spec["ps"] if abs(float(v)) < 1e300])
        imgs = [rmap(x) if x == x else mpf("nan") for x in xs]
        if tag != "ok":
            legit = None
            if cls == "HyperbolicRTransform" and (spec["ps"][1] * (n - 1) >= 1.0 or spec["ps"][1] >= 1.0):
                legit = "size guard"
            elif cls == "HyperbolicRTransform" and not inv and any(x * spec["ps"][1] >= 1.0 for x in xs):
                legit = "node beyond the pole"
            elif any(x < glo - slack or x > ghi + slack or x != x for x in xs):
                legit = "node outside the grid's domain"
            elif any(mpmath.isnan(v) for v in imgs):
                legit = "node outside the natural domain of the map"
            elif cls in C04_HAS_TRIM and spec.get("trim") and not inv and any(mpmath.isfinite(v) and abs(v) > 1e16 for v in imgs):
                legit = "finite image beyond 1e16 (listed information)"
            elif tag == "ZeroDivisionError" and inv:
                legit = "wrapped derivative vanishes"
            elif any(x < glo or x > ghi for x in xs):
                ends = sorted([rmap(glo), rmap(ghi)])
                if any(mpmath.isfinite(v) and (v < ends[0] - slack * 0.99 or v > ends[1] + slack * 0.99) for v in imgs):
                    legit = "image outside the image interval by about the slack"
            if legit is None:
                out.append(("rejected", ci, where + ": raised %s although the grid's domain lies in the documented domain %r of the transform and every node lies in the grid's domain" % (tag, tdom)))
            continue
        if h.size != n or len(h.weights) != n:
            out.append(("size", ci, where + ": %d nodes in, %d points / %d weights out" % (n, h.size, len(h.weights))))
            continue
        idx = list(range(n)) if n <= max_nodes else sorted(set([0, 1, n - 2, n - 1] + [int(round(k * (n - 1) / (max_nodes - 5))) for k in range(max_nodes - 4)]))
        seen = set()
        for i in idx:
            x, w, r = xs[i], ws[i], imgs[i]
            gp, gw = float(h.points[i]), float(h.weights[i])
            if mpmath.isnan(r):
                continue
            if mpmath.isinf(r) or abs(r) >= 1e15:
                if not (abs(gp) > 1e12 and (gp > 0) == (r > 0)) and "points" not in seen:
                    seen.add("points")
                    out.append(("points", ci, where + ": new point %d is %r, the documented map gives r(%r) = %s" % (i, gp, x, mpmath.nstr(r, 8))))
                continue
            d1 = diff(rmap, x)
            cond = abs(d1) * 16 * u * (1 + abs(x)) if d1 is not None else 0
            if not (gp == gp and abs(mpf(gp) - r) <= 1e-9 * max(1, abs(r), pscale) + cond) and "points" not in seen:
                seen.add("points")
                out.append(("points", ci, where + ": new point %d is %r, the documented map gives r(%r) = %s%s"
                            % (i, gp, x, mpmath.nstr(r, 17), " (b = %r, the maximum of the first array this object transformed)" % b if spec.get("b_none") else "")))
            if d1 is None or abs(d1) >= 1e15:
                continue
            want = abs(d1) * mpf(w)
            d2 = diff(rmap, x, 2)
            tol = 1e-7 * abs(want) + mpf(10) ** -22 * pscale * abs(w) + mpf(10) ** -300 + (abs(d2) * 64 * u * (1 + abs(x)) * abs(w) if d2 is not None else 0)
            if not (gw == gw and abs(mpf(gw) - want) <= tol):
                kind = "sign" if d1 < 0 and gw == gw and abs(mpf(gw) + want) <= tol else "weights"
                if kind not in seen:
                    seen.add(kind)
                    out.append((kind, ci, where + ": new weight %d is %r, |r'(x)| w with the documented map = |%s| * %r = %s%s"
                                % (i, gw, mpmath.nstr(d1, 12), w, mpmath.nstr(want, 17), " (the weight carries the sign of the decreasing map)" if kind == "sign" else "")))
        lo_, hi_ = float(h.domain[0]), float(h.domain[1])
        if lo_ != lo_ or hi_ != hi_:
            out.append(("domain-nan", ci, where + ": new domain (%r, %r) holds a nan" % (lo_, hi_)))
            continue
        if not lo_ <= hi_:
            out.append(("domain", ci, where + ": new domain (%r, %r) is not ordered" % (lo_, hi_)))
        ilo, ihi = rmap(glo), rmap(ghi)
        if not (mpmath.isnan(ilo) or mpmath.isnan(ihi)):
            e = sorted([ilo, ihi])

            def same(a, v):
                if mpmath.isinf(v) or abs(v) >= 1e15:
                    return abs(a) > 1e12 and (a > 0) == (v > 0)
                dv = diff(rmap, glo if v == ilo else ghi)
                return abs(mpf(a) - v) <= 1e-9 * max(1, abs(v), pscale) + (abs(dv) * 64 * u * (1 + abs(glo if v == ilo else ghi)) if dv is not None else 0)
            if not (same(lo_, e[0]) and same(hi_, e[1])):
                out.append(("domain", ci, where + ": new domain (%r, %r), ordered image of the old ends under the documented map (%s, %s)" % (lo_, hi_, mpmath.nstr(e[0], 17), mpmath.nstr(e[1], 17))))
        for i in range(n):
            gp = float(h.points[i])
            if gp == gp and abs(gp) < 1e300 and not (lo_ - slack - 1e-15 * abs(lo_) <= gp <= hi_ + slack + 1e-15 * abs(hi_)):
                out.append(("containment", ci, where + ": new node %d = %r lies outside the new domain (%r, %r)" % (i, gp, lo_, hi_)))
                break
    return out


def c04_r5_split(script, cut, rt, OneDGrid):
    """A large grid: the answer for the whole grid is the concatenation of the answers for its two parts (element-wise map; parameters explicit)."""
    import numpy as np
    spec, gs = script["tfs"][0], script["grids"][0]
    pts, wts, dom = np.array(gs["points"], dtype=float), np.array(gs["weights"], dtype=float), tuple(gs["domain"])
    with np.errstate(all="ignore"):
        whole = c04_build_tf(rt, spec).transform_1d_grid(OneDGrid(pts, wts, dom))
        a = c04_build_tf(rt, spec).transform_1d_grid(OneDGrid(pts[:cut].copy(), wts[:cut].copy(), dom))
        b = c04_build_tf(rt, spec).transform_1d_grid(OneDGrid(pts[cut:].copy(), wts[cut:].copy(), dom))
    bad = []
    for nm, w_, parts in (("points", whole.points, (a.points, b.points)), ("weights", whole.weights, (a.weights, b.weights))):
        cat = np.concatenate(parts)
        if w_.shape != cat.shape or not np.array_equal(w_, cat, equal_nan=True):
            i = int(np.argmax(~((w_ == cat) | (np.isnan(w_) & np.isnan(cat))))) if w_.shape == cat.shape else -1
            bad.append(("split", "%s%r on %d nodes: new %s of the whole grid differ from those of the parts [0:%d] + [%d:] at index %d (%r vs %r; node %r)"
                        % (spec["cls"], tuple(spec["ps"]), len(pts), nm, cut, cut, i, float(w_[i]) if i >= 0 else w_.shape, float(cat[i]) if i >= 0 else cat.shape, float(pts[i]) if i >= 0 else None)))
            break
    if not np.array_equal(np.array(whole.domain, dtype=float), np.array(a.domain, dtype=float), equal_nan=True):
        bad.append(("split", "%s: new domain of the whole grid %r, of its first part %r" % (spec["cls"], tuple(whole.domain), tuple(a.domain))))
    return bad


def c04_r5_perm(script, perm, rt, OneDGrid):
    """The grid with its nodes in another order: the answer is the answer in that order (each node is mapped on its own)."""
    import numpy as np
    spec, gs = script["tfs"][0], script["grids"][0]
    pts, wts, dom = np.array(gs["points"], dtype=float), np.array(gs["weights"], dtype=float), tuple(gs["domain"])
    perm = np.array(perm)
    if spec.get("b_none"):
        return []
    with np.errstate(all="ignore"):
        ref = c04_build_tf(rt, spec).transform_1d_grid(OneDGrid(pts, wts, dom))
        h = c04_build_tf(rt, spec).transform_1d_grid(OneDGrid(pts[perm].copy(), wts[perm].copy(), dom))
    if not (np.array_equal(h.points, ref.points[perm], equal_nan=True) and np.array_equal(h.weights, ref.weights[perm], equal_nan=True)
            and np.array_equal(np.array(h.domain, dtype=float), np.array(ref.domain, dtype=float), equal_nan=True)):
        return [("order", "%s%s%r: nodes %r in the order %r give points %r weights %r domain %r; the answer for the original order, permuted: %r %r %r"
                 % ("InverseRTransform of " if spec.get("inv") else "", spec["cls"], tuple(spec["ps"]), pts[:6].tolist(), perm[:6].tolist(), h.points[:4].tolist(), h.weights[:4].tolist(),
                    tuple(h.domain), ref.points[perm][:4].tolist(), ref.weights[perm][:4].tolist(), tuple(ref.domain)))]
    return []


def c04_r5_precision(script, dtype, rt, OneDGrid):
    """Points and weights given as longdouble / float16 arrays: the answer is the float64 answer for the same numbers to the precision of the
    narrower kind, twice with the same grid object; the caller's arrays keep their kind and contents."""
    import numpy as np
    spec, gs = script["tfs"][0], script["grids"][0]
    dom = tuple(gs["domain"])
    lo, hi = float(dom[0]), float(dom[1])
    p0 = np.array(gs["points"], dtype=dtype)
    p0 = np.clip(p0, dtype(lo) if lo > -1e300 else None, dtype(hi) if hi < 1e300 else None) if np.dtype(dtype).itemsize < 8 else p0
    w0 = np.array(gs["weights"], dtype=dtype)
    if np.any(p0.astype(float) < lo) or np.any(p0.astype(float) > hi):
        return []
    rtol = {2: 4e-2, 4: 2e-5}.get(np.dtype(dtype).itemsize, 1e-12)
    name = "%s%s%r" % ("InverseRTransform of " if spec.get("inv") else "", spec["cls"], tuple(spec["ps"]))
    with np.errstate(all="ignore"):
        try:
            ref = c04_build_tf(rt, spec).transform_1d_grid(OneDGrid(p0.astype(float), w0.astype(float), dom))
        except (ValueError, ZeroDivisionError):
            return []
        p, w = p0.copy(), w0.copy()
        g = OneDGrid(p, w, dom)
        T = c04_build_tf(rt, spec)
        res = []
        for k in range(2):
            try:
                res.append(T.transform_1d_grid(g))
            except Exception as e:
                if np.dtype(dtype).itemsize == 2 and isinstance(e, ValueError):
                    return []        # half precision: the nodes are evaluated in float16, the domain in float64; a node 6e-4 off the end is refused
                return [("precision", "%s on a grid of %s points %r: call %d raised %s: %s; the float64 grid of the same numbers is accepted" % (name, np.dtype(dtype).name, p0[:4].tolist(), k, type(e).__name__, e))]
    bad = []
    if not (p.dtype == p0.dtype and w.dtype == w0.dtype and np.array_equal(p, p0) and np.array_equal(w, w0)):
        bad.append(("precision", "%s: the caller's %s arrays changed" % (name, np.dtype(dtype).name)))
    fin = np.isfinite(ref.weights)
    wscale = float(np.max(np.abs(ref.weights[fin]))) if np.any(fin) else 0.0
    pscale = max([1.0] + [abs(float(v)) for v in spec["ps"]])
    for k, h in enumerate(res):
        hp_, hw_ = np.asarray(h.points, dtype=float), np.asarray(h.weights, dtype=float)
        okp = np.isclose(hp_, ref.points, rtol=rtol, atol=rtol * pscale, equal_nan=True) | (np.abs(ref.points) > 1e12) & (np.abs(hp_) > 1e12) | (np.abs(ref.points) > 1e4 / rtol * 1e-4)
        okw = np.isclose(hw_, ref.weights, rtol=rtol * 8, atol=rtol * 8 * wscale, equal_nan=True) | (np.abs(ref.weights) > 1e12) & (np.abs(hw_) > 1e12)
        if np.dtype(dtype).itemsize == 2:
            # half precision: intermediates overflow at 65504 and underflow at 6e-8 — judged only where the half result is finite, non-zero and the
            # float64 value of moderate size
            okp |= ~np.isfinite(hp_) | (hp_ == 0) | ~((np.abs(ref.points) > 1e-2) & (np.abs(ref.points) < 1e2))
            okw |= ~np.isfinite(hw_) | (hw_ == 0) | ~((np.abs(ref.weights) > 1e-2) & (np.abs(ref.weights) < 1e2))
        if not (np.all(okp) and np.all(okw)):
            i = int(np.argmin(okp & okw))
            bad.append(("precision", "%s on %s points %r weights %r: call %d gives point %d = %r weight %r; the float64 computation on the same numbers %r, %r"
                        % (name, np.dtype(dtype).name, p0[:4].tolist(), w0[:4].tolist(), k, i, float(hp_[i]), float(hw_[i]), float(ref.points[i]), float(ref.weights[i]))))
            break
    if len(res) == 2 and not (np.array_equal(res[0].points, res[1].points, equal_nan=True) and np.array_equal(res[0].weights, res[1].weights, equal_nan=True)):
        bad.append(("precision", "%s on a %s grid: the second call with the same grid object differs from the first" % (name, np.dtype(dtype).name)))
    return bad


def c04_r5_inplace(script, rt, OneDGrid):
    """One grid object whose arrays (points, weights, a domain kept as ndarray) the caller rewrites in place between calls on one transform object:
    every answer equals the answer of a fresh transform on a fresh grid of the current contents."""
    import numpy as np
    spec, gs = script["tfs"][0], script["grids"][0]
    alt = script["grids"][1]
    name = "%s%s%r" % ("InverseRTransform of " if spec.get("inv") else "", spec["cls"], tuple(spec["ps"]))
    n = len(gs["points"])
    bad = []
    with np.errstate(all="ignore"):
        p, w = np.array(gs["points"], dtype=float), np.array(gs["weights"], dtype=float)
        d = np.array(gs["domain"], dtype=float)
        g = OneDGrid(p, w, d)
        T = c04_build_tf(rt, spec)

        def fresh():
            try:
                h = c04_build_tf(rt, spec).transform_1d_grid(OneDGrid(p.copy(), w.copy(), tuple(float(v) for v in d)))
                return ("ok", h.points.copy(), h.weights.copy(), np.array(h.domain, dtype=float))
            except (ValueError, ZeroDivisionError) as e:
                return (type(e).__name__,)

        def cur():
            try:
                h = T.transform_1d_grid(g)
                return ("ok", h.points.copy(), h.weights.copy(), np.array(h.domain, dtype=float))
            except (ValueError, ZeroDivisionError) as e:
                return (type(e).__name__,)

        def eq(a, b):
            return a[0] == b[0] and all(np.array_equal(x, y, equal_nan=True) for x, y in zip(a[1:], b[1:]))
        steps = [("as built", lambda: None), ("points[:] = other nodes", lambda: p.__setitem__(slice(None), alt["points"][:n])), ("weights *= 3", lambda: w.__imul__(3.0)),
                 ("points reversed in place", lambda: p.__setitem__(slice(None), p[::-1].copy())), ("weights[...] = other weights", lambda: w.__setitem__(Ellipsis, alt["weights"][:n])),
                 ("domain[...] = narrower interval", lambda: d.__setitem__(Ellipsis, alt["domain"]))]
        for label, act in steps:
            act()
            a, b = cur(), fresh()
            if not eq(a, b):
                bad.append(("in-place", "%s: after [%s] (points %r, weights %r, domain %r) the call on the same objects gives %s, fresh objects with these contents give %s"
                            % (name, label, p[:4].tolist(), w[:4].tolist(), d.tolist(), a[0] if a[0] != "ok" else (a[1][:3].tolist(), a[2][:3].tolist(), a[3].tolist()),
                               b[0] if b[0] != "ok" else (b[1][:3].tolist(), b[2][:3].tolist(), b[3].tolist()))))
                break
    return bad


def c04_r5_instances(script, rt, OneDGrid):
    """script = {"tfs": [A, B] (same class, one hidden difference), "grids": [gA, gB]}: references computed with A alone before B exists; then B is
    built and used, A again, in both orders: every answer equals its isolated reference."""
    import numpy as np
    sa, sb = script["tfs"]
    ga, gb = script["grids"]

    def run(T, gs):
        try:
            h = T.transform_1d_grid(c04_build_grid(OneDGrid, gs))
            return ("ok", h.points.copy(), h.weights.copy(), np.array(h.domain, dtype=float))
        except (ValueError, ZeroDivisionError) as e:
            return (type(e).__name__,)

    def eq(a, b):
        return a[0] == b[0] and all(np.array_equal(x, y, equal_nan=True) for x, y in zip(a[1:], b[1:]))
    bad = []
    with np.errstate(all="ignore"):
        A0 = c04_build_tf(rt, sa)
        ref_aa, ref_ab = run(A0, ga), run(A0, gb)              # A alone: its first grid, then the other one
        B0 = c04_build_tf(rt, sb)
        ref_bb, ref_ba = run(B0, gb), run(B0, ga)
        for order in ("AB", "BA"):
            A, B = c04_build_tf(rt, sa), c04_build_tf(rt, sb)
            got = {}
            if order == "AB":
                got["aa"] = run(A, ga); got["bb"] = run(B, gb); got["ab"] = run(A, gb); got["ba"] = run(B, ga)
            else:
                got["bb"] = run(B, gb); got["aa"] = run(A, ga); got["ba"] = run(B, ga); got["ab"] = run(A, gb)
            for key, ref in (("aa", ref_aa), ("ab", ref_ab), ("bb", ref_bb), ("ba", ref_ba)):
                if not eq(got[key], ref):
                    bad.append(("instances", "%s: two instances %r%s and %r%s used in the order %s: request %s gives %s, the instance used alone gave %s"
                                % (sa["cls"], tuple(sa["ps"]), " trim=%s" % sa.get("trim") if sa["cls"] in C04_HAS_TRIM else (" b open" if sa.get("b_none") else ""),
                                   tuple(sb["ps"]), " trim=%s" % sb.get("trim") if sb["cls"] in C04_HAS_TRIM else (" b open" if sb.get("b_none") else ""), order, key,
                                   got[key][0] if got[key][0] != "ok" else (got[key][1][:3].tolist(), got[key][2][:3].tolist(), got[key][3].tolist()),
                                   ref[0] if ref[0] != "ok" else (ref[1][:3].tolist(), ref[2][:3].tolist(), ref[3].tolist()))))
                    return bad
    return bad
'''

SNIPPET_R5 = """
import warnings; warnings.filterwarnings('ignore')
import numpy as np, mpmath
from grid import rtransform as rt
from grid.basegrid import OneDGrid
inf, nan = float('inf'), float('nan')
payload = {payload!r}
bad = [b for b in {call} if b[0] == {kind!r}]
assert not bad, bad[0][-1]
"""

_NS = {}


def _ns():
    if not _NS:
        _NS.update(M()._PROP_NS)
        exec(R5_SRC, _NS)
    return _NS


def _snippet(call, payload, kind):
    return M().PROP_SRC + R5_SRC + SNIPPET_R5.format(payload=payload, call=call, kind=kind)


def _key(m, spec, gs, kind):
    r4 = importlib.import_module(__package__ + ".c04_r4")
    return r4._key(m, spec, gs, kind)


def _closed(ctx, scripts, label="closed-form", max_nodes=24):
    """the closed-form property check on every script, each in its own part"""
    m = M()
    ns = _ns()
    import mpmath
    for cat, s in scripts:
        with m.part(ctx, f"r5-{label}:{cat}"):
            try:
                bad = ns["c04_r5_closed"](s, m.rt(), m.OneDGrid(), mpmath, max_nodes=max_nodes)
            except ValueError:
                ctx.tagc("oracle:r5:inadmissible-script")
                continue
            ctx.tagc(f"oracle:r5:{label}", len([c for c in s["calls"] if c[0] != "edit"]))
            seen = set()
            for kind, ci, msg in bad:
                call = s["calls"][ci]
                spec, gs = s["tfs"][call[0]], s["grids"][call[1]]
                key = _key(m, spec, gs, kind)
                if (kind, key) in seen:
                    continue
                seen.add((kind, key))
                cut = dict(s, calls=s["calls"][:ci + 1])
                ctx.fail("oracle", key, f"[{cat}] {msg}", witness={"category": cat, "script": cut, "kind": kind},
                         snippet=_snippet("c04_r5_closed(payload, rt, OneDGrid, mpmath)", cut, kind))


def _each(ctx, label, items, fn, call_of, tag):
    m = M()
    for item in items:
        cat, s = item[0], item[1]
        with m.part(ctx, f"r5-{label}:{cat}"):
            try:
                bad = fn(*item[1:])
            except (ValueError, ZeroDivisionError):
                ctx.tagc(f"oracle:r5:{tag}-inadmissible")
                continue
            ctx.tagc(f"oracle:r5:{tag}")
            for b in bad[:1]:
                spec = s["tfs"][0]
                ctx.fail("oracle", f"rtransform.transform_1d_grid:{'Inverse:' if spec.get('inv') else ''}{spec['cls']}:{b[0]}", f"[{label}:{cat}] {b[-1]}",
                         witness={"category": cat, "payload": s, "kind": b[0]}, snippet=_snippet(call_of(*item[2:]), s, b[0]))


# ----------------------------------------------------------------------------------------------------------------
# generators
# ----------------------------------------------------------------------------------------------------------------
def _sp(m, cls, ps, trim=False, inv=False, b_none=False):
    return m._spec_tf(cls, ps, trim if cls in m.HAS_TRIM else False, inv, b_none)


def _finite_ps(m, cls, rng):
    ps, trim = m._r2_params(cls, rng, rng.randrange(12))
    if cls == "LinearFiniteRTransform":
        ps = sorted(ps)
    return ps, trim


def param_point_scripts(rng):
    """class 24: explicit parameters on grids whose nodes sit at / next to / far beyond the parameter points and the ends of the domain"""
    m = M()
    out = []
    for cls in m.B_CLS:
        for rmin, rmax in ((0.5, 3.0), (0.1, 0.5), (2.0, 7.0)):
            b = rng.choice([0.5, 1.0, 4.0, 10.0])
            far = 100.0 if cls != "ExpRTransform" else 20.0
            pts = [0.0, b / 2, b * (1 - 1e-9), b, b * (1 + 1e-9), 1.01 * b, 2 * b, far * b]
            if rng.random() < 0.5:
                rng.shuffle(pts)
            wts = [round(rng.uniform(0.1, 1.0), 3) for _ in pts]
            for dom in ((0.0, INF), (0.0, 2 * far * b)):
                out.append((f"beyond-b:{cls}:({rmin},{rmax}):b={b}:{'half-line' if dom[1] == INF else 'finite'}",
                            {"tfs": [_sp(m, cls, [rmin, rmax, b])], "grids": [m._spec_grid(pts, wts, dom)], "calls": [[0, 0]]}))
            # the inverse: nodes at rmin, next to the ends of (rmin, rmax), at rmax
            w_ = rmax - rmin
            ipts = [rmin, rmin + 1e-9 * w_, rmin + 0.3 * w_, rmax - 1e-9 * w_, rmax]
            out.append((f"codomain-ends:inverse:{cls}:({rmin},{rmax})", {"tfs": [_sp(m, cls, [rmin, rmax, b], inv=True)],
                                                                        "grids": [m._spec_grid(ipts, wts[:5], (rmin, rmax))], "calls": [[0, 0]]}))
    for a in (0.5, 3.0):
        b = rng.choice([0.05, 0.2])
        pts = [0.0, 0.5 / b, (1 - 1e-6) / b, (1 - 1e-9) / b][: max(2, min(4, int(0.999 / b)))]
        out.append((f"next-to-pole:HyperbolicRTransform:({a},{b})", {"tfs": [_sp(m, "HyperbolicRTransform", [a, b])],
                                                                    "grids": [m._spec_grid(pts, [0.5] * len(pts), (0.0, (1 - 1e-9) / b))], "calls": [[0, 0]]}))
        out.append((f"codomain:inverse:HyperbolicRTransform:({a},{b})", {"tfs": [_sp(m, "HyperbolicRTransform", [a, b], inv=True)],
                                                                        "grids": [m._spec_grid([0.0, a, 100 * a, 1e6 * a], [0.5] * 4, (0.0, INF))], "calls": [[0, 0]]}))
    for cls in m.FINITE_TF:
        ps, _ = _finite_ps(m, cls, rng)
        near = 1e-6 if cls == "KnowlesRTransform" else 1e-9
        for trim in ((True, False) if cls in m.HAS_TRIM else (False,)):
            pts = [-1.0, -1.0 + near, 0.3, 1.0 - near, 1.0]
            if rng.random() < 0.5:
                pts = pts[::-1]
            out.append((f"domain-ends:{cls}:trim={trim}", {"tfs": [_sp(m, cls, ps, trim)], "grids": [m._spec_grid(pts, [0.1, 0.2, 0.4, 0.2, 0.1], (-1.0, 1.0))], "calls": [[0, 0]]}))
        # the inverse on its codomain: at rmin, next to it, at the parameter point rmin + R, far out
        if cls in ("BeckeRTransform", "HandyRTransform", "KnowlesRTransform", "MultiExpRTransform"):
            rmin, R = ps[0], ps[1]
            # Knowles / MultiExp: the inverse is 2 (..exp(-(r - rmin)/R)..) - 1; beyond (r - rmin)/R ~ 10 the image sits within 1e-4 of the end x = +-1
            # and the implementation's 1 +- x (hence 1/deriv) loses the digits: the flat end is not judged (same narrowing as round 3)
            far = 10.0 if cls in ("KnowlesRTransform", "MultiExpRTransform") else 1e6
            ipts = [rmin + 1e-6 * R, rmin + 0.5 * R, rmin + R, rmin + 2 * R, rmin + far * R]
            if cls != "MultiExpRTransform":
                ipts[0] = rmin
            out.append((f"codomain-points:inverse:{cls}", {"tfs": [_sp(m, cls, ps, False, inv=True)], "grids": [m._spec_grid(ipts, [0.1, 0.2, 0.4, 0.2, 0.1], (rmin, rmin + 2 * far * R))],
                                                          "calls": [[0, 0]]}))
        else:
            lo, hi = ps[0], ps[1]
            # HandyMod: x + 1 = 2 q^(1/m) with q ~ distance from rmin: 1e-9 from the end puts x + 1 below the rounding of x for m < 1 — 1e-3 there
            near = 1e-3 if cls == "HandyModRTransform" else 1e-9
            ipts = [lo, lo + near * (hi - lo), 0.5 * (lo + hi), hi - near * (hi - lo), hi]
            out.append((f"codomain-ends:inverse:{cls}", {"tfs": [_sp(m, cls, ps, False, inv=True)], "grids": [m._spec_grid(ipts, [0.1, 0.2, 0.4, 0.2, 0.1], (lo, hi))], "calls": [[0, 0]]}))
    return out


def sequence_scripts(rng):
    """class 24: one transform object on two different grids in sequence (small first / large first), every class"""
    m = M()
    out = []
    small, large = [0.0, 1.0, 2.0], [0.0, 1.0, 2.0, 3.0, 4.5, 7.0, 11.0]
    for cls in m.B_CLS:
        rmin, rmax = rng.choice([(0.5, 3.0), (0.1, 0.5), (2.0, 7.0)])
        g = [m._spec_grid(small, [1.0] * 3, (0.0, INF)), m._spec_grid(large, [0.5] * 7, (0.0, INF)), m._spec_rule("UniformInteger", 4), m._spec_rule("GaussLaguerre", 6)]
        for b_none in (True, False):
            ps = [rmin, rmax] + ([] if b_none else [rng.choice([1.0, 2.0, 4.0])])
            for order, calls in (("small-first", [[0, 0], [0, 1], [0, 0], [0, 3]]), ("large-first", [[0, 1], [0, 0], [0, 2], [0, 1]]), ("rule-first", [[0, 2], [0, 3], [0, 1]])):
                out.append((f"two-grids:{cls}:{'b-open' if b_none else 'b-given'}:{order}", {"tfs": [_sp(m, cls, ps, b_none=b_none)], "grids": g, "calls": calls}))
    for cls in m.FINITE_TF:
        ps, trim = _finite_ps(m, cls, rng)
        p1, w1, _, _ = m._r2_nodes(rng, -1.0, 1.0, 3, order="shuffled", wkind="positive")
        p2, w2, _, _ = m._r2_nodes(rng, -0.5, 0.9, 7, order="sorted", wkind="positive")
        g = [m._spec_grid(p1, w1, (-1.0, 1.0)), m._spec_grid(p2, w2, (-0.5, 0.9)), m._spec_rule("GaussLegendre", 5)]
        out.append((f"two-grids:{cls}", {"tfs": [_sp(m, cls, ps, trim)], "grids": g, "calls": [[0, 0], [0, 1], [0, 2], [0, 0]]}))
    for cls in ("IdentityRTransform", "HyperbolicRTransform"):
        ps = [] if cls == "IdentityRTransform" else [2.0, 0.05]
        g = [m._spec_grid(small, [1.0] * 3, (0.0, INF if cls == "IdentityRTransform" else 15.0)), m._spec_grid(large, [0.5] * 7, (0.0, INF if cls == "IdentityRTransform" else 15.0))]
        out.append((f"two-grids:{cls}", {"tfs": [_sp(m, cls, ps)], "grids": g, "calls": [[0, 0], [0, 1], [0, 0]]}))
    return out


def big_scripts(rng, thorough):
    """class 21: grids just above block sizes.  -> list of (category, script, cut)"""
    m = M()
    out = []
    sizes = [1025, 4097, 20001, 65537] + ([524289] if thorough else [])
    classes = [("LinearFiniteRTransform", [0.5, 3.0]), ("BeckeRTransform", [0.1, 1.5]), ("MultiExpRTransform", [0.0, 1.5]), ("KnowlesRTransform", [0.0, 1.5, 2]),
               ("HandyRTransform", [0.1, 1.5, 3]), ("HandyModRTransform", [0.1, 20.0, 2]), ("IdentityRTransform", []), ("LinearInfiniteRTransform", [0.5, 3.0, 7.0]),
               ("ExpRTransform", [0.5, 3.0, 7.0]), ("PowerRTransform", [0.5, 3.0, 7.0]), ("HyperbolicRTransform", [2.0, 1e-7])]
    for k, n in enumerate(sizes):
        for j, (cls, ps) in enumerate(classes):
            if not thorough and (j + k) % 4 and n > 1025:
                continue
            fin = cls in m.FINITE_TF
            lo, hi = (-1.0, 1.0) if fin else (0.0, 40.0)
            pts = (lo + (hi - lo) * (np.arange(n) + 0.5) / n)
            if (j + k) % 2:
                pts = pts[::-1].copy()
            wts = np.full(n, (hi - lo) / n) * (1 + 0.5 * np.sin(np.arange(n)))
            cut = [1024, 4096, n // 2 + 1, 10000][(j + k) % 4] if n > 1025 else 1024
            out.append((f"size-{n}:{cls}", {"tfs": [_sp(m, cls, ps, True)], "grids": [m._spec_grid(pts.tolist(), wts.tolist(), (lo, hi if fin else INF))], "calls": [[0, 0]]}, min(cut, n - 1)))
    return out


def plain_scripts(rng, n=(3, 5)):
    m = M()
    out = []
    for cls in m.FINITE_TF + m.INF_TF:
        for inv in (False, True):
            s, _ = m._r2_single(rng, cls, inv, rng.randrange(12), ends=False, m=rng.choice(n), style=None)
            s["grids"][0]["weights"] = [abs(w) + 0.05 for w in s["grids"][0]["weights"]]
            out.append((f"{'inverse:' if inv else ''}{cls}", s))
    return out


def inplace_scripts(rng):
    """class 25: a second set of nodes / weights on a narrower interval of the same domain"""
    m = M()
    out = []
    for cat, s in plain_scripts(rng, n=(4,)):
        gs = s["grids"][0]
        lo, hi = gs["domain"]
        top = hi if hi < 1e300 else lo + 8.0
        a, b = lo + 0.1 * (top - lo), lo + 0.8 * (top - lo)
        pts, wts, _, _ = m._r2_nodes(rng, a, b, 4, order="shuffled", wkind="positive")
        s["grids"].append(m._spec_grid(pts, wts, (a, b)))
        if s["tfs"][0]["cls"] == "HyperbolicRTransform" and not s["tfs"][0]["inv"]:
            continue
        out.append((cat, s))
    return out


def instance_scripts(rng):
    """class 26: two instances of one class with one hidden difference"""
    m = M()
    out = []
    for cls in m.B_CLS:
        rmin, rmax = rng.choice([(0.5, 3.0), (2.0, 7.0)])
        ga, gb = m._spec_grid([0.0, 1.0, 2.0], [1.0] * 3, (0.0, INF)), m._spec_grid([0.0, 2.0, 5.0, 9.0], [0.5] * 4, (0.0, INF))
        out.append((f"{cls}:b-open-twice", {"tfs": [_sp(m, cls, [rmin, rmax], b_none=True), _sp(m, cls, [rmin, rmax], b_none=True)], "grids": [ga, gb], "calls": []}))
        out.append((f"{cls}:b-open+given", {"tfs": [_sp(m, cls, [rmin, rmax], b_none=True), _sp(m, cls, [rmin, rmax, 4.0])], "grids": [ga, gb], "calls": []}))
    for cls in m.FINITE_TF:
        ps, _ = _finite_ps(m, cls, rng)
        ga, gb = m._spec_grid([-1.0, 0.2, 1.0], [0.3, 0.4, 0.3], (-1.0, 1.0)), m._spec_grid([0.5, -0.5], [1.0, 1.0], (-0.75, 0.75))
        if cls in m.HAS_TRIM:
            out.append((f"{cls}:trim-on+off", {"tfs": [_sp(m, cls, ps, True), _sp(m, cls, ps, False)], "grids": [ga, gb], "calls": []}))
        ps2 = list(ps)
        ps2[1] = ps2[1] * 2 + 0.5
        if cls == "HandyModRTransform":
            ps2[1] = ps[1] + 10.0
        out.append((f"{cls}:other-scale", {"tfs": [_sp(m, cls, ps, True), _sp(m, cls, ps2, True)], "grids": [ga, gb], "calls": []}))
    return out


# ----------------------------------------------------------------------------------------------------------------
# stages
# ----------------------------------------------------------------------------------------------------------------
def corr_r5(ctx: Ctx):
    m = M()
    rng = ctx.rng
    pp, seq = param_point_scripts(rng), sequence_scripts(rng)
    big = [(c, s) for c, s, _ in big_scripts(rng, False) if c.startswith("size-1025")]
    with m.part(ctx, "r5-parameter-points", "corr"):
        m._corr_scripts(ctx, pp, label="r5")
    with m.part(ctx, "r5-two-grids", "corr"):
        m._corr_scripts(ctx, seq, label="r5")
    with m.part(ctx, "r5-size-1025", "corr"):
        m._corr_scripts(ctx, big, label="r5")


def oracle_r5(ctx: Ctx, budget: str):
    m = M()
    rng = ctx.rng
    large = budget == "large" or ctx.thorough
    R, G = m.rt(), m.OneDGrid()
    ns = _ns()

    def pick(lst, k):
        return lst if large or len(lst) <= k else rng.sample(lst, k)
    pp, seq = param_point_scripts(rng), sequence_scripts(rng)
    big = big_scripts(rng, ctx.thorough)
    plain = plain_scripts(rng)
    inpl = inplace_scripts(rng)
    inst = instance_scripts(rng)
    r2 = [(c, s) for c, s in m._r2_scripts(ctx, rng, "oracle") if not c.startswith(("zero-derivative", "dtype", "large-n"))]
    # class 24 (and the closed form as a second, library-free reference on the scripts of round 2)
    _closed(ctx, pp, "parameter-points")
    _closed(ctx, seq, "two-grids")
    _closed(ctx, pick(r2, 40), "round2-scripts", max_nodes=8)
    # class 21
    _each(ctx, "split", big, lambda s, cut: ns["c04_r5_split"](s, cut, R, G), lambda cut: f"c04_r5_split(payload, {cut}, rt, OneDGrid)", "split")
    _closed(ctx, [(c, s) for c, s, _ in big], "big-grids", max_nodes=12)
    # class 22
    perms = []
    for cat, s in plain:
        n = len(s["grids"][0]["points"])
        p = list(range(n))
        rng.shuffle(p)
        perms += [(cat + ":reversed", s, list(range(n))[::-1]), (cat + ":shuffled", s, p)]
    _each(ctx, "order", perms, lambda s, p: ns["c04_r5_perm"](s, p, R, G), lambda p: f"c04_r5_perm(payload, {p!r}, rt, OneDGrid)", "order")
    # class 23
    prec = [(cat + ":" + nm, s, dt) for cat, s in plain for nm, dt in (("longdouble", np.longdouble), ("float16", np.float16))]
    _each(ctx, "precision", prec, lambda s, dt: ns["c04_r5_precision"](s, dt, R, G), lambda dt: f"c04_r5_precision(payload, np.{np.dtype(dt).name}, rt, OneDGrid)", "precision")
    # class 25
    _each(ctx, "in-place", inpl, lambda s: ns["c04_r5_inplace"](s, R, G), lambda: "c04_r5_inplace(payload, rt, OneDGrid)", "in-place")
    # class 26
    _each(ctx, "instances", inst, lambda s: ns["c04_r5_instances"](s, R, G), lambda: "c04_r5_instances(payload, rt, OneDGrid)", "instances")


def oracle_at_r5(ctx: Ctx, failure):
    """a correspondence disagreement, judged by the closed-form reference at that input (the whole sequence of calls up to it)"""
    m = M()
    w = m._unjson(failure.witness or {})
    if not isinstance(w, dict):
        return
    s = m._script_from_witness(w)
    if isinstance(s, dict) and s.get("calls") and all(g.get("domain") is not None or True for g in s["grids"]):
        if not any(g.get("pdtype", "float64") not in ("float64", "int64", "int32", "bool") for g in s["grids"]):
            _closed(ctx, [("at-disagreement", s)], "at-disagreement")

"""C04 — transforming a 1-D grid is a faithful change of variables."""
import importlib
import math
from fractions import Fraction

import numpy as np

from ..common import Ctx, Tokens, close, driver_batch, f2b, fvec

LEVEL = "proof"
LEVEL_TEXT = (
    "Lean theorems over the reals about the model of BaseTransform.transform_1d_grid whose element-wise expressions (new "
    "point, new weight, image of the domain and whether it is sorted, the domain guard) are regenerated from the Python AST "
    "on every run (Gen/Transform1D.lean), for an abstract transform record (r = transform, r' = deriv), every accepted grid "
    "and every integrand: the sum over the new grid equals the old rule applied to g(r(x)) r'(x) with the SIGNED derivative "
    "(unconditional, the code as it is); the full statement with |r'| is kept as a Prop, refuted at a concrete witness "
    "(reflection, and the library's MultiExpRTransform on the generated closed form) and proved for maps with r' >= 0 at the "
    "nodes; the same for non-negativity of weights and positivity of integrals; grids whose domain sticks out of the "
    "transform's domain are rejected; the new domain is (min, max) of the images of the old ends, and for a map monotone in "
    "either direction it contains every new node exactly and the constructor's check accepts the grid; exactness transport: a "
    "rule exact to degree 2n-1 on [-1,1] (Gauss-Legendre contract, hypothesis) mapped by the generated LinearFiniteRTransform "
    "is exact to degree 2n-1 on [rmin, rmax]. Tie to the code: translator + correspondence of the model at Float (transform "
    "formulas = the generated definitions of Gen/RTransform.lean) with the implementation over (rule, n) x transform x "
    "parameters incl. rejected inputs."
)
TECHNIQUE = ("Lean 4 / Mathlib proof (list algebra, order, interval-integral substitution, polynomial composition) over "
             "definitions translated from the Python AST + differential run of the Float model + oracle on the implementation "
             "(mpmath.quad, exact rationals, sign and containment checks)")
GEN = ["rtransform", "transform1d"]
LEAN_MODULES = ["GridVerif.Props.C04.General", "GridVerif.Props.C04.Concrete"]
THEOREMS = [f"GridVerif.C04.{t}" for t in [
    "integrate_transformed_signed", "integrate_transformed_partial", "integrate_transformed_decreasing",
    "reflection_midpoint1", "integrate_transformed_fails_at",
    "weights_nonneg_partial", "weights_nonneg_fails_at", "weights_neg_of_decreasing",
    "integral_pos_partial", "integral_nonneg_partial", "integral_pos_fails_at",
    "domain_guard", "domain_ordered_image", "nodes_in_domain", "transform_accepts_of_monotone",
    "multiexp_negative_weights", "multiexp_integral_neg", "integrate_transformed_fails_at_multiexp",
    "gl_linear_exact", "linearFinite_accepts",
]]
RULE = (
    "correspondence: one evaluation = one call tf.transform_1d_grid(grid) (or OneDGrid(points, weights, domain)) made on the "
    "implementation and on the Lean model at Float; grid = one of 24 rule classes x npoints (smallest admissible, odd, even, "
    "up to 40; thorough up to 120) or a slice of it or a hand-built OneDGrid on a sub-interval / sticking out of the "
    "transform's domain / without domain; tf = one of 11 transform classes with random admissible parameters (integer and "
    "non-integer exponents, trim on/off) or InverseRTransform of it applied to the grid it produced; pairs with mismatching "
    "domains are included (both sides must reject); compared: error kind, every new point and weight (rtol 1e-9), the new "
    "domain. Non-trivial = at least 2 points and (a transform other than the identity with random parameters, or a rejected "
    "input)."
)
TRUSTED_BASE = [
    "Lean 4.33 kernel; Mathlib; axioms propext, Classical.choice, Quot.sound only (audited per theorem)",
    "translator harness/translate/transform1d.py (Python AST of transform_1d_grid -> Lean text) and rtransform.py (closed forms of the classes)",
    "hand model Model/Transform1D.lean (order of checks, OneDGrid constructor with 1e-7 slack, np.min/np.max/np.sort of two elements), tied by correspondence",
    "Elem instance at ℝ (Lemmas/ElemReal.lean); HasInf ℝ (no real is infinite)",
    "statements in Props/C04/*.lean and their reading of the property (rule sum, |r'| as the magnitude of the Jacobian, finite grid domains in the theorems)",
    "Lean compiler/runtime for the Float instance (driver), libm vs numpy (rtol 1e-9)",
]
ASSUMPTIONS = [
    "IEEE rounding is not modelled: equalities are over ℝ, the correspondence uses rtol 1e-9",
    "theorems speak about grids with a finite domain; rules on (0, inf) and infinite images (±inf, 1e16 after trimming) are covered by the correspondence and the oracle only",
    "Gauss-Legendre exactness on [-1,1] is a hypothesis of gl_linear_exact (numpy.polynomial.legendre.leggauss is not verified); the oracle checks the transported exactness with exact rationals",
    "input grids satisfy len(points) == len(weights) (invariant of Grid.__init__)",
]

FINDING_KEY = "rtransform.transform_1d_grid:decreasing-map"
HYP_KEY = "rtransform.transform_1d_grid:HyperbolicRTransform:domain-nan"

FINITE_TF = ["BeckeRTransform", "LinearFiniteRTransform", "MultiExpRTransform", "KnowlesRTransform", "HandyRTransform",
             "HandyModRTransform"]
INF_TF = ["IdentityRTransform", "LinearInfiniteRTransform", "ExpRTransform", "PowerRTransform", "HyperbolicRTransform"]
HAS_TRIM = {"BeckeRTransform", "MultiExpRTransform", "KnowlesRTransform", "HandyRTransform", "HandyModRTransform"}

# rule class -> (kind of domain, admissible npoints predicate)
FINITE_RULES = {
    "GaussLegendre": lambda n: n >= 2, "GaussChebyshev": lambda n: n >= 2, "GaussChebyshevType2": lambda n: n >= 1,
    "GaussChebyshevLobatto": lambda n: n >= 2, "Trapezoidal": lambda n: n >= 2,
    "RectangleRuleSineEndPoints": lambda n: n >= 2, "TanhSinh": lambda n: n >= 3 and n % 2 == 1,
    "Simpson": lambda n: n >= 3 and n % 2 == 1, "MidPoint": lambda n: n >= 2, "ClenshawCurtis": lambda n: n >= 2,
    "FejerFirst": lambda n: n >= 2, "FejerSecond": lambda n: n >= 2, "TrefethenCC": lambda n: n >= 2,
    "TrefethenGC2": lambda n: n >= 1, "TrefethenStripCC": lambda n: n >= 2, "TrefethenStripGC2": lambda n: n >= 1,
    "SingleTanh": lambda n: n >= 1 and n % 2 == 1,
}
INF_RULES = {
    "GaussLaguerre": lambda n: n >= 2, "UniformInteger": lambda n: n >= 2, "ExpSinh": lambda n: n % 2 == 1,
    "LogExpSinh": lambda n: n % 2 == 1, "ExpExp": lambda n: n % 2 == 1, "SingleExp": lambda n: n % 2 == 1,
    "SingleArcSinhExp": lambda n: n % 2 == 1,
}


def rt():
    return importlib.import_module("grid.rtransform")


def og():
    return importlib.import_module("grid.onedgrid")


def OneDGrid():
    return importlib.import_module("grid.basegrid").OneDGrid


# ----------------------------------------------------------------------------
# generators
# ----------------------------------------------------------------------------
def _expo(rng):
    u = rng.random()
    if u < 0.4:
        return rng.choice([1, 2, 3, 4])
    return round(rng.uniform(0.5, 4.5), rng.choice([1, 2, 5]))


def gen_params(cls, rng, npts=10):
    """-> (positional numeric constructor arguments, trim flag)"""
    rmin = rng.choice([0.0, 1e-3, 0.1, round(rng.uniform(0.0, 2.0), 3)])
    R = rng.choice([0.5, 1.0, 1.5, round(rng.uniform(0.1, 5.0), 3)])
    trim = rng.random() < 0.6
    if cls in ("BeckeRTransform", "MultiExpRTransform"):
        return [rmin, R], trim
    if cls == "LinearFiniteRTransform":
        if rng.random() < 0.12:      # the constructor admits rmin > rmax: a decreasing linear map
            return [rmin + round(rng.uniform(0.5, 20.0), 3), rmin], False
        return [rmin, rmin + round(rng.uniform(0.5, 20.0), 3)], False
    if cls == "IdentityRTransform":
        return [], False
    if cls in ("LinearInfiniteRTransform", "ExpRTransform", "PowerRTransform"):
        if cls != "LinearInfiniteRTransform" and rmin == 0.0:
            rmin = 1e-2
        return [rmin, rmin + round(rng.uniform(0.5, 20.0), 3), rng.choice([1.0, 10.0, float(max(npts - 1, 1)),
                                                                           round(rng.uniform(0.5, 50.0), 2)])], False
    if cls == "HyperbolicRTransform":
        top = 1.0 / max(npts - 1, 1)
        b = round(rng.uniform(0.05, 0.99) * top, 5) if rng.random() < 0.8 else round(rng.uniform(1.0, 3.0) * top, 5)
        return [round(rng.uniform(0.1, 5.0), 3), max(b, 1e-5)], False
    if cls in ("KnowlesRTransform", "HandyRTransform"):
        return [rmin, R, _expo(rng)], trim
    if cls == "HandyModRTransform":
        m = _expo(rng)
        return [rmin, rmin + 2.0 ** m - 1 + round(rng.uniform(0.2, 30.0), 3), m], trim
    raise KeyError(cls)


def construct(cls, ps, trim):
    C = getattr(rt(), cls)
    if cls in HAS_TRIM:
        return C(*ps, trim_inf=bool(trim))
    if cls in ("LinearInfiniteRTransform", "ExpRTransform", "PowerRTransform"):
        return C(ps[0], ps[1], b=ps[2])
    return C(*ps)


def pick_n(ok, rng, hi):
    u = rng.random()
    cands = [n for n in range(1, hi + 1) if ok(n)]
    if u < 0.35:
        return rng.choice(cands[:4])
    return rng.choice(cands)


def make_rule(name, n):
    return getattr(og(), name)(n)


def _dom(d):
    return None if d is None else (float(d[0]), float(d[1]))


def _line(inv, cls, ps, trim, tfdom, g):
    d = _dom(g.domain)
    return (f"C04.transform {1 if inv else 0} {cls} {1 if trim else 0} {fvec([float(p) for p in ps])} "
            f"{f2b(tfdom[0])} {f2b(tfdom[1])} "
            + (f"1 {f2b(d[0])} {f2b(d[1])} " if d is not None else f"0 {f2b(0.0)} {f2b(0.0)} ")
            + f"{fvec(g.points)} {fvec(g.weights)}")


def _impl(tf, g):
    try:
        h = tf.transform_1d_grid(g)
    except ValueError:
        return "value-error", None
    except ZeroDivisionError:
        return "zero-division-error", None
    except TypeError:
        return "type-error", None
    return "ok", h


def _parse(ans):
    t = Tokens(ans)
    if t.tok() != "ok":
        return ans.strip(), None
    pts = t.fvec()
    wts = t.fvec()
    has = t.nat()
    lo, hi = t.flt(), t.flt()
    return "ok", (pts, wts, (lo, hi) if has else None)


def _same(a, b, rtol=1e-9, atol=1e-300):
    """Floats agree; values in the blow-up regime of an infinite end point (|v| > 1e12: `2**k - (1+x)**k` at x = 1 is 0
    with one pow routine and a few ulp with two, then trimmed to 1e16 or not) only have to be huge with the same sign."""
    a, b = float(a), float(b)
    if rtol > 0 and abs(a) > 1e12 and abs(b) > 1e12 and (a > 0) == (b > 0):
        return True
    return close(a, b, rtol=rtol, atol=atol)


def _conditioning(tf, g, base=None):
    """Per-node slack for conditioning-limited nodes: how far the implementation's own transform / deriv move when
    the node moves by a few ulp of 1 + |x| (nodes of the double-exponential rules sit 1e-12 from an end point where the
    maps blow up; a rounding difference between two pow/log routines is amplified by the same factor).
    For `InverseRTransform(base)` the rounding that matters is that of the intermediate `x = base.inverse(r)`."""
    r = np.asarray(g.points, dtype=float)
    eps8 = 8 * 2.220446049250313e-16

    def spread(T, D, x):
        hstep = eps8 * (1 + np.abs(x))       # a relative rounding error of 1 + x, amplified
        t0, d0 = T(x), D(x)
        tp = np.max([np.abs(T(y) - t0) for y in (x + hstep, x - hstep)], axis=0)
        dd = np.max([np.abs(D(y) - d0) for y in (x + hstep, x - hstep)], axis=0)
        return np.where(np.isfinite(tp), tp, np.inf), np.where(np.isfinite(dd), dd, np.inf), np.abs(d0)

    with np.errstate(all="ignore"):
        try:
            tp, dd, d0 = spread(tf.transform, lambda y: tf.deriv(y) * np.ones_like(y), r)
            if base is not None:
                _, dd2, _ = spread(lambda y: y, lambda y: 1.0 / (base.deriv(y) * np.ones_like(y)), base.inverse(r))
                dd = np.maximum(dd, dd2)
        except (ValueError, ZeroDivisionError, TypeError):
            return None
        dp = np.where(4 * dd < 0.25 * d0, 4 * dd * np.abs(g.weights), np.inf)
    return 4 * tp, np.where(np.isfinite(dp), dp, np.inf)


_STATS = {"limited": 0, "compared": 0}


def _compare(tag, h, ans, rtol=1e-9, cond=None):
    """-> None if implementation result (tag, h) and driver answer agree, else a description"""
    mtag, m = _parse(ans)
    if tag != mtag:
        return f"implementation: {tag}, model: {mtag}"
    if tag != "ok":
        return None
    pts, wts, dom = m
    if len(pts) != h.size or len(wts) != h.size:
        return f"sizes differ: implementation {h.size}, model {len(pts)}/{len(wts)}"
    def limited(slack, v):      # the slack is not finite or as large as the value itself: the node carries no information
        lim = cond is not None and (not math.isfinite(slack) or slack >= 0.25 * abs(float(v)) > 0)
        _STATS["limited" if lim else "compared"] += 1
        return lim

    for i in range(h.size):
        # a node mapped (back) to 0 is a difference of O(1) numbers: absolute tolerance on points and domain
        if not limited(cond[0][i] if cond else 0.0, h.points[i]) and \
                not _same(h.points[i], pts[i], rtol, atol=rtol + (cond[0][i] if cond else 0.0)):
            return f"point {i}: implementation {float(h.points[i])!r}, model {pts[i]!r}"
        if not limited(cond[1][i] if cond else 0.0, h.weights[i]) and \
                not _same(h.weights[i], wts[i], rtol, atol=1e-300 + (cond[1][i] if cond else 0.0)):
            return f"weight {i}: implementation {float(h.weights[i])!r}, model {wts[i]!r}"
    d = _dom(h.domain)
    if (d is None) != (dom is None):
        return f"domain: implementation {d}, model {dom}"
    if d is not None and not (_same(d[0], dom[0], rtol, atol=rtol) and _same(d[1], dom[1], rtol, atol=rtol)):
        return f"domain: implementation {d}, model {dom}"
    return None


# ----------------------------------------------------------------------------
# correspondence
# ----------------------------------------------------------------------------
def corr(ctx: Ctx):
    rng = ctx.rng
    G = OneDGrid()
    hi_n = 120 if ctx.thorough else 40
    cases = []          # (description, tf, grid, line, nontrivial, tag, wrapped transform or None)

    def add(desc, inv, cls, ps, trim, tf, g, nontrivial, tag, base=None):
        cases.append((desc, tf, g, _line(inv, cls, ps, trim, tf.domain, g), nontrivial, tag, base))

    ncases = ctx.n(1500, 20000)
    for k in range(ncases):
        u = rng.random()
        matching = u < 0.8
        fin_rule = rng.random() < 0.65
        rname = rng.choice(sorted(FINITE_RULES if fin_rule else INF_RULES))
        ok = (FINITE_RULES if fin_rule else INF_RULES)[rname]
        n = pick_n(ok, rng, hi_n)
        g = make_rule(rname, n)
        fin_tf = fin_rule if matching else not fin_rule
        cls = rng.choice(FINITE_TF if fin_tf else INF_TF)
        ps, trim = gen_params(cls, rng, g.size)
        try:
            tf = construct(cls, ps, trim)
        except ValueError:
            continue
        desc = [rname, n, cls, ps, bool(trim)]
        v = rng.random()
        if v < 0.12 and g.size >= 3:         # a slice of the rule keeps the domain
            a = rng.randrange(0, g.size - 1)
            b = rng.randrange(a + 1, g.size + 1)
            g = g[a:b]
            desc.append(f"slice {a}:{b}")
        elif v < 0.27 and fin_rule:          # hand-built grid on a sub-interval / sticking out / without domain
            w = rng.random()
            lo, hi = sorted([round(rng.uniform(-1, 1), 3), round(rng.uniform(-1, 1), 3)])
            if lo == hi:
                hi = lo + 0.25
            eps = rng.choice([0.0, 5e-8, 9.9e-8, 1.01e-7, 2e-7, 1e-3])
            if w < 0.25:
                dom = (-1.0 - eps, 1.0) if rng.random() < 0.5 else (-1.0, 1.0 + eps)
                lo, hi = -1.0, 1.0
            elif w < 0.35:
                dom = None
            else:
                dom = (lo, hi)
            m = rng.randrange(1, 6)
            pts = np.sort(np.array([rng.uniform(lo, hi) for _ in range(m)]))
            if dom is not None and rng.random() < 0.3:   # a point outside the grid's own domain by about the slack
                pts[0] = dom[0] - rng.choice([5e-8, 9.9e-8])
            wts = np.array([rng.uniform(0.05, 1.0) for _ in range(m)])
            try:
                g = G(pts, wts, dom)
            except ValueError:
                continue
            desc = ["OneDGrid", [float(x) for x in pts], dom, cls, ps, bool(trim)]
        add(desc, False, cls, ps, trim, tf, g, g.size >= 2 and (cls != "IdentityRTransform" or not matching),
            f"{'finite' if fin_rule else 'half-infinite'}-rule:{cls}" + ("" if matching else ":mismatch"))
        # the inverse transformation applied to the grid just produced (round trip)
        if matching and rng.random() < 0.3:
            tag, h = _impl(tf, g)
            if tag == "ok" and np.all(np.isfinite(h.points)) and np.all(np.isfinite(h.weights)):
                itf = rt().InverseRTransform(tf)
                add(desc + ["inverse"], True, cls, ps, trim, itf, h, h.size >= 2, f"inverse:{cls}", base=tf)
    answers = driver_batch([c[3] for c in cases])
    for (desc, tf, g, line, nontrivial, tag, base), ans in zip(cases, answers):
        itag, h = _impl(tf, g)
        bad = _compare(itag, h, ans, cond=_conditioning(tf, g, base) if itag == "ok" else None)
        ctx.count(desc, nontrivial=nontrivial or itag != "ok", tag=tag + (":" + itag if itag != "ok" else ""))
        if bad:
            ctx.fail("corr", f"transform_1d_grid:{desc[-3] if desc[0] == 'OneDGrid' else desc[2]}",
                     f"transform_1d_grid {desc}: {bad}",
                     witness={"case": desc, "points": g.points, "weights": g.weights, "domain": _dom(g.domain),
                              "tf_domain": [float(x) for x in tf.domain], "disagreement": bad})

    ctx.tagc("corr:values-compared", _STATS["compared"])
    ctx.tagc("corr:values-conditioning-limited(skipped)", _STATS["limited"])
    # the OneDGrid constructor alone (domain check with its slack, reversed domain, empty, length mismatch)
    ctor = []
    for k in range(ctx.n(400, 4000)):
        m = rng.choice([0, 1, 1, 2, 3, 5])
        lo, hi = sorted([round(rng.uniform(-2, 2), 2), round(rng.uniform(-2, 2), 2)])
        pts = [rng.uniform(lo, hi) for _ in range(m)]
        u = rng.random()
        if m and u < 0.35:
            pts[rng.randrange(m)] = lo - rng.choice([0.0, 5e-8, 9.99e-8, 1.001e-7, 1e-6])
        elif m and u < 0.7:
            pts[rng.randrange(m)] = hi + rng.choice([0.0, 5e-8, 9.99e-8, 1.001e-7, 1e-6])
        elif m and u < 0.75:
            pts[rng.randrange(m)] = float("nan")
        dom = (lo, hi)
        v = rng.random()
        if v < 0.08:
            dom = (hi, lo)
        elif v < 0.16:
            dom = None
        elif v < 0.22:
            dom = (lo, float("inf")) if rng.random() < 0.5 else (float("-inf"), hi)
        mw = m if rng.random() < 0.93 else m + 1
        wts = [rng.uniform(-1, 1) for _ in range(mw)]
        ctor.append((pts, wts, dom))
    lines = [("C04.onedgrid " + (f"1 {f2b(d[0])} {f2b(d[1])} " if d is not None else f"0 {f2b(0.0)} {f2b(0.0)} ")
              + f"{fvec(p)} {fvec(w)}") for p, w, d in ctor]
    for (p, w, d), ans in zip(ctor, driver_batch(lines)):
        try:
            h = G(np.array(p, dtype=float), np.array(w, dtype=float), d)
            itag = "ok"
        except ValueError:
            itag, h = "value-error", None
        bad = _compare(itag, h, ans, rtol=0.0)
        ctx.count(["OneDGrid", p, w, d], nontrivial=len(p) >= 2 or itag != "ok", tag="constructor:" + itag)
        if bad:
            ctx.fail("corr", "OneDGrid.__init__", f"OneDGrid({p}, {w}, {d}): {bad}",
                     witness={"points": p, "weights": w, "domain": d, "disagreement": bad})


# ----------------------------------------------------------------------------
# oracle
# ----------------------------------------------------------------------------
SNIPPET_SIGN = """import warnings; warnings.filterwarnings('ignore')
import numpy as np, mpmath
from grid import onedgrid, rtransform
g = getattr(onedgrid, {rule!r})({n})
tf = getattr(rtransform, {cls!r})(*{ps!r}{kw})
h = tf.transform_1d_grid(g)
pos = g.weights > 0
lo, hi = float(h.domain[0]), float(h.domain[1])
val = float(np.sum(np.exp(-h.points) * h.weights))
ref = float(mpmath.quad(lambda r: mpmath.exp(-r), [lo, mpmath.inf if hi >= 1e16 else hi]))
assert (h.weights[pos] >= 0).all(), f'positive weights became negative: {{h.weights[pos][:3]}}; integral of exp(-r) over [{{lo}}, {{hi}}] = {{val}}, mpmath.quad gives {{ref}}'
"""

SNIPPET_NAN = """import warnings; warnings.filterwarnings('ignore')
import numpy as np
from grid import onedgrid, rtransform
g = getattr(onedgrid, {rule!r})({n})
tf = rtransform.HyperbolicRTransform(*{ps!r})
h = tf.transform_1d_grid(g)
lo, hi = h.domain
assert lo <= hi and (lo <= h.points).all() and (h.points <= hi).all(), f'new domain {{h.domain}} is not an ordered interval containing the new nodes {{h.points[:3]}}...'
"""


def _decreasing(tf, lo, hi):
    """Direction of the map on the grid's domain, measured on the transform itself (not on deriv)."""
    lo = max(lo, -1e3)
    hi = min(hi, 1e3)
    a = lo + 0.25 * (hi - lo)
    b = lo + 0.5 * (hi - lo)
    try:
        ra, rb = (float(x) for x in tf.transform(np.array([a, b])))
    except ValueError:
        return False
    return rb < ra


def _mp_integrands():
    import mpmath as mp
    return [
        ("exp(-r)", lambda r: np.exp(-r), lambda r: mp.exp(-r)),
        ("1/(1+r)^3", lambda r: 1.0 / (1.0 + r) ** 3, lambda r: 1 / (1 + r) ** 3),
        ("r^2 exp(-r)+exp(-2r)", lambda r: r ** 2 * np.exp(-r) + np.exp(-2 * r), lambda r: r ** 2 * mp.exp(-r) + mp.exp(-2 * r)),
    ]


def oracle(ctx: Ctx, budget: str):
    import mpmath as mp
    mp.mp.dps = 30
    rng = ctx.rng
    large = budget == "large" or ctx.thorough
    R = rt()

    def kw_of(cls, trim):
        return f", trim_inf={bool(trim)}" if cls in HAS_TRIM else ""

    def report_sign(rule, n, cls, ps, trim, inv, what, wit):
        ctx.fail("oracle", FINDING_KEY, what, witness=wit,
                 snippet=SNIPPET_SIGN.format(rule=rule, n=n, cls=cls, ps=[float(p) if not isinstance(p, int) else p for p in ps],
                                             kw=kw_of(cls, trim)))

    # ---- 1. every (rule, transform) pair whose domains match: sign of weights, node in domain, ordered domain,
    #         and the change-of-variables identity with |r'| in 30-digit arithmetic
    pairs = [(r, t, True) for r in sorted(FINITE_RULES) for t in FINITE_TF] + \
            [(r, t, False) for r in sorted(INF_RULES) for t in INF_TF]
    reps = 3 if large else 1
    for rule, cls, fin in pairs:
        ok = (FINITE_RULES if fin else INF_RULES)[rule]
        for _ in range(reps):
            n = pick_n(ok, rng, 30)
            g = make_rule(rule, n)
            ps, trim = gen_params(cls, rng, g.size)
            if cls == "HyperbolicRTransform" and ps[1] * (g.size - 1) >= 1:
                ps[1] = round(0.5 / max(g.size - 1, 1), 6)
            tf = construct(cls, ps, trim)
            tag, h = _impl(tf, g)
            case = {"rule": rule, "npoints": n, "transform": cls, "params": ps, "trim_inf": bool(trim)}
            if tag != "ok":
                if cls == "HyperbolicRTransform" or not fin:
                    # nodes beyond the pole 1/b, or images overflowing: rejected by the constructor, not a wrong grid
                    ctx.tagc("oracle:rejected-by-constructor")
                    continue
                ctx.fail("oracle", f"rtransform.transform_1d_grid:{cls}:rejected",
                         f"{rule}({n}) through {cls}{tuple(ps)}: domains match but the call raised {tag}", witness=case)
                continue
            dec = _decreasing(tf, float(g.domain[0]), float(g.domain[1]))
            lo, hi = float(h.domain[0]), float(h.domain[1])
            # ordered domain, nodes inside
            fin_pts = h.points[np.isfinite(h.points)]
            if not (lo <= hi) or not (np.all(fin_pts >= lo - 1e-12 * max(1, abs(lo))) and np.all(fin_pts <= hi + 1e-12 * max(1.0, abs(hi)))):
                key = HYP_KEY if (cls == "HyperbolicRTransform" and hi != hi) else f"rtransform.transform_1d_grid:{cls}:domain"
                ctx.fail("oracle", key,
                         f"{rule}({n}) through {cls}{tuple(ps)}: new domain ({lo}, {hi}) is not an ordered interval containing "
                         f"the new nodes [{float(h.points.min())}, {float(h.points.max())}]", witness=case,
                         snippet=SNIPPET_NAN.format(rule=rule, n=n, ps=ps) if cls == "HyperbolicRTransform" else None)
            # the domain is the image of the old ends
            try:
                img = sorted(float(x) for x in tf.transform(np.array([float(g.domain[0]), float(g.domain[1])])))
                if not (img[1] != img[1] and hi != hi) and not (_same(img[0], lo) and _same(img[1], hi)):
                    ctx.fail("oracle", f"rtransform.transform_1d_grid:{cls}:domain-image",
                             f"{rule}({n}) through {cls}{tuple(ps)}: new domain ({lo}, {hi}) is not the ordered image {img} of the old ends",
                             witness=case)
            except ValueError:
                pass
            # sign of the weights
            pos = g.weights > 0
            finite_w = np.isfinite(h.weights)
            if np.any(h.weights[pos & finite_w] < 0):
                i = int(np.nonzero(pos & finite_w & (h.weights < 0))[0][0])
                what = (f"{rule}({n}) through {cls}{tuple(ps)}: weight {float(g.weights[i])!r} at node {float(g.points[i])!r} became "
                        f"{float(h.weights[i])!r} (the map is {'decreasing' if dec else 'increasing'}; transform_1d_grid multiplies by the signed derivative)")
                if dec:
                    report_sign(rule, n, cls, ps, trim, False, what, case)
                else:
                    ctx.fail("oracle", f"rtransform.transform_1d_grid:{cls}:weights", what, witness=case)
            # identity Σ f(p_i) w'_i = Σ w_i f(r(x_i)) |r'(x_i)| (30 digits on the right)
            keep = np.isfinite(h.points) & np.isfinite(h.weights)
            if np.any(keep):
                rx = tf.transform(g.points)
                dx = tf.deriv(g.points) * np.ones_like(g.points, dtype=float)
                name, f_np, f_mp = _mp_integrands()[0]
                lhs = float(np.sum((f_np(h.points) * h.weights)[keep]))
                rhs = sum(mp.mpf(float(g.weights[i])) * f_mp(mp.mpf(float(rx[i]))) * abs(mp.mpf(float(dx[i])))
                          for i in range(g.size) if keep[i])
                scale = float(sum(abs(mp.mpf(float(g.weights[i])) * f_mp(mp.mpf(float(rx[i]))) * mp.mpf(float(dx[i])))
                                  for i in range(g.size) if keep[i]))
                if abs(lhs - float(rhs)) > 1e-10 * max(scale, 1e-300):
                    what = (f"{rule}({n}) through {cls}{tuple(ps)}: sum of {name} over the new grid = {lhs!r}, the old rule applied to "
                            f"f(r(x))|r'(x)| = {float(rhs)!r}")
                    if dec:
                        report_sign(rule, n, cls, ps, trim, False, what, case)
                    else:
                        ctx.fail("oracle", f"rtransform.transform_1d_grid:{cls}:identity", what, witness=case)
            ctx.tagc("oracle:pairs")

    # ---- 2. integrals of positive integrands against mpmath.quad (accurate rules only)
    quad_cases = [("GaussLegendre", 40), ("GaussLegendre", 60), ("ClenshawCurtis", 61), ("FejerFirst", 60)]
    if large:
        quad_cases += [("GaussLegendre", 80), ("GaussChebyshevType2", 120), ("TrefethenCC", 61)]
    for rule, n in quad_cases:
        g = make_rule(rule, n)
        for cls in FINITE_TF:
            for rep in range(2 if large else 1):
                rmin = rng.choice([0.0, 0.1, 0.5])
                Rp = rng.choice([1.0, 1.5, 2.0])
                m = rng.choice([1, 2, 3])
                ps = {"BeckeRTransform": [rmin, Rp], "MultiExpRTransform": [rmin, Rp],
                      "LinearFiniteRTransform": [rmin, rmin + rng.choice([2.0, 5.0, 9.5])],
                      "KnowlesRTransform": [rmin, Rp, m], "HandyRTransform": [rmin, Rp, m],
                      "HandyModRTransform": [rmin, rmin + 2.0 ** m - 1 + rng.choice([3.0, 8.0]), m]}[cls]
                if cls == "MultiExpRTransform" and rule == "GaussLegendre" and n == 40 and rep == 0:
                    ps = [0.0, 1.5]          # the witness recorded in KNOWN_FINDINGS
                tf = construct(cls, ps, True)
                tag, h = _impl(tf, g)
                case = {"rule": rule, "npoints": n, "transform": cls, "params": ps}
                if tag != "ok":
                    ctx.fail("oracle", f"rtransform.transform_1d_grid:{cls}:rejected", f"{rule}({n}) through {cls}{tuple(ps)} raised {tag}", witness=case)
                    continue
                lo, hi = float(h.domain[0]), float(h.domain[1])
                keep = np.isfinite(h.points) & np.isfinite(h.weights) & (np.abs(h.weights) < 1e15)
                for name, f_np, f_mp in _mp_integrands():
                    val = float(np.sum((f_np(h.points) * h.weights)[keep]))
                    ref = float(mp.quad(f_mp, [mp.mpf(lo), mp.inf if hi >= 1e16 else mp.mpf(hi)]))
                    ctx.tagc("oracle:quad")
                    if not (val > 0) or abs(val - ref) > 0.1 * ref:
                        dec = _decreasing(tf, -1.0, 1.0)
                        what = (f"{rule}({n}) through {cls}{tuple(ps)}: integral of {name} over [{lo}, {hi}] = {val!r}, "
                                f"mpmath.quad gives {ref!r}" + (" (decreasing map, signed Jacobian in transform_1d_grid)" if dec else ""))
                        if dec and abs(val + ref) <= 0.1 * ref:
                            report_sign(rule, n, cls, ps, True, False, what, dict(case, integrand=name, value=val, reference=ref))
                        else:
                            ctx.fail("oracle", f"rtransform.transform_1d_grid:{cls}:quad", what, witness=dict(case, integrand=name, value=val, reference=ref))

    # ---- 3. Gauss-Legendre through LinearFinite: exact on monomials up to degree 2n-1 (exact rationals)
    for n in ([2, 3, 4, 5, 7, 10] if not large else list(range(2, 16))):
        g = make_rule("GaussLegendre", n)
        for rep in range(2):
            a = rng.choice([0.0, -1.0, 0.5, round(rng.uniform(-2, 2), 2)])
            b = a + rng.choice([1.0, 2.0, round(rng.uniform(0.5, 4.0), 2)])
            tf = construct("LinearFiniteRTransform", [a, b], False)
            h = tf.transform_1d_grid(g)
            fa, fb = Fraction(a), Fraction(b)
            for k in range(0, 2 * n):
                exact = (fb ** (k + 1) - fa ** (k + 1)) / (k + 1)
                terms = [Fraction(float(p)) ** k * Fraction(float(w)) for p, w in zip(h.points, h.weights)]
                got = sum(terms)
                scale = sum(abs(t) for t in terms)
                ctx.tagc("oracle:gl-linear-monomial")
                if abs(got - exact) > Fraction(1, 10 ** 11) * max(scale, Fraction(1, 10 ** 30)):
                    ctx.fail("oracle", "rtransform.transform_1d_grid:LinearFiniteRTransform:exactness",
                             f"GaussLegendre({n}) mapped to [{a}, {b}]: integral of r^{k} = {float(got)!r}, exact {float(exact)!r}",
                             witness={"npoints": n, "a": a, "b": b, "degree": k, "got": float(got), "exact": str(exact)})
                    break
            # node containment and domain
            if not (float(h.domain[0]) == a and float(h.domain[1]) == b and np.all(h.points >= a) and np.all(h.points <= b)):
                ctx.fail("oracle", "rtransform.transform_1d_grid:LinearFiniteRTransform:domain",
                         f"GaussLegendre({n}) mapped to [{a}, {b}]: domain {h.domain}, nodes in [{h.points.min()}, {h.points.max()}]")
    # degree 2n is not integrated exactly (the degree bound of the theorem is sharp; guards against a vacuous check)
    g = make_rule("GaussLegendre", 3)
    h = construct("LinearFiniteRTransform", [0.0, 2.0], False).transform_1d_grid(g)
    got = sum(Fraction(float(p)) ** 6 * Fraction(float(w)) for p, w in zip(h.points, h.weights))
    if abs(got - Fraction(2 ** 7, 7)) < Fraction(1, 10 ** 6):
        ctx.info("GaussLegendre(3) on [0,2] integrates r^6 exactly?! (oracle sanity)")

    # ---- 4. mismatching domains must be rejected
    for rule, cls in [(r, t) for r in sorted(FINITE_RULES)[:6] for t in INF_TF] + [(r, t) for r in sorted(INF_RULES) for t in FINITE_TF[:3]]:
        fin = rule in FINITE_RULES
        n = pick_n((FINITE_RULES if fin else INF_RULES)[rule], rng, 12)
        g = make_rule(rule, n)
        ps, trim = gen_params(cls, rng, g.size)
        if cls == "HyperbolicRTransform":
            ps[1] = round(0.5 / max(g.size - 1, 1), 6)
        tf = construct(cls, ps, trim)
        tag, h = _impl(tf, g)
        ctx.tagc("oracle:mismatch")
        if tag != "value-error":
            ctx.fail("oracle", f"rtransform.transform_1d_grid:{cls}:guard",
                     f"{rule}({n}) with domain {g.domain} through {cls} with domain {tf.domain}: not rejected ({tag})",
                     witness={"rule": rule, "npoints": n, "transform": cls, "params": ps})

"""C04 — transforming a 1-D grid is a faithful change of variables."""
import importlib
import math
from fractions import Fraction

import numpy as np

from ..common import Ctx, Tokens, close, driver_batch, f2b, fvec
from . import c04_ext, c04_r3, c04_r4, c04_r5

LEVEL = "proof"
LEVEL_TEXT = (
    "Lean theorems over the reals about the model of BaseTransform.transform_1d_grid whose element-wise expressions (new "
    "point, new weight, image of the domain and whether it is sorted, the domain guard) are regenerated from the Python AST "
    "on every run (Gen/Transform1D.lean), for an abstract transform record (r = transform, r' = deriv), every accepted grid "
    "and every integrand: the sum over the new grid equals the old rule applied to g(r(x)) r'(x) with the SIGNED derivative "
    "(unconditional, the code as it is); the full statement with |r'| is kept as a Prop, refuted at a concrete witness "
    "(reflection, and the library's MultiExpRTransform on the generated closed form) and proved for maps with r' >= 0 at the "
    "nodes; the same for non-negativity of weights and positivity of integrals; grids whose domain sticks out of the "
    "transform's domain are rejected; the new domain is (min, max) of the images of the old ends, and for a map monotone in "
    "either direction it contains every new node exactly and the constructor's check accepts the grid; exactness transport: a "
    "rule exact to degree 2n-1 on [-1,1] (Gauss-Legendre contract, hypothesis) mapped by the generated LinearFiniteRTransform "
    "is exact to degree 2n-1 on [rmin, rmax]. Tie to the code: translator + correspondence of the model at Float (transform "
    "formulas = the generated definitions of Gen/RTransform.lean) with the implementation over (rule, n) x transform x "
    "parameters incl. rejected inputs. Round 2: the same model and the generated closed forms / declared intervals "
    "instantiated at XReal (exact reals extended by IEEE +-inf, nan): the new domain is np.sort of the two images whatever they "
    "are; both images numbers (finite or infinite) => ordered pair; image nan => (r(lo), nan), not ordered and containing nothing; "
    "monotone in either direction on a finite or half-infinite domain => every node inside; HyperbolicRTransform: every accepted "
    "rule on (0, inf) gets the domain (0, nan) (the listed finding as a theorem, with an accepted witness, the full clause refuted, "
    "and the clause proved below the pole); Identity / LinearInfinite on (0, inf): domain (rmin, inf) containing the nodes; Becke: "
    "(rmin, inf) untrimmed, (rmin, 1e16) trimmed, node x = 1 included; MultiExp (decreasing): image (inf, rmin) sorted to (rmin, inf) / "
    "(rmin, 1e16). The driver takes the transform's declared domain from the generated text (InverseRTransform: generated swap) and "
    "answers domain-differs when the implementation's tf.domain is not the same pair. Round 3: OneDGrid.__init__ (the constructor "
    "transform_1d_grid ends in) is regenerated statement by statement (Gen/OneDGridInit.lean: ndim guard, len / order of the domain, "
    "np.min / np.max, the two 1e-7 comparisons, super().__init__, self._domain) and proved equal, for every carrier, to the hand model the "
    "other theorems use (init_eq_model, transform1dGridGen_eq: what the driver runs = what the theorems are about); the acceptance window "
    "with the regenerated constant (init_accepts_iff: accepted iff lo <= hi and every node in [lo - 1/10^7, hi + 1/10^7]; one node d outside: "
    "iff d <= 1/10^7) and the same window seen through the map (transform_accepts_iff: accepted iff every image lies within 1/10^7 of the "
    "ordered image of the old ends; linear_slack_above / _below: under LinearFiniteRTransform a node d outside [-1, 1] is accepted iff "
    "d (rmax - rmin)/2 <= 1/10^7)."
)
TECHNIQUE = ("Lean 4 / Mathlib proof (list algebra, order, interval-integral substitution, polynomial composition) over "
             "definitions translated from the Python AST + differential run of the Float model + oracle on the implementation "
             "(mpmath.quad, exact rationals, sign and containment checks)")
GEN = ["rtransform", "transform1d", "onedgrid_init"]
LEAN_MODULES = ["GridVerif.Props.C04.General", "GridVerif.Props.C04.Concrete", "GridVerif.Props.C04.Extended", "GridVerif.Props.C04.Constructor", "GridVerif.Props.C04.Formulas"]
THEOREMS = [f"GridVerif.C04.{t}" for t in [
    "integrate_transformed_signed", "integrate_transformed_partial", "integrate_transformed_decreasing",
    "reflection_midpoint1", "integrate_transformed_fails_at",
    "weights_nonneg_partial", "weights_nonneg_fails_at", "weights_neg_of_decreasing",
    "integral_pos_partial", "integral_nonneg_partial", "integral_pos_fails_at",
    "domain_guard", "domain_ordered_image", "nodes_in_domain", "transform_accepts_of_monotone",
    "multiexp_negative_weights", "multiexp_integral_neg", "integrate_transformed_fails_at_multiexp",
    "gl_linear_exact", "linearFinite_accepts",
]] + [f"GridVerif.C04.Ext.{t}" for t in ["sort2_of_le", "sort2_of_lt", "sort2_nan_right", "sort2_nan_left", "sort2_ordered", "transform1dGrid_ok_x", "domain_sorted_image_x", "domain_ordered_image_x", "domain_nan_of_image_nan", "nodes_in_domain_x", "hyperbolic_transform_posInf", "hyperbolic_domain_nan", "hyperbolic_accepts_halfLine2", "hyperbolic_domain_fails_at", "hyperbolic_domain_partial", "identity_halfline", "linearInfinite_transform_posInf", "linearInfinite_halfline", "becke_transform_fin", "becke_transform_one", "becke_domain", "becke_nodes_in_domain_untrimmed", "becke_nodes_in_domain_trimmed", "multiExp_domain",
    "inverse_becke_transform_posInf", "inverse_becke_domain_nan"]] + [     # round 2: the domain clauses on XReal (exact reals + IEEE inf/nan)
    # round 3: OneDGrid.__init__ generated statement by statement, its 1e-7 window alone and seen through a transform
    f"GridVerif.C04.Ctor.{t}" for t in ["init_eq_model", "init_ndim", "transform1dGridGen_eq", "init_accepts_iff", "init_ok_eq", "init_window_below",
                                        "init_window_above", "transform_accepts_iff", "linear_slack_above", "linear_slack_below"]] + [
    # round 6: the generated half-line maps are the documented formula for every argument, also beyond b; nodes / weights of the new grid node by node
    f"GridVerif.C04.Formulas.{t}" for t in ["linearInfinite_transform_formula", "linearInfinite_beyond_b", "linearInfinite_deriv_is_slope",
                                            "linearInfinite_transform_deriv_consistent", "exp_transform_formula", "power_transform_formula",
                                            "linearInfinite_grid_nodes", "linearInfinite_grid_weights"]]
RULE = (
    "correspondence: one evaluation = one call tf.transform_1d_grid(grid) (or OneDGrid(points, weights, domain)) made on the "
    "implementation and on the Lean model at Float; grid = one of 24 rule classes x npoints (smallest admissible, odd, even, "
    "up to 40; thorough up to 120) or a slice of it or a hand-built OneDGrid on a sub-interval / sticking out of the "
    "transform's domain / without domain; tf = one of 11 transform classes with random admissible parameters (integer and "
    "non-integer exponents, trim on/off) or InverseRTransform of it applied to the grid it produced; pairs with mismatching "
    "domains are included (both sides must reject); compared: error kind, every new point and weight (rtol 1e-9), the new "
    "domain. Non-trivial = at least 2 points and (a transform other than the identity with random parameters, or a rejected "
    "input). Round 2: plus scripts of several transform objects x several grid objects x a sequence of calls on shared objects (same "
    "grid twice, another transform in between, rebuilt objects, the caller editing a grid in place, b of LinearInfinite/Exp/Power left "
    "open and inferred from the first array), hand-built grids with nodes in any order / repeated / on the ends / within the 1e-7 slack "
    "outside, negative and zero weights, float32 / int64 / read-only / strided arrays, parameters as Python int / np.int64 / np.float32 / "
    "np.float64, exponents 0.5..8, every class also wrapped in InverseRTransform on sub-intervals of its codomain, maps without inverse "
    "(ZeroDivisionError), n up to 1001 (thorough); compared in addition: the caller's grid is unchanged, b of the object = maximum of "
    "the first array; the concrete instances of the XReal theorems (rules on (0, inf), images at inf / 1e16, the nan domain) replayed on "
    "the implementation, and the table of IEEE special-value operations that XReal encodes evaluated with NumPy. Round 3 (c04_r3.py): every "
    "threshold of the anchored code sampled on both sides at the factors 1.01 and 100 — the 1e-7 slack of the new grid seen through the map "
    "(image s*d outside, s = slope: increasing / decreasing LinearFinite, Becke at x = -1, LinearInfinite at 0, InverseRTransform(LinearFinite)), "
    "the trimming constant 1e16 (largest finite image at 1e16 * {0.01, 1/1.01, 1.01, 100}: nodes k ulp from the pole and TanhSinh(61..81) as "
    "they are, Becke / Handy / Knowles / MultiExp, trim on and off, compared without the both-huge shortcut), the domain guard (grid domain one "
    "ulp / 1e-9 / 1e-7/1.01 / 1e-5 inside and outside, -0.0, subnormal, InverseRTransform's codomain), abs(b) < 1e-16 of the inferred b; "
    "OneDGrid.__init__ as generated (op C04.onedgrid_nd: points.ndim 0..3, the window at lo / hi of magnitude 1 ... 65536, reversed / empty / "
    "nan / length mismatch); weights scaled by 1e-300 ... 1e12, nodes 1e-300 ... 1e12 and one ulp from the ends, scale parameters 1e-12 ... "
    "1e12, intervals of width 1e-12; compositions of two and three transforms (rule / hand-built / one-node / nodes-on-the-ends grid -> "
    "LinearFinite onto a strict sub-interval, either orientation -> any finite-domain class -> a half-line class or an InverseRTransform), "
    "every stage against the model; the GRID handed to transform_1d_grid with points of dtype int64 / int32 / bool / float32, weights of those dtypes, "
    "read-only / strided / negative-stride arrays, for every transform class plain and through InverseRTransform (integer-valued parameters, "
    "LinearFinite of odd width), compared with the model at the float64 values. Round 4 (c04_r4.py): every class that takes a rule with an infinite "
    "domain end (Identity / LinearInfinite / Exp / Power / Hyperbolic; InverseRTransform of Becke / Handy / Knowles / MultiExp, trim on and off, and of "
    "Identity) x every half-infinite rule and hand-built grids on (lo, inf) x (rmin, rmax) below 1 / up to 1 / straddling 1 / from 1 / above 1 / "
    "(0.9, 1.1) / (1e-3, 1e3) x b in {0.5, 1, 4, left open}; half-infinite rules with 21 ... 81 nodes (nodes up to 1e300); one- and two-node grids through "
    "every class and the size guard of Hyperbolic at b (n - 1) = {0.5, 1/1.01, 1, 1.01, 2}: all against the model; the oracle asserts on every one of them, "
    "without a reference map, that an accepted grid has a nan-free ordered domain containing every new node (the two listed nan-domain findings under their keys). "
    "Round 5 (c04_r5.py): explicit parameters on grids with nodes at b/2, b (1 -+ 1e-9), b, 1.01 b, 2 b, 100 b, at and next to the ends of [-1, 1], of the "
    "codomain of every inverse and next to the pole of Hyperbolic; one transform object (b open / given, finite, Identity, Hyperbolic) on two and three different "
    "grids in sequence, small first and large first; grids of 1025 nodes (oracle: 4097 / 20001 / 65537, thorough 524289). The oracle judges all of them, and a sample "
    "of the round-2 scripts, against the maps as documented (closed forms written down in the harness, nothing of the library evaluated for the reference)."
)
TRUSTED_BASE = [
    "Lean 4.33 kernel; Mathlib; axioms propext, Classical.choice, Quot.sound only (audited per theorem)",
    "translator harness/translate/transform1d.py (Python AST of transform_1d_grid -> Lean text) and rtransform.py (closed forms of the classes)",
    "translator harness/translate/onedgrid_init.py (Python AST of OneDGrid.__init__ -> Gen/OneDGridInit.lean) and its vocabulary Model/OneDGridBase.lean "
    "(len(domain) of a pair = 2; Grid.__init__ = the length check for 1-D arrays; np.min / np.max of Model/Transform1DBase.lean)",
    "hand model Model/Transform1D.lean (order of checks, np.min/np.max/np.sort of two elements), tied by correspondence; its OneDGrid constructor with the "
    "1e-7 slack is proved equal to the regenerated one (round 3)",
    "Elem instance at ℝ (Lemmas/ElemReal.lean); HasInf ℝ (no real is infinite)",
    "XReal (Lemmas/XReal.lean): the reading of IEEE-754 special values over exact reals (x/0 = +-inf, 0/0 = inf-inf = 0*inf = inf/inf = nan, "
    "every comparison with nan false, np.sort puts nan last); tied to NumPy by a table of special-value operations evaluated on every run",
    "statements in Props/C04/*.lean and their reading of the property (rule sum, |r'| as the magnitude of the Jacobian, finite grid domains in the theorems)",
    "Lean compiler/runtime for the Float instance (driver), libm vs numpy (rtol 1e-9)",
]
ASSUMPTIONS = [
    "IEEE rounding is not modelled: equalities are over ℝ, the correspondence uses rtol 1e-9",
    "General.lean / Concrete.lean speak about grids with a finite domain over the reals; rules on (0, inf), infinite images (+-inf, 1e16 after "
    "trimming) and the nan domain are covered by Extended.lean on XReal, whose arithmetic on finite values is exact (no rounding, no overflow) and "
    "which has one unsigned zero; the IEEE reading it encodes is compared with NumPy on every run (c04_ext)",
    "Gauss-Legendre exactness on [-1,1] is a hypothesis of gl_linear_exact (numpy.polynomial.legendre.leggauss is not verified); the oracle checks the transported exactness with exact rationals",
    "input grids satisfy len(points) == len(weights) (invariant of Grid.__init__)",
]

FINDING_KEY = "rtransform.transform_1d_grid:decreasing-map"
HYP_KEY = "rtransform.transform_1d_grid:HyperbolicRTransform:domain-nan"

FINITE_TF = ["BeckeRTransform", "LinearFiniteRTransform", "MultiExpRTransform", "KnowlesRTransform", "HandyRTransform",
             "HandyModRTransform"]
INF_TF = ["IdentityRTransform", "LinearInfiniteRTransform", "ExpRTransform", "PowerRTransform", "HyperbolicRTransform"]
HAS_TRIM = {"BeckeRTransform", "MultiExpRTransform", "KnowlesRTransform", "HandyRTransform", "HandyModRTransform"}

# rule class -> (kind of domain, admissible npoints predicate)
FINITE_RULES = {
    "GaussLegendre": lambda n: n >= 2, "GaussChebyshev": lambda n: n >= 2, "GaussChebyshevType2": lambda n: n >= 1,
    "GaussChebyshevLobatto": lambda n: n >= 2, "Trapezoidal": lambda n: n >= 2,
    "RectangleRuleSineEndPoints": lambda n: n >= 2, "TanhSinh": lambda n: n >= 3 and n % 2 == 1,
    "Simpson": lambda n: n >= 3 and n % 2 == 1, "MidPoint": lambda n: n >= 2, "ClenshawCurtis": lambda n: n >= 2,
    "FejerFirst": lambda n: n >= 2, "FejerSecond": lambda n: n >= 2, "TrefethenCC": lambda n: n >= 2,
    "TrefethenGC2": lambda n: n >= 1, "TrefethenStripCC": lambda n: n >= 2, "TrefethenStripGC2": lambda n: n >= 1,
    "SingleTanh": lambda n: n >= 1 and n % 2 == 1,
}
INF_RULES = {
    "GaussLaguerre": lambda n: n >= 2, "UniformInteger": lambda n: n >= 2, "ExpSinh": lambda n: n % 2 == 1,
    "LogExpSinh": lambda n: n % 2 == 1, "ExpExp": lambda n: n % 2 == 1, "SingleExp": lambda n: n % 2 == 1,
    "SingleArcSinhExp": lambda n: n % 2 == 1,
}


# ----------------------------------------------------------------------------
# round 4: crash-proof stages.  Every independent part of `corr` / `oracle` / `oracle_at` runs inside `with part(ctx, name, stage)`:
# an exception ends that part only.  Raised inside the library (innermost frame under src/grid) -> a failure `<key>:raises` with the
# traceback (the implementation raised something the harness does not expect inside the envelope); raised by the harness / driver ->
# kept, the remaining parts still run, the first one is re-raised at the end of the stage (`reraise_pending`).
# ----------------------------------------------------------------------------
_PENDING = {"corr": [], "oracle": [], "oracle_at": []}


def _library_frame(tb):
    import traceback
    frames = traceback.extract_tb(tb)
    if frames and "/src/grid/" in frames[-1].filename.replace("\\", "/") and "/tests/" not in frames[-1].filename:
        f = frames[-1]
        return f"{f.filename.split('/src/grid/')[-1]}:{f.lineno} in {f.name}"
    return None


class part:
    def __init__(self, ctx, name, stage="oracle"):
        self.ctx, self.name, self.stage = ctx, name, stage

    def __enter__(self):
        return self

    def __exit__(self, et, ev, tb):
        import traceback
        if ev is None or not isinstance(ev, Exception):
            return False
        where = _library_frame(tb)
        text = "".join(traceback.format_exception(et, ev, tb))[-2500:]
        if where is not None:
            self.ctx.fail("corr" if self.stage == "corr" else "oracle", f"rtransform.transform_1d_grid:{self.name.split(':')[0]}:raises",
                          f"part '{self.name}' of the {self.stage}: the library raised {et.__name__}: {ev} at {where}", witness=text)
        else:
            _PENDING[self.stage].append(ev)
            self.ctx.info(f"part '{self.name}' of the {self.stage} raised {et.__name__}: {ev} (harness side; the other parts still ran)")
        self.ctx.tagc(f"{self.stage}:part-raised")
        return True


def reraise_pending(stage):
    if _PENDING[stage]:
        e = _PENDING[stage][0]
        _PENDING[stage].clear()
        raise e


def rt():
    return importlib.import_module("grid.rtransform")


def og():
    return importlib.import_module("grid.onedgrid")


def OneDGrid():
    return importlib.import_module("grid.basegrid").OneDGrid


# ----------------------------------------------------------------------------
# generators
# ----------------------------------------------------------------------------
def _expo(rng):
    u = rng.random()
    if u < 0.35:
        return rng.choice([1, 2, 3, 4, 5, 6, 8])
    if u < 0.5:
        return rng.choice([0.5, 1.5, 2.5, 3.5, 4.5, 7.5])
    return round(rng.uniform(0.5, 8.0) if rng.random() < 0.4 else rng.uniform(0.5, 4.5), rng.choice([1, 2, 5]))


def gen_params(cls, rng, npts=10):
    """-> (positional numeric constructor arguments, trim flag)"""
    rmin = rng.choice([0.0, 1e-3, 0.1, round(rng.uniform(0.0, 2.0), 3)])
    R = rng.choice([0.5, 1.0, 1.5, round(rng.uniform(0.1, 5.0), 3)])
    trim = rng.random() < 0.6
    if cls in ("BeckeRTransform", "MultiExpRTransform"):
        return [rmin, R], trim
    if cls == "LinearFiniteRTransform":
        if rng.random() < 0.12:      # the constructor admits rmin > rmax: a decreasing linear map
            return [rmin + round(rng.uniform(0.5, 20.0), 3), rmin], False
        return [rmin, rmin + round(rng.uniform(0.5, 20.0), 3)], False
    if cls == "IdentityRTransform":
        return [], False
    if cls in ("LinearInfiniteRTransform", "ExpRTransform", "PowerRTransform"):
        if cls != "LinearInfiniteRTransform" and rmin == 0.0:
            rmin = 1e-2
        return [rmin, rmin + round(rng.uniform(0.5, 20.0), 3), rng.choice([1.0, 10.0, float(max(npts - 1, 1)),
                                                                           round(rng.uniform(0.5, 50.0), 2)])], False
    if cls == "HyperbolicRTransform":
        top = 1.0 / max(npts - 1, 1)
        b = round(rng.uniform(0.05, 0.99) * top, 5) if rng.random() < 0.8 else round(rng.uniform(1.0, 3.0) * top, 5)
        return [round(rng.uniform(0.1, 5.0), 3), max(b, 1e-5)], False
    if cls in ("KnowlesRTransform", "HandyRTransform"):
        return [rmin, R, _expo(rng)], trim
    if cls == "HandyModRTransform":
        m = _expo(rng)
        return [rmin, rmin + 2.0 ** m - 1 + round(rng.uniform(0.2, 30.0), 3), m], trim
    raise KeyError(cls)


def construct(cls, ps, trim):
    C = getattr(rt(), cls)
    if cls in HAS_TRIM:
        return C(*ps, trim_inf=bool(trim))
    if cls in ("LinearInfiniteRTransform", "ExpRTransform", "PowerRTransform"):
        return C(ps[0], ps[1], b=ps[2])
    return C(*ps)


def pick_n(ok, rng, hi):
    u = rng.random()
    cands = [n for n in range(1, hi + 1) if ok(n)]
    if u < 0.35:
        return rng.choice(cands[:4])
    return rng.choice(cands)


def make_rule(name, n):
    return getattr(og(), name)(n)


def _dom(d):
    return None if d is None else (float(d[0]), float(d[1]))


def _line(inv, cls, ps, trim, tfdom, g):
    d = _dom(g.domain)
    return (f"C04.transform {1 if inv else 0} {cls} {1 if trim else 0} {fvec([float(p) for p in ps])} "
            f"{f2b(tfdom[0])} {f2b(tfdom[1])} "
            + (f"1 {f2b(d[0])} {f2b(d[1])} " if d is not None else f"0 {f2b(0.0)} {f2b(0.0)} ")
            + f"{fvec(g.points)} {fvec(g.weights)}")


def _impl(tf, g, keyword=False):
    try:
        h = tf.transform_1d_grid(oned_grid=g) if keyword else tf.transform_1d_grid(g)
    except ValueError:
        return "value-error", None
    except ZeroDivisionError:
        return "zero-division-error", None
    except TypeError:
        return "type-error", None
    except Exception as e:      # noqa: BLE001 - an unexpected kind of exception is a disagreement with the model, not a crash of the harness
        return type(e).__name__, None
    return "ok", h


def _parse(ans):
    t = Tokens(ans)
    if t.tok() != "ok":
        return ans.strip(), None
    pts = t.fvec()
    wts = t.fvec()
    has = t.nat()
    lo, hi = t.flt(), t.flt()
    return "ok", (pts, wts, (lo, hi) if has else None)


def _same(a, b, rtol=1e-9, atol=1e-300, huge=True):
    """Floats agree (`huge=False`: also in the blow-up regime, round 3 threshold cases); values in the blow-up regime of an infinite end point (|v| > 1e12: `2**k - (1+x)**k` at x = 1 is 0
    with one pow routine and a few ulp with two, then trimmed to 1e16 or not) only have to be huge with the same sign."""
    a, b = float(a), float(b)
    if huge and rtol > 0 and abs(a) > 1e12 and abs(b) > 1e12 and (a > 0) == (b > 0):
        return True
    return close(a, b, rtol=rtol, atol=atol)


def _conditioning(tf, g, base=None, eps=2.220446049250313e-16):
    """Per-node slack for conditioning-limited nodes: how far the implementation's own transform / deriv move when
    the node moves by a few ulp of 1 + |x| (nodes of the double-exponential rules sit 1e-12 from an end point where the
    maps blow up; a rounding difference between two pow/log routines is amplified by the same factor).
    For `InverseRTransform(base)` the rounding that matters is that of the intermediate `x = base.inverse(r)`."""
    r = np.asarray(g.points, dtype=float)
    eps8 = 8 * eps

    def spread(T, D, x):
        hstep = eps8 * (1 + np.abs(x))       # a relative rounding error of 1 + x, amplified
        t0, d0 = T(x), D(x)
        tp = np.max([np.abs(T(y) - t0) for y in (x + hstep, x - hstep)], axis=0)
        dd = np.max([np.abs(D(y) - d0) for y in (x + hstep, x - hstep)], axis=0)
        return np.where(np.isfinite(tp), tp, np.inf), np.where(np.isfinite(dd), dd, np.inf), np.abs(d0)

    with np.errstate(all="ignore"):
        try:
            tp, dd, d0 = spread(tf.transform, lambda y: tf.deriv(y) * np.ones_like(y), r)
            if base is not None:
                _, dd2, _ = spread(lambda y: y, lambda y: 1.0 / (base.deriv(y) * np.ones_like(y)), base.inverse(r))
                dd = np.maximum(dd, dd2)
        except Exception:      # noqa: BLE001 - whatever the methods raise here: no slack, the comparison itself will tell
            return None
        dp = np.where(4 * dd < 0.25 * d0, 4 * dd * np.abs(g.weights), np.inf)
    return 4 * tp, np.where(np.isfinite(dp), dp, np.inf)


_STATS = {"limited": 0, "compared": 0}


def _compare(tag, h, ans, rtol=1e-9, cond=None, strict=False):
    """-> None if implementation result (tag, h) and driver answer agree, else a description"""
    mtag, m = _parse(ans)
    if tag != mtag:
        return f"implementation: {tag}, model: {mtag}"
    if tag != "ok":
        return None
    pts, wts, dom = m
    if len(pts) != h.size or len(wts) != h.size:
        return f"sizes differ: implementation {h.size}, model {len(pts)}/{len(wts)}"
    def limited(slack, v):      # the slack is not finite or as large as the value itself: the node carries no information
        lim = cond is not None and (not math.isfinite(slack) or slack >= 0.25 * abs(float(v)) > 0)
        _STATS["limited" if lim else "compared"] += 1
        return lim

    for i in range(h.size):
        # a node mapped (back) to 0 is a difference of O(1) numbers: absolute tolerance on points and domain
        if not limited(cond[0][i] if cond else 0.0, h.points[i]) and \
                not _same(h.points[i], pts[i], rtol, atol=rtol + (cond[0][i] if cond else 0.0), huge=not strict):
            return f"point {i}: implementation {float(h.points[i])!r}, model {pts[i]!r}"
        if not limited(cond[1][i] if cond else 0.0, h.weights[i]) and \
                not _same(h.weights[i], wts[i], rtol, atol=1e-300 + (cond[1][i] if cond else 0.0), huge=not strict):
            return f"weight {i}: implementation {float(h.weights[i])!r}, model {wts[i]!r}"
    d = _dom(h.domain)
    if (d is None) != (dom is None):
        return f"domain: implementation {d}, model {dom}"
    if d is not None and not (_same(d[0], dom[0], rtol, atol=rtol, huge=not strict) and _same(d[1], dom[1], rtol, atol=rtol, huge=not strict)):
        return f"domain: implementation {d}, model {dom}"
    return None


# ----------------------------------------------------------------------------
# round 2 — scripts: several transform objects x several grid objects x a sequence of calls made in one process.
# The same script is (a) run against the Lean model call by call (correspondence, `_corr_scripts`) and
# (b) judged by the property itself (`c04_check_script`, oracle and `oracle_at`).  PROP_SRC is source text so that
# the replay snippet of a failing script is self-contained.
# ----------------------------------------------------------------------------
B_CLS = ("LinearInfiniteRTransform", "ExpRTransform", "PowerRTransform")
EXPO_LIST = [3, 2.5, 4, 0.5, 5, 3.5, 8, 1.5, 6, 7.5, 2, 1]      # integers >= 3 and half-integers come first

PROP_SRC = r'''
C04_HAS_TRIM = ("BeckeRTransform", "MultiExpRTransform", "KnowlesRTransform", "HandyRTransform", "HandyModRTransform")
C04_B_CLS = ("LinearInfiniteRTransform", "ExpRTransform", "PowerRTransform")


def c04_build_tf(rt, spec):
    """The implementation's transform object described by spec = {cls, ps, trim, inv, b_none, ptypes}."""
    import numpy as np
    cast = {"float": float, "int": int, "np.float64": np.float64, "np.int64": np.int64, "np.float32": np.float32}
    cls, ps = spec["cls"], list(spec["ps"])
    args = [cast[t](p) for p, t in zip(ps, spec.get("ptypes") or ["float"] * len(ps))]
    C = getattr(rt, cls)
    if cls in C04_HAS_TRIM:
        T = C(*args, trim_inf=bool(spec.get("trim")))
    elif cls in C04_B_CLS:
        T = C(args[0], args[1]) if spec.get("b_none") else C(args[0], args[1], b=args[2])
    else:
        T = C(*args)
    return rt.InverseRTransform(T) if spec.get("inv") else T


def c04_build_grid(OneDGrid, spec):
    """OneDGrid described by spec = {points, weights, domain, pdtype, wdtype, layout}."""
    import numpy as np

    def arr(vals, dt, layout):
        a = np.array(vals, dtype=dt)
        if layout == "strided":                 # a non-contiguous view
            big = np.zeros(2 * a.size + 1, dtype=dt)
            big[1::2] = a
            a = big[1::2]
        elif layout == "negstride":             # a view with negative stride
            a = np.array(a[::-1])[::-1]
        elif layout == "readonly":
            a.setflags(write=False)
        return a
    d = spec["domain"]
    lay = spec.get("layout", "plain")
    if lay == "same-array":                     # one array object is both the points and the weights
        a = arr(spec["points"], spec.get("pdtype", "float64"), "plain")
        return OneDGrid(a, a, None if d is None else tuple(d))
    return OneDGrid(arr(spec["points"], spec.get("pdtype", "float64"), lay),
                    arr(spec["weights"], spec.get("wdtype", "float64"), lay), None if d is None else tuple(d))


def c04_check_script(script, rt, OneDGrid, HP, hp_call, mpmath, slack=1e-7, max_nodes=48):
    """Property C04 evaluated on the implementation for every call of `script`, made in order, in this process, on
    shared objects: script = {"tfs": [spec...], "grids": [spec...], "calls": [[tf index, grid index]...]}.
    Reference: the map r(x) is the transform object's own `transform` (`inverse` of the wrapped object for
    InverseRTransform) run in 40-digit arithmetic with the parameters of the specification (b of
    LinearInfinite/Exp/Power left open = maximum of the first array that object transformed); new points = r(x_i) in
    the order of the input; new weights = |r'(x_i)| w_i with r' = mpmath.diff of r; new domain = ordered image of the old
    ends, containing every node up to the 1e-7 slack of OneDGrid; the caller's grid is unchanged by the call.
    -> list of (kind, index of the call, message)"""
    import numpy as np
    dps = mpmath.mp.dps
    mpmath.mp.dps = 40
    try:
        with np.errstate(all="ignore"):
            return _c04_check(script, rt, OneDGrid, HP, hp_call, mpmath, slack, max_nodes)
    finally:
        mpmath.mp.dps = dps


def _c04_check(script, rt, OneDGrid, HP, hp_call, mpmath, slack, max_nodes):
    import numpy as np
    mpf = mpmath.mpf
    out = []
    tfs = [c04_build_tf(rt, s) for s in script["tfs"]]
    grids = [c04_build_grid(OneDGrid, s) for s in script["grids"]]
    bref = [None] * len(tfs)

    def twin(spec, b):
        cls = spec["cls"]
        C = getattr(rt, cls)
        args = [HP(float(p)) for p in spec["ps"]]
        if cls in C04_HAS_TRIM:
            return C(*args, trim_inf=bool(spec.get("trim")))
        if cls in C04_B_CLS:
            return C(args[0], args[1], b=HP(float(b)))
        return C(*args)

    def diff(f, x, order=1):
        for kw in ({}, {"direction": 1}, {"direction": -1}):
            try:
                d = mpmath.diff(f, mpf(x), order, **kw)
            except Exception:
                continue
            if isinstance(d, mpf) and mpmath.isfinite(d):
                if kw:      # one-sided (an end of the natural domain): the derivative may be infinite there; two step sizes tell
                    try:
                        da = mpmath.diff(f, mpf(x), order, h=mpf(10) ** -10, **kw)
                        db = mpmath.diff(f, mpf(x), order, h=mpf(10) ** -14, **kw)
                    except Exception:
                        return None
                    if not (mpmath.isfinite(da) and mpmath.isfinite(db) and abs(da - db) <= 1e-3 * abs(db) + mpf(10) ** -25):
                        return None
                return d
        return None

    def same(a, e, scale):
        if mpmath.isnan(e):
            return a != a
        if mpmath.isinf(e) or abs(e) >= 1e15:
            return abs(a) > 1e12 and (a > 0) == (e > 0)
        return a == a and abs(mpf(a) - e) <= 1e-9 * max(1, abs(e), scale)

    for ci, call in enumerate(script["calls"]):
        if call[0] == "edit":       # ["edit", grid index, points, weights]: the caller edits the arrays of a grid in place
            g = grids[call[1]]
            g.points[...] = np.array(call[2], dtype=g.points.dtype)
            if g.weights is not g.points:
                g.weights[...] = np.array(call[3], dtype=g.weights.dtype)
            continue
        ti, gi = call
        spec, T, g = script["tfs"][ti], tfs[ti], grids[gi]
        cls, inv = spec["cls"], bool(spec.get("inv"))
        name = "%s(%s)" % (cls, ", ".join([repr(p) for p in spec["ps"]] + (["b=None"] if spec.get("b_none") else [])
                                          + (["trim_inf=%s" % bool(spec.get("trim"))] if cls in C04_HAS_TRIM else [])))
        name = "InverseRTransform(%s)" % name if inv else name
        xs, ws = [float(v) for v in g.points], [float(v) for v in g.weights]
        where = "call %d, %s.transform_1d_grid(OneDGrid(%r, %r, %r))" % (ci, name, xs[:6] + (["..."] if len(xs) > 6 else []),
                                                                         ws[:6] + (["..."] if len(ws) > 6 else []), g.domain)
        before = (g.points.copy(), g.weights.copy(), g.domain)
        try:
            h, tag = T.transform_1d_grid(g), "ok"
        except Exception as e:      # any kind: reported as a rejection that has no reason
            h, tag = None, type(e).__name__
        if not (g.points.dtype == before[0].dtype and g.weights.dtype == before[1].dtype and g.domain == before[2]
                and np.array_equal(g.points, before[0], equal_nan=True) and np.array_equal(g.weights, before[1], equal_nan=True)):
            out.append(("input-modified", ci, where + ": the caller's grid was changed by the call: weights %r -> %r, points %r -> %r"
                        % (ws[:4], [float(v) for v in g.weights[:4]], xs[:4], [float(v) for v in g.points[:4]])))
        if g.domain is None:
            continue        # no statement of the property (the code fails with TypeError at oned_grid.domain[0])
        glo, ghi = float(g.domain[0]), float(g.domain[1])
        tlo, thi = float(T.domain[0]), float(T.domain[1])
        if glo < tlo or ghi > thi:
            if tag == "ok":
                out.append(("guard", ci, where + ": the grid's domain sticks out of the transform's domain (%r, %r) but a grid was returned" % (tlo, thi)))
            continue
        n = len(xs)
        b = None
        if cls in C04_B_CLS:
            if spec.get("b_none"):
                if bref[ti] is None:
                    if n == 0 or abs(max(xs)) < 1e-16:
                        if tag == "ok":
                            out.append(("b-zero", ci, where + ": b cannot be inferred (maximum of the points is zero) but a grid was returned"))
                        continue
                    bref[ti] = max(xs)
                b = bref[ti]
                got_b = (T._tfm if inv else T).b
                if got_b is None or float(got_b) != b:
                    out.append(("b-state", ci, where + ": parameter b of the object is %r, the maximum of the first array it transformed is %r" % (got_b, b)))
            else:
                b = spec["ps"][2]
        Th = twin(spec, b)
        meth = "inverse" if inv else "transform"

        def rmap(x):
            try:
                v = hp_call(Th, meth, x)
            except Exception:
                return mpf("nan")
            return v if isinstance(v, mpf) else mpf("nan")
        pscale = max([1.0] + [abs(float(p)) for p in spec["ps"] if abs(float(p)) < 1e300])
        if tag != "ok":
            legit = None
            if cls == "HyperbolicRTransform" and (spec["ps"][1] * (n - 1) >= 1.0 or spec["ps"][1] >= 1.0):
                legit = "size guard of HyperbolicRTransform"
            elif cls == "HyperbolicRTransform" and not inv and any(x * spec["ps"][1] >= 1.0 for x in xs):
                legit = "node beyond the pole 1/b"
            elif any(x < glo or x > ghi or x != x for x in xs):
                legit = "node outside the grid's own domain"
            elif cls in C04_HAS_TRIM and spec.get("trim") and not inv and tag == "ValueError" and \
                    any(mpmath.isfinite(v) and abs(v) > 1e16 for v in [rmap(x) for x in xs]):
                big = max(abs(v) for v in [rmap(x) for x in xs] if mpmath.isfinite(v))
                out.append(("trim-overflow", ci, where + ": raised ValueError although the domains match: a node has the finite image %s, above the "
                            "1e16 that replaces the infinite end of the new domain" % mpmath.nstr(big, 8)))
                continue
            elif tag == "ZeroDivisionError" and inv:
                dlo, dhi = float(T._tfm.domain[0]), float(T._tfm.domain[1])
                dhi = dhi if abs(dhi) < 1e300 else dlo + 1.0
                probe = [hp_call(Th, "transform", t) for t in (dlo + 0.25 * (dhi - dlo), dlo + 0.5 * (dhi - dlo), dlo + 0.75 * (dhi - dlo))]
                if probe[0] == probe[1] == probe[2]:
                    legit = "wrapped map is constant"
                else:
                    for x in xs:
                        pre = rmap(x)
                        d = diff(lambda y: hp_call(Th, "transform", y), pre) if mpmath.isfinite(pre) else None
                        if d is None or abs(d) < 1e-8 * pscale:
                            legit = "wrapped first derivative vanishes at a node"
                            break
            if legit is None:
                out.append(("rejected", ci, where + ": raised %s although the grid's domain lies in the transform's domain (%r, %r) and every "
                            "node lies in the grid's domain" % (tag, tlo, thi)))
            continue
        if inv:
            dlo, dhi = float(T._tfm.domain[0]), float(T._tfm.domain[1])
            dhi = dhi if abs(dhi) < 1e300 else dlo + 1.0
            probe = [hp_call(Th, "transform", t) for t in (dlo + 0.25 * (dhi - dlo), dlo + 0.5 * (dhi - dlo), dlo + 0.75 * (dhi - dlo))]
            if probe[0] == probe[1] == probe[2]:
                if not (np.all(np.isnan(h.points)) or np.all(np.isnan(h.weights))):
                    out.append(("zero-deriv-accepted", ci, where + ": the wrapped map is constant (no inverse) but a grid with numbers was returned: points %r" % ([float(v) for v in h.points[:4]],)))
                continue
        if h.size != n or len(h.weights) != n:
            out.append(("size", ci, where + ": %d nodes in, %d points / %d weights out" % (n, h.size, len(h.weights))))
            continue
        u = 6e-8 if g.points.dtype == np.float32 else 2.3e-16
        rt_p, rt_w = max(1e-9, 64 * u), max(1e-7, 4096 * u)      # float32 nodes: 2.5e-4 (the flat end of an inverse amplifies the single-precision rounding)
        idx = list(range(n)) if n <= max_nodes else sorted(set(int(round(k * (n - 1) / (max_nodes - 1))) for k in range(max_nodes)))
        seen = set()
        for i in idx:
            x, w = xs[i], ws[i]
            r = rmap(x)
            gp, gw = float(h.points[i]), float(h.weights[i])
            if mpmath.isnan(r):
                continue
            if mpmath.isinf(r) or abs(r) >= 1e15:
                if not (abs(gp) > 1e12 and (gp > 0) == (r > 0)) and "points" not in seen:
                    seen.add("points")
                    out.append(("points", ci, where + ": new point %d is %r, r(%r) = %s" % (i, gp, x, mpmath.nstr(r, 8))))
                continue
            d1 = diff(rmap, x)
            cond = abs(d1) * 16 * u * (1 + abs(x)) if d1 is not None else 0
            if not (gp == gp and abs(mpf(gp) - r) <= rt_p * max(1, abs(r), pscale) + cond) and "points" not in seen:
                seen.add("points")
                out.append(("points", ci, where + ": new point %d is %r, the map of this transform object gives r(%r) = %s" % (i, gp, x, mpmath.nstr(r, 17))))
            if d1 is None or abs(d1) >= 1e15:
                continue
            want = abs(d1) * mpf(w)
            tol = rt_w * abs(want) + mpf(10) ** -25 * pscale * abs(w) + mpf(10) ** -300        # second term: noise floor of mpmath.diff
            if not (gw == gw and abs(mpf(gw) - want) <= tol):
                d2 = diff(rmap, x, 2)
                if d2 is not None:
                    tol += abs(d2) * 64 * u * (1 + abs(x)) * abs(w)
            if not (gw == gw and abs(mpf(gw) - want) <= tol):
                if d1 < 0 and gw == gw and abs(mpf(gw) + want) <= tol:
                    kind, why = "sign", " (the weight carries the sign of the decreasing map)"
                else:
                    kind, why = "weights", ""
                if kind not in seen:
                    seen.add(kind)
                    out.append((kind, ci, where + ": new weight %d is %r, |r'(x)| w = |%s| * %r = %s%s"
                                % (i, gw, mpmath.nstr(d1, 12), w, mpmath.nstr(want, 17), why)))
        lo_, hi_ = float(h.domain[0]), float(h.domain[1])
        ilo, ihi = rmap(glo), rmap(ghi)
        if lo_ != lo_ or hi_ != hi_:
            out.append(("domain-nan", ci, where + ": new domain (%r, %r) holds a nan (images of the old ends: %s, %s)" % (lo_, hi_, mpmath.nstr(ilo, 8), mpmath.nstr(ihi, 8))))
            continue
        if not lo_ <= hi_:
            out.append(("domain", ci, where + ": new domain (%r, %r) is not ordered" % (lo_, hi_)))
        if not (mpmath.isnan(ilo) or mpmath.isnan(ihi)):
            e = sorted([ilo, ihi])
            if not (same(lo_, e[0], pscale) and same(hi_, e[1], pscale)):
                out.append(("domain", ci, where + ": new domain (%r, %r), ordered image of the old ends (%s, %s)" % (lo_, hi_, mpmath.nstr(e[0], 17), mpmath.nstr(e[1], 17))))
        for i in range(n):
            gp = float(h.points[i])
            if gp == gp and abs(gp) < 1e300 and not (lo_ - slack - 1e-15 * abs(lo_) <= gp <= hi_ + slack + 1e-15 * abs(hi_)):
                out.append(("containment", ci, where + ": new node %d = %r lies outside the new domain (%r, %r) by more than the slack 1e-7" % (i, gp, lo_, hi_)))
                break
    return out
'''
_PROP_NS = {}
exec(PROP_SRC, _PROP_NS)
c04_check_script = _PROP_NS["c04_check_script"]

SNIPPET_SCRIPT = """
import warnings; warnings.filterwarnings('ignore')
import numpy as np
from grid import rtransform as rt
from grid.basegrid import OneDGrid
inf, nan = float('inf'), float('nan')
script = {script!r}
bad = [b for b in c04_check_script(script, rt, OneDGrid, HP, hp_call, mpmath, max_nodes={max_nodes}) if b[0] == {kind!r}]
assert not bad, bad[0][2]
"""

SNIPPET_CTOR = """import warnings; warnings.filterwarnings('ignore')
import numpy as np
from grid.basegrid import OneDGrid
inf, nan = float('inf'), float('nan')
points, weights, domain = np.array({points!r}, dtype=float), np.array({weights!r}, dtype=float), {domain!r}
try:
    OneDGrid(points, weights, domain); accepted = True
except ValueError:
    accepted = False
out = max([0.0] + [domain[0] - p for p in points] + [p - domain[1] for p in points])
if accepted:
    assert out <= 1.0000001e-7, f'OneDGrid accepted a node {{out}} outside its domain {{domain}} (slack of the domain check: 1e-7)'
else:
    assert out > 0 or domain[0] > domain[1] or len(points) != len(weights) or len(points) == 0, f'OneDGrid rejected nodes {{points}} inside the domain {{domain}}'
"""


def _hp():
    """the 40-digit number class and helpers of C03 (imported lazily: it sets mpmath's precision)"""
    return importlib.import_module("harness.props.c03" if __package__ is None else __package__ + ".c03")


def _plain(x):
    """numpy scalars -> Python numbers (infinities and nan stay floats, unlike common.jsonable)"""
    if isinstance(x, (list, tuple)):
        return [_plain(v) for v in x]
    if isinstance(x, np.ndarray):
        return [_plain(v) for v in x.tolist()]
    if isinstance(x, (bool, np.bool_)):
        return bool(x)
    if isinstance(x, (int, np.integer)):
        return int(x)
    if isinstance(x, (float, np.floating)):
        return float(x)
    return x


def _unjson(x):
    """inverse of common.jsonable on witnesses: the strings 'inf', '-inf', 'nan' are floats again"""
    if isinstance(x, dict):
        return {k: _unjson(v) for k, v in x.items()}
    if isinstance(x, list):
        return [_unjson(v) for v in x]
    if x in ("inf", "-inf", "nan"):
        return float(x)
    return x


def _spec_tf(cls, ps, trim=False, inv=False, b_none=False, ptypes=None):
    ps = _plain(list(ps))
    return {"cls": cls, "ps": ps, "trim": bool(trim), "inv": bool(inv), "b_none": bool(b_none),
            "ptypes": ptypes or ["int" if isinstance(p, int) else "float" for p in ps]}


def _spec_grid(points, weights, domain, pdtype=None, wdtype=None, layout="plain"):
    pdtype = pdtype or (str(points.dtype) if isinstance(points, np.ndarray) else "float64")
    wdtype = wdtype or (str(weights.dtype) if isinstance(weights, np.ndarray) else "float64")
    return {"points": _plain(points), "weights": _plain(weights), "domain": None if domain is None else _plain(list(domain)),
            "pdtype": pdtype, "wdtype": wdtype, "layout": layout}


def _spec_rule(name, n):
    g = make_rule(name, n)
    return _spec_grid(g.points, g.weights, g.domain)


def _tf_domain(spec):
    d = _PROP_NS["c04_build_tf"](rt(), spec).domain
    return float(d[0]), float(d[1])


def _int_params(cls, rng):
    """small integer-valued (Hyperbolic: dyadic) parameters: exact as Python int, np.int64, np.float32, np.float64"""
    if cls in ("BeckeRTransform", "MultiExpRTransform"):
        return [rng.choice([0, 1, 2]), rng.choice([1, 2, 3])]
    if cls == "LinearFiniteRTransform":
        a = rng.choice([0, 1, -1])
        return [a, a + rng.choice([1, 2, 5])]
    if cls in ("KnowlesRTransform", "HandyRTransform"):
        return [rng.choice([0, 1]), rng.choice([1, 2]), rng.choice([1, 2, 3, 4])]
    if cls == "HandyModRTransform":
        m = rng.choice([1, 2, 3, 4])
        rmin = rng.choice([0, 1])
        return [rmin, rmin + 2 ** m + rng.choice([1, 4, 10]), m]
    if cls == "IdentityRTransform":
        return []
    if cls in B_CLS:
        rmin = rng.choice([1, 2])
        return [rmin, rmin + rng.choice([1, 3, 10]), rng.choice([1, 2, 4, 8])]
    if cls == "HyperbolicRTransform":
        return [rng.choice([1, 2, 3]), rng.choice([0.0625, 0.03125, 0.015625])]
    raise KeyError(cls)


def _r2_params(cls, rng, k):
    """parameters with exponents over [0.5, 8] (EXPO_LIST[k]), rmin = 0 and large scale factors included"""
    rmin = rng.choice([0.0, 0.0, 1e-3, 0.5, 2.0])
    trim = rng.random() < 0.5
    if cls in ("BeckeRTransform", "MultiExpRTransform"):
        return [rmin, rng.choice([0.5, 1.5, 10.0, 1e3])], trim
    if cls in ("KnowlesRTransform", "HandyRTransform"):
        return [rmin, rng.choice([0.5, 1.5, 10.0, 1e3]), EXPO_LIST[k % len(EXPO_LIST)]], trim
    if cls == "HandyModRTransform":
        m = EXPO_LIST[k % len(EXPO_LIST)]
        return [rmin, rmin + 2.0 ** m - 1 + rng.choice([0.2, 3.0, 30.0, 1e3]), m], trim
    if cls == "LinearFiniteRTransform":
        w = rng.choice([0.5, 2.0, 20.0, 1e3])
        return ([rmin + w, rmin] if rng.random() < 0.2 else [rmin, rmin + w]), False
    if cls == "IdentityRTransform":
        return [], False
    if cls in B_CLS:
        if cls != "LinearInfiniteRTransform" and rmin == 0.0:
            rmin = 1e-3
        return [rmin, rmin + rng.choice([0.5, 5.0, 100.0]), rng.choice([1.0, 4.0, 10.0, 37.5])], False
    if cls == "HyperbolicRTransform":
        return [rng.choice([0.1, 1.0, 5.0, 1e3]), None], False          # b is chosen after the grid
    raise KeyError(cls)


def _r2_interval(rng, tlo, thi):
    """a grid domain inside the transform's domain (tlo, thi): the whole of it or a sub-interval"""
    if tlo > thi:
        tlo, thi = thi, tlo
    if math.isinf(thi):
        lo = tlo if rng.random() < 0.4 else tlo + round(rng.uniform(0.0, 2.0), 3)
        return lo, lo + round(rng.uniform(0.5, 8.0), 3)
    if rng.random() < 0.4 or thi - tlo <= 0:
        return tlo, thi
    a, b = sorted([rng.uniform(tlo, thi), rng.uniform(tlo, thi)])
    if b - a < 0.1 * (thi - tlo):
        a, b = tlo + 0.2 * (thi - tlo), tlo + 0.7 * (thi - tlo)
    return a, b


def _r2_nodes(rng, lo, hi, m, ends=False, order=None, wkind=None, margin=0.02, f32=False):
    """m nodes in [lo, hi] in one of the orders sorted / reversed / shuffled / repeated, weights positive / mixed / with
    zeros; `ends`: the first and last node sit exactly on lo and hi"""
    L = hi - lo
    pts = sorted(rng.uniform(lo + margin * L, hi - margin * L) for _ in range(m))
    if ends and m >= 1:
        pts[0] = lo
        if m >= 2:
            pts[-1] = hi
    order = order or rng.choice(["sorted", "reversed", "shuffled", "repeated"])
    if order == "reversed":
        pts = pts[::-1]
    elif order == "shuffled":
        rng.shuffle(pts)
    elif order == "repeated" and m >= 2:
        pts[rng.randrange(m)] = pts[rng.randrange(m)]
        if rng.random() < 0.5:
            rng.shuffle(pts)
    wts = [rng.uniform(0.05, 1.0) for _ in range(m)]
    wkind = wkind or rng.choice(["positive", "positive", "mixed", "zeros"])
    if wkind in ("mixed", "zeros"):
        for i in range(m):
            v = rng.random()
            if wkind == "mixed" and v < 0.4:
                wts[i] = -wts[i]
            elif v < 0.3:
                wts[i] = 0.0 if rng.random() < 0.7 else -0.0
    if f32:
        pts = [float(np.float32(p)) for p in pts]
        pts = [min(max(p, lo), hi) for p in pts]
    return pts, wts, order, wkind


def _r2_single(rng, cls, inv, k, ends=None, m=None, style=None):
    """one script with one transform object (extreme parameters, class `cls`, wrapped in InverseRTransform if `inv`) and
    one hand-built grid on (a sub-interval of) its domain.  style: None | 'b_none' | dtype/container variant"""
    if style in ("int", "np.int64", "np.float32", "np.float64"):
        ps, trim = _int_params(cls, rng), rng.random() < 0.5
        if style in ("int", "np.int64") and cls == "HyperbolicRTransform":
            style = "np.float64"
        if style == "np.float32" and (cls in ("ExpRTransform", "PowerRTransform") or inv):
            style = "np.float64"         # scalar sub-expressions (log(rmax/rmin), 1/k, R**(1/m)) of float32 parameters are evaluated in float32
        ptypes = [style] * len(ps)
    else:
        ps, trim = _r2_params(cls, rng, k)
        ptypes = None
    m = m if m is not None else rng.choice([1, 2, 3, 5, 8])
    b_none = style == "b_none" and cls in B_CLS
    hyper_b = None
    if cls == "HyperbolicRTransform" and ps[1] is None:
        ps[1] = 0.01           # placeholder, fixed below once the grid is known
        hyper_b = True
    if b_none:
        ps = ps[:2]
    spec = _spec_tf(cls, ps, trim if cls in HAS_TRIM else False, inv, b_none, ptypes)
    tlo, thi = _tf_domain(spec)
    lo, hi = _r2_interval(rng, tlo, thi)
    if ends is None:
        ends = rng.random() < 0.2 and not inv
    pts, wts, order, wkind = _r2_nodes(rng, lo, hi, m, ends=ends)
    if hyper_b:
        top = max([abs(p) for p in pts] + [hi if not inv else 0.0, 1.0])
        spec["ps"][1] = round(rng.uniform(0.1, 0.9) * min(1.0 / max(m - 1, 1), 1.0 / top), 6)
    return {"tfs": [spec], "grids": [_spec_grid(pts, wts, (lo, hi))], "calls": [[0, 0]]}, f"{order}:{wkind}" + (":ends" if ends else "")


def _r2_scripts(ctx, rng, purpose):
    """-> list of (category, script).  `purpose`: 'corr' (more and larger) or 'oracle' (every call costs 40-digit arithmetic)"""
    scripts = []
    thorough = ctx.thorough
    reps = (40 if thorough else 10) if purpose == "corr" else (6 if thorough else 3)
    off = rng.randrange(len(EXPO_LIST))
    # (4)(5) every class, plain and wrapped in InverseRTransform, extreme parameters, hand-built grids (any order,
    #        negative and zero weights, one-point grids, repeated nodes, nodes on the ends)
    k = 0
    for rep in range(reps):
        for cls in FINITE_TF + INF_TF:
            for inv in (False, True):
                for j in range(2 if cls in ("KnowlesRTransform", "HandyRTransform", "HandyModRTransform") else 1):
                    # consecutive entries of EXPO_LIST: an integer >= 3 and a fractional exponent in every run
                    s, note = _r2_single(rng, cls, inv, off + 2 * rep + j, style="b_none" if (cls in B_CLS and (k + rep) % 2 == 0) else None)
                    scripts.append((f"single:{'inverse:' if inv else ''}{cls}:{note}", s))
                    k += 1
    # (2) dtype / container / kind of the parameters
    for rep in range(reps):
        for cls in FINITE_TF + INF_TF:
            inv = rng.random() < 0.3
            style = rng.choice(["int", "np.int64", "np.float32", "np.float64"])
            s, note = _r2_single(rng, cls, inv, 0, ends=False, m=rng.choice([2, 3, 5]), style=style)
            gs = s["grids"][0]
            var = rng.choice(["f32-points", "f32-weights", "int-weights", "readonly", "strided", "negstride", "int-points"])
            if var == "f32-points":
                lo, hi = gs["domain"]
                L = hi - lo
                gs["points"] = [min(max(float(np.float32(p)), lo + 0.03 * L), hi - 0.03 * L) for p in gs["points"]]
                gs["points"] = [float(np.float32(p)) for p in gs["points"]]
                gs["pdtype"] = "float32"
            elif var == "f32-weights":
                gs["weights"] = [float(np.float32(w)) for w in gs["weights"]]
                gs["wdtype"] = "float32"
            elif var == "int-weights":
                gs["weights"] = [rng.choice([-1, 0, 1, 2, 3]) for _ in gs["weights"]]
                gs["wdtype"] = "int64"
            elif var == "int-points":
                lo, hi = gs["domain"]
                cand = [v for v in range(int(math.ceil(lo)), int(math.floor(min(hi, lo + 12))) + 1)]
                if cand:
                    gs["points"] = [rng.choice(cand) for _ in gs["points"]]
                    gs["pdtype"] = "int64"
                    if s["tfs"][0]["cls"] == "HyperbolicRTransform" and not inv:
                        s["tfs"][0]["ps"][1] = min(s["tfs"][0]["ps"][1], 0.03125)
                else:
                    var = "plain"
            else:
                gs["layout"] = var
            scripts.append((f"dtype:{'inverse:' if inv else ''}{cls}:params-{style}:{var}", s))
    # (1)(3) state between calls: shared objects, overlapping arguments, other arguments in between, rebuilt objects
    nseq = (30 if thorough else 8) if purpose == "corr" else (6 if thorough else 3)
    hi_n = (40 if purpose == "corr" else 9)
    for rep in range(nseq):
        # finite domain: two classes and two parameter sets of one class, rules of equal and different sizes
        c1, c2 = rng.sample(FINITE_TF, 2)
        p1, t1 = _r2_params(c1, rng, off + rep)
        p1b, _ = _r2_params(c1, rng, off + rep + 1)
        p2, t2 = _r2_params(c2, rng, off + rep + 2)
        tfs = [_spec_tf(c1, p1, t1 if c1 in HAS_TRIM else False), _spec_tf(c2, p2, t2 if c2 in HAS_TRIM else False),
               _spec_tf(c1, p1b, t1 if c1 in HAS_TRIM else False), _spec_tf(c1, p1, t1 if c1 in HAS_TRIM else False)]
        r1, r2 = rng.sample(sorted(r for r in FINITE_RULES if FINITE_RULES[r](5) and FINITE_RULES[r](7)), 2)
        n = rng.choice([5, 7]) if rng.random() < 0.6 else rng.choice([n_ for n_ in range(3, hi_n + 1) if FINITE_RULES[r1](n_) and FINITE_RULES[r2](n_)])
        n2 = rng.choice([n_ for n_ in range(2, hi_n + 1) if n_ != n and FINITE_RULES[r1](n_)])
        hand, hw, _, _ = _r2_nodes(rng, -1.0, 1.0, n, order="shuffled", wkind="mixed")
        hand2, hw2, _, _ = _r2_nodes(rng, -1.0, 1.0, n, order="shuffled", wkind="positive")       # the caller's later edit of grid 4
        both, _, _, _ = _r2_nodes(rng, -1.0, 1.0, n, order="sorted")                               # grid 5: one array is points and weights
        both2, _, _, _ = _r2_nodes(rng, -1.0, 1.0, n, order="reversed")
        grids = [_spec_rule(r1, n), _spec_rule(r2, n), _spec_rule(r1, n), _spec_rule(r1, n2), _spec_grid(hand, hw, (-1.0, 1.0)),
                 _spec_grid(both, both, (-1.0, 1.0), layout="same-array")]
        calls = [[0, 0], [1, 0], [0, 0], [2, 0], [0, 1], [1, 1], [3, 2], [0, 4], [1, 4], [0, 3], [1, 3], [0, 0], [2, 4], [0, 5], [1, 5],
                 ["edit", 4, hand2, hw2], [0, 4], [1, 4], ["edit", 5, both2, both2], [1, 5], [0, 5], [0, 0]]
        scripts.append((f"state:finite:{c1}+{c2}", {"tfs": tfs, "grids": grids, "calls": calls}))
        # half-infinite domain: b left open (inferred from the first array seen and kept), explicit b, other classes in between
        specs = []
        for c in B_CLS:
            p, _ = _r2_params(c, rng, 0)
            specs.append(_spec_tf(c, p[:2], b_none=True))
        p, _ = _r2_params("LinearInfiniteRTransform", rng, 0)
        specs.append(_spec_tf("LinearInfiniteRTransform", p))
        specs.append(_spec_tf("IdentityRTransform", []))
        specs.append(_spec_tf(B_CLS[rep % 3], specs[rep % 3]["ps"], b_none=True, inv=True))
        na, nb = rng.sample([n_ for n_ in range(3, hi_n + 1, 2)], 2)
        ra = rng.choice(sorted(INF_RULES))
        lo, hi = specs[rep % 3]["ps"]
        hand, hw, _, _ = _r2_nodes(rng, lo, hi, rng.choice([1, 3, 4]), order="shuffled")
        grids = [_spec_rule("UniformInteger", na), _spec_rule("UniformInteger", nb), _spec_rule(ra, na), _spec_rule("UniformInteger", na),
                 _spec_grid(hand, hw, (lo, hi))]
        first = rng.choice([0, 1, 2])
        calls = [[0, first], [0, (first + 1) % 3], [1, (first + 1) % 3], [1, first], [4, 2], [2, 2], [2, 0], [3, 0], [0, 3], [0, first], [1, 1], [2, 1],
                 [5, 4], [5, 4], [0, 4]]
        scripts.append((f"state:half-infinite:b-inferred", {"tfs": specs, "grids": grids, "calls": calls}))
    # (4) a map without inverse: ZeroDivisionError path of InverseRTransform
    for cls, ps in (("LinearFiniteRTransform", [1.0, 1.0]), ("LinearFiniteRTransform", [2, 2]), ("HandyModRTransform", [0.5, 0.5, 2])):
        pts, wts, _, _ = _r2_nodes(rng, ps[0], ps[0], rng.choice([1, 3]), order="sorted", wkind="positive")
        scripts.append((f"zero-derivative:inverse:{cls}", {"tfs": [_spec_tf(cls, ps, False, True)], "grids": [_spec_grid(pts, wts, (ps[0], ps[0]))], "calls": [[0, 0]]}))
        pts, wts, _, _ = _r2_nodes(rng, -1.0, 1.0, 3, order="sorted", wkind="positive")
        scripts.append((f"zero-derivative:{cls}", {"tfs": [_spec_tf(cls, ps, False, False), _spec_tf(cls, ps, False, True)],
                                                   "grids": [_spec_grid(pts, wts, (-1.0, 1.0))], "calls": [[0, 0]]}))
    # (3) nodes on the ends of [-1, 1] (poles of Becke/Handy/Knowles/MultiExp), trimming on and off; the Lobatto and
    #     trapezoid rules as they are
    for cls in ("BeckeRTransform", "HandyRTransform", "KnowlesRTransform", "MultiExpRTransform", "HandyModRTransform", "LinearFiniteRTransform"):
        for trim in (True, False):
            ps, _ = _r2_params(cls, rng, off + (1 if trim else 0))
            pts, wts, _, _ = _r2_nodes(rng, -1.0, 1.0, rng.choice([2, 3, 4]), ends=True, order=rng.choice(["sorted", "reversed", "shuffled"]))
            scripts.append((f"ends:{cls}:trim={trim}", {"tfs": [_spec_tf(cls, ps, trim if cls in HAS_TRIM else False)], "grids": [_spec_grid(pts, wts, (-1.0, 1.0))],
                                                        "calls": [[0, 0]]}))
        ps, trim = _r2_params(cls, rng, off + 3)
        scripts.append((f"ends:{cls}:rule", {"tfs": [_spec_tf(cls, ps, trim if cls in HAS_TRIM else False)],
                                             "grids": [_spec_rule(rng.choice(["GaussChebyshevLobatto", "Trapezoidal", "ClenshawCurtis"]), rng.choice([2, 3, 6]))],
                                             "calls": [[0, 0]]}))
    # (3) nodes outside the grid's own domain by about the slack of OneDGrid, magnified or not by the map
    for rep in range(reps * 3):
        a = rng.choice([0.0, -2.0, 1.5])
        slope = rng.choice([0.25, 0.5, 1.0, 1.5, 4.0, 20.0])
        dlt = rng.choice([5e-8, 9.9e-8])
        side = rng.random() < 0.5
        pts = [-1.0 - dlt if side else -0.4, 0.3, 1.0 + dlt if not side else 0.8]
        scripts.append((f"slack:LinearFiniteRTransform:slope={slope}", {"tfs": [_spec_tf("LinearFiniteRTransform", [a, a + 2 * slope])],
                                                                         "grids": [_spec_grid(pts, [0.5, 1.0, 0.5], (-1.0, 1.0))], "calls": [[0, 0]]}))
    # (5) large rules (thorough tier; correspondence only compares, the oracle samples the nodes)
    if thorough:
        for n in ([201, 401, 1001] if purpose == "corr" else [201]):
            for cls in rng.sample(FINITE_TF, 3):
                ps, trim = _r2_params(cls, rng, rng.randrange(12))
                rule = rng.choice(["GaussLegendre", "GaussChebyshev", "ClenshawCurtis", "TanhSinh", "Simpson"])
                scripts.append((f"large-n:{cls}", {"tfs": [_spec_tf(cls, ps, trim if cls in HAS_TRIM else False)], "grids": [_spec_rule(rule, n)], "calls": [[0, 0]]}))
    return scripts


def _line_raw(inv, cls, ps, trim, tfdom, dom, pts, wts):
    return (f"C04.transform {1 if inv else 0} {cls} {1 if trim else 0} {fvec([float(p) for p in ps])} "
            f"{f2b(tfdom[0])} {f2b(tfdom[1])} "
            + (f"1 {f2b(dom[0])} {f2b(dom[1])} " if dom is not None else f"0 {f2b(0.0)} {f2b(0.0)} ")
            + f"{fvec(pts)} {fvec(wts)}")


def _unchanged(g, before):
    return (g.points.dtype == before[0].dtype and g.weights.dtype == before[1].dtype and g.domain == before[2]
            and np.array_equal(g.points, before[0], equal_nan=True) and np.array_equal(g.weights, before[1], equal_nan=True))


def _corr_scripts(ctx: Ctx, scripts, strict=False, label="r2"):
    """every call of every script on the implementation (in order, on shared objects) and on the stateless Lean model.
    `strict` (round 3, threshold cases whose nodes are exact inputs of both sides): no conditioning slack, no
    "both huge" shortcut — every value, however large, has to agree to rtol."""
    R, G = rt(), OneDGrid()
    build_tf, build_grid = _PROP_NS["c04_build_tf"], _PROP_NS["c04_build_grid"]
    plans, lines = [], []
    for cat, script in scripts:
        try:
            tfs = [build_tf(R, s) for s in script["tfs"]]
            grids = [build_grid(G, s) for s in script["grids"]]
        except ValueError:
            continue        # inadmissible parameters / hand-built grid rejected by the constructor (covered by C04.onedgrid)
        bref = [None] * len(tfs)
        brefs = []
        vals = [([float(v) for v in g.points], [float(v) for v in g.weights]) for g in grids]   # contents, followed through the edits
        for call in script["calls"]:
            if call[0] == "edit":
                same = grids[call[1]].weights is grids[call[1]].points
                vals[call[1]] = ([float(v) for v in call[2]], [float(v) for v in (call[2] if same else call[3])])
                brefs.append(None)
                continue
            ti, gi = call
            spec, T, g = script["tfs"][ti], tfs[ti], grids[gi]
            xs, ws_ = vals[gi]
            ps = [float(p) for p in spec["ps"]]
            if spec["cls"] in B_CLS and spec["b_none"]:
                passes = g.domain is not None and not (g.domain[0] < T.domain[0] or g.domain[1] > T.domain[1])
                if bref[ti] is None and passes and xs and abs(max(xs)) >= 1e-16:
                    bref[ti] = max(xs)          # stateless reference: b = maximum of the first array transformed
                if bref[ti] is None and passes:
                    bref[ti] = "no-b"           # b cannot be inferred (maximum zero): ValueError, the model is not asked
                ps = ps + [bref[ti] if isinstance(bref[ti], float) else 1.0]
            brefs.append(bref[ti])
            if bref[ti] == "no-b":
                bref[ti] = None
            lines.append(_line_raw(spec["inv"], spec["cls"], ps, spec["trim"], T.domain, g.domain, xs, ws_))
        plans.append((cat, script, tfs, grids, brefs))
    answers = iter(driver_batch(lines))
    for cat, script, tfs, grids, brefs in plans:
        for ci, call in enumerate(script["calls"]):
            if call[0] == "edit":       # the caller edits the arrays of one of its grids in place
                g = grids[call[1]]
                g.points[...] = np.array(call[2], dtype=g.points.dtype)
                if g.weights is not g.points:
                    g.weights[...] = np.array(call[3], dtype=g.weights.dtype)
                continue
            ti, gi = call
            spec, T, g, ans = script["tfs"][ti], tfs[ti], grids[gi], next(answers)
            cls, inv = spec["cls"], spec["inv"]
            before = (g.points.copy(), g.weights.copy(), g.domain)
            itag, h = _impl(T, g, keyword=ci % 2 == 1)
            f32 = g.points.dtype == np.float32
            base = T._tfm if inv else None
            cond = None
            if itag == "ok" and not strict:
                cond = _conditioning(T, g, base, eps=6e-8 if f32 else 2.220446049250313e-16)
            if brefs[ci] == "no-b":
                bad = None if itag == "value-error" else f"b cannot be inferred (maximum of the points is zero): implementation {itag}, expected value-error"
            else:
                bad = _compare(itag, h, ans, rtol=2e-5 if f32 else 1e-9, cond=cond, strict=strict)
            if not bad and not _unchanged(g, before):
                bad = (f"the caller's grid was changed by the call (weights {before[1][:3].tolist()} -> {g.weights[:3].tolist()}, "
                       f"points {before[0][:3].tolist()} -> {g.points[:3].tolist()})")
            if not bad and spec["b_none"] and isinstance(brefs[ci], float):
                got_b = (T._tfm if inv else T).b
                if got_b is None or float(got_b) != brefs[ci]:
                    bad = f"parameter b of the object is {got_b!r}; the maximum of the first array it transformed is {brefs[ci]!r}"
            desc = [cat, ci, ("inverse:" if inv else "") + cls, spec["ps"], spec["trim"], before[0][:8].tolist(), script["grids"][gi]["domain"]]
            ctx.count(desc, nontrivial=g.size >= 2 or itag != "ok",
                      tag=label + ":" + cat.split(":")[0] + ":" + ("inverse:" if inv else "") + cls + (":" + itag if itag != "ok" else ""))
            if bad:
                cut = dict(script, calls=script["calls"][:ci + 1])
                ctx.fail("corr", f"transform_1d_grid:{cls}", f"transform_1d_grid [{cat}] call {ci} of {script['calls']}: "
                         f"{'InverseRTransform of ' if inv else ''}{cls}{tuple(spec['ps'])}: {bad}",
                         witness={"case": desc, "script": cut, "points": g.points, "weights": g.weights, "domain": _dom(g.domain),
                                  "tf_domain": [float(x) for x in T.domain], "disagreement": bad})


def _corr_not_a_grid(ctx: Ctx):
    """the argument check in front of everything (Gen/Transform1D.hasTypeCheck): anything but a OneDGrid is a TypeError,
    whatever the transform (positional and keyword call)"""
    base = importlib.import_module("grid.basegrid")
    pts = np.array([0.1, 0.5])
    others = [("Grid", base.Grid(pts, np.array([1.0, 1.0]))), ("ndarray", pts), ("None", None), ("tuple", (pts, pts, (-1, 1))),
              ("RadialGrid-like LocalGrid", base.LocalGrid(pts, np.array([1.0, 1.0]), 0.0))]
    for cls in FINITE_TF + INF_TF:
        ps = _int_params(cls, ctx.rng)
        for inv in (False, True):
            T = _PROP_NS["c04_build_tf"](rt(), _spec_tf(cls, ps, True, inv))
            for k, (name, obj) in enumerate(others):
                try:
                    T.transform_1d_grid(oned_grid=obj) if k % 2 else T.transform_1d_grid(obj)
                    got = "ok"
                except TypeError:
                    got = "type-error"
                except Exception as e:      # noqa: BLE001 - any other exception is a disagreement
                    got = type(e).__name__
                ctx.count(["not-a-grid", cls, inv, name], nontrivial=False, tag="r2:not-a-grid:" + got)
                if got != "type-error":
                    ctx.fail("corr", "transform_1d_grid:type-check", f"{'InverseRTransform of ' if inv else ''}{cls}{tuple(ps)}.transform_1d_grid({name}): "
                             f"{got}, expected TypeError (the isinstance check precedes everything)", witness={"class": cls, "argument": name})


def _key_of(script, kind, ci):
    spec = script["tfs"][script["calls"][ci][0]]
    if kind == "sign":
        return FINDING_KEY
    if kind == "domain-nan" and spec["cls"] == "HyperbolicRTransform" and not spec["inv"]:
        return HYP_KEY
    return f"rtransform.transform_1d_grid:{'Inverse:' if spec['inv'] else ''}{spec['cls']}:{kind}"


def _snippet_script(script, kind, max_nodes=48):
    hp = _hp()
    return hp.HP_SRC + PROP_SRC + SNIPPET_SCRIPT.format(script=script, kind=kind, max_nodes=max_nodes)


def _oracle_scripts(ctx: Ctx, scripts, label="r2", max_nodes=48):
    """the property itself on every call of every script; -> number of failures reported under a non-listed key"""
    hp = _hp()
    R, G = rt(), OneDGrid()
    new = 0
    for cat, script in scripts:
        bad = None
        with part(ctx, f"{label}-script:{cat}"):
            try:
                bad = c04_check_script(script, R, G, hp.HP, hp.hp_call, hp.mpmath, max_nodes=max_nodes)
            except ValueError:
                ctx.tagc(f"oracle:{label}:inadmissible-script")
        if bad is None:
            continue
        ctx.tagc(f"oracle:{label}:{cat.split(':')[0]}", len(script["calls"]))
        for kind, ci, msg in bad:
            key = _key_of(script, kind, ci)
            cut = dict(script, calls=script["calls"][:ci + 1])
            if kind == "trim-overflow":
                _candidate(ctx, TRIM_KEY, f"[{cat}] {msg}", witness={"category": cat, "script": cut, "kind": kind}, snippet=_snippet_script(cut, kind, max_nodes))
                continue
            ctx.fail("oracle", key, f"[{cat}] {msg}", witness={"category": cat, "script": cut, "kind": kind}, snippet=_snippet_script(cut, kind, max_nodes))
            if key not in (FINDING_KEY, HYP_KEY):
                new += 1
    return new


def _script_from_witness(w):
    """the script of a correspondence witness (round-2 cases carry it; round-1 cases are rebuilt from `case`)"""
    if isinstance(w.get("script"), dict):
        return w["script"]
    case = w.get("case")
    if not isinstance(case, list) or "points" not in w:
        return None
    inv = "inverse" in case
    try:
        if case[0] == "OneDGrid":
            cls, ps, trim = case[3], case[4], case[5]
        else:
            cls, ps, trim = case[2], case[3], case[4]
        if cls not in FINITE_TF + INF_TF:
            return None
        return {"tfs": [_spec_tf(cls, ps, trim if cls in HAS_TRIM else False, inv)],
                "grids": [_spec_grid(list(w["points"]), list(w["weights"]), w.get("domain"))], "calls": [[0, 0]]}
    except (IndexError, TypeError, KeyError):
        return None


_AT = {"found": 0}


def oracle_at(ctx: Ctx, failure):
    """Evaluate the property itself at an input on which model and implementation disagreed."""
    if _AT["found"] >= 3:
        return
    w = _unjson(failure.witness or {})
    if not isinstance(w, dict):
        return
    if failure.key == "OneDGrid.__init__":
        _AT["found"] += _oracle_ctor(ctx, w.get("points"), w.get("weights"), w.get("domain"))
        return
    script = _script_from_witness(w)
    if script is None:
        return
    ctx.tagc("oracle:at-disagreement")
    _AT["found"] += _oracle_scripts(ctx, [("at-disagreement", script)], label="at")


def _oracle_ctor(ctx: Ctx, pts, wts, dom):
    """OneDGrid(points, weights, domain): accepted iff every node lies in the domain up to the slack 1e-7"""
    if pts is None or wts is None or dom is None or len(pts) == 0 or len(pts) != len(wts):
        return 0
    if any(p != p for p in pts) or any(abs(d) == float("inf") or d != d for d in dom) or dom[0] > dom[1]:
        return 0
    G = OneDGrid()
    try:
        G(np.array(pts, dtype=float), np.array(wts, dtype=float), tuple(dom))
        accepted = True
    except ValueError:
        accepted = False
    out = max([0.0] + [dom[0] - p for p in pts] + [p - dom[1] for p in pts])
    ctx.tagc("oracle:constructor")
    if (accepted and out > 1.0000001e-7) or (not accepted and out <= 0):
        ctx.fail("oracle", "basegrid.OneDGrid:domain-check",
                 f"OneDGrid({pts}, {wts}, {tuple(dom)}) was {'accepted' if accepted else 'rejected'}; its farthest node lies {out!r} outside the domain "
                 "(the domain check tolerates 1e-7)", witness={"points": pts, "weights": wts, "domain": dom},
                 snippet=SNIPPET_CTOR.format(points=list(pts), weights=list(wts), domain=tuple(dom)))
        return 1
    return 0


def _candidate(ctx: Ctx, key, what, witness=None, snippet=None):
    """behaviour of the unchanged library that a round-2 case exposed and that is not (yet) a listed finding: reported as
    a failure once the lead lists the key in KNOWN_FINDINGS.txt, as an info line until then"""
    from ..common import load_known_findings
    if key in INFO_ONLY:
        # judged by the lead against the wording of the property: outside its envelope — information, never a failure
        ctx.tagc("oracle:information:" + key)
        if not any(key in line for line in ctx.infos):
            ctx.info(f"information (out of scope of C04, see INFO_ONLY) {key}: {what}")
    elif key in load_known_findings("C04")[0]:
        ctx.fail("oracle", key, what, witness=witness, snippet=snippet)
    else:
        ctx.tagc("oracle:candidate:" + key)
        if not any(key in line for line in ctx.infos):
            ctx.info(f"candidate finding (not listed) {key}: {what}")


TRIM_KEY = "rtransform.transform_1d_grid:trim_inf:finite-image-beyond-1e16"
BZERO_KEY = "rtransform.transform_1d_grid:inferred-b:zero-kept-after-rejection"
INVNAN_KEY = "rtransform.transform_1d_grid:InverseRTransform:domain-nan"
F32_KEY = "rtransform.transform_1d_grid:float32-grid:node-on-pole-rejected"
# dispositions (lead, round 2): TRIM_KEY — the trimming clause replaces infinity by 1e16, finite images beyond that number are outside
# the envelope; BZERO_KEY — state of a rejected call (inferred b, C19's state machine); F32_KEY — single-precision grids.
# INVNAN_KEY is a listed finding (KNOWN_FINDINGS.txt).
INFO_ONLY = {TRIM_KEY, BZERO_KEY, F32_KEY}

SNIPPET_TRIM = """import warnings; warnings.filterwarnings('ignore')
from grid import onedgrid, rtransform
g = getattr(onedgrid, {rule!r})({n})
tf = getattr(rtransform, {cls!r})(*{ps!r}, trim_inf=True)
try:
    tf.transform_1d_grid(g); err = None
except ValueError as e:
    err = str(e)
assert err is None, f'{rule}({n}) on [-1, 1] through {cls}{{tuple({ps!r})}} (domain [-1, 1]) is rejected: {{err}}'
"""

SNIPPET_QUAD = """import warnings; warnings.filterwarnings('ignore')
import numpy as np, mpmath
from grid import onedgrid, rtransform
g = getattr(onedgrid, {rule!r})({n})
tf = getattr(rtransform, {cls!r})(*{ps!r})
h = tf.transform_1d_grid(g)
lo, hi = float(h.domain[0]), float(h.domain[1])
keep = np.isfinite(h.points) & np.isfinite(h.weights) & (np.abs(h.weights) < 1e15)
f_np, f_mp = {{'exp(-r)': (lambda r: np.exp(-r), lambda r: mpmath.exp(-r)),
              '1/(1+r)^3': (lambda r: 1.0 / (1.0 + r) ** 3, lambda r: 1 / (1 + r) ** 3),
              'r^2 exp(-r)+exp(-2r)': (lambda r: r ** 2 * np.exp(-r) + np.exp(-2 * r), lambda r: r ** 2 * mpmath.exp(-r) + mpmath.exp(-2 * r))}}[{name!r}]
val = float(np.sum((f_np(h.points) * h.weights)[keep]))
ref = float(mpmath.quad(f_mp, [lo, mpmath.inf if hi >= 1e16 else hi]))
assert val > 0 and abs(val - ref) <= {tol!r} * ref, f'integral of {name} over [{{lo}}, {{hi}}] on the transformed grid = {{val}}, mpmath.quad gives {{ref}}'
"""


def _trim_overflow(ctx: Ctx, rule, n, cls, ps, trim, tf, g, tag):
    """True iff the rejection of a matching (rule, transform) pair is the trimming defect: a node close to the pole has a
    finite image above 1e16 while the infinite end of the new domain was replaced by 1e16"""
    if not (cls in HAS_TRIM and trim and tag == "value-error"):
        return False
    with np.errstate(all="ignore"):
        img = np.asarray(construct(cls, ps, False).transform(g.points), dtype=float)
    big = img[np.isfinite(img) & (np.abs(img) > 1e16)]
    if big.size == 0:
        return False
    _candidate(ctx, TRIM_KEY,
               f"{rule}({n}) through {cls}{tuple(ps)} trim_inf=True raises ValueError although the domains match: the node "
               f"{float(g.points[np.argmax(np.where(np.isfinite(img), np.abs(img), 0))])!r} has the finite image {float(big.max()) if big.max() > 0 else float(big.min())!r}, "
               "above the 1e16 that _convert_inf puts in place of the infinite end of the new domain, so OneDGrid refuses the grid",
               witness={"rule": rule, "npoints": n, "transform": cls, "params": ps, "trim_inf": True},
               snippet=SNIPPET_TRIM.format(rule=rule, n=n, cls=cls, ps=list(ps)))
    return True


def _oracle_slack(ctx: Ctx, rng):
    """OneDGrid accepts a node outside its domain by at most 1e-7, on each side"""
    for lo, hi in ((-1.0, 1.0), (0.0, 3.5), (2.0, 2.5), (-3.0, -0.5)):
        for dlt in (0.0, 5e-8, 9e-8, 1.3e-7, 2e-7, 5e-7, 9e-7, 1e-5):
            mid = [rng.uniform(lo, hi) for _ in range(rng.choice([0, 1, 3]))]
            for pts in ([lo - dlt] + mid, mid + [hi + dlt]):
                _oracle_ctor(ctx, pts, [1.0] * len(pts), (lo, hi))


def _oracle_candidates(ctx: Ctx):
    """probes of behaviour that round-2 cases exposed on the unchanged library (see `_candidate`)"""
    R, G, O = rt(), OneDGrid(), og()
    with np.errstate(all="ignore"):
        # a finite image above the 1e16 that stands for infinity: a matching (rule, transform) pair is rejected
        for rule, n, cls, ps in (("GaussLegendre", 60, "HandyRTransform", [0.0, 1.0, 5]), ("GaussLegendre", 20, "HandyRTransform", [0.1, 2.5, 8])):
            g = make_rule(rule, n)
            tf = construct(cls, ps, True)
            tag, _ = _impl(tf, g)
            if tag != "ok" and _trim_overflow(ctx, rule, n, cls, ps, True, tf, g, tag):
                break
        # a failed inference of b leaves b = 0 in the object: every later call returns nan/inf
        for C in (R.LinearInfiniteRTransform, R.ExpRTransform, R.PowerRTransform):
            T = C(0.5, 3.0)
            first = _impl(T, O.UniformInteger(2)[0:1])[0]          # one node at 0: b cannot be inferred, ValueError
            tag, h = _impl(T, O.UniformInteger(4))
            ref = C(0.5, 3.0).transform_1d_grid(O.UniformInteger(4))
            if first == "value-error" and not (tag == "ok" and np.allclose(h.points, ref.points, equal_nan=False)):
                _candidate(ctx, BZERO_KEY,
                           f"{C.__name__}(0.5, 3.0) (b left open): transform_1d_grid(UniformInteger(2)[0:1]) raises ValueError (maximum 0) but keeps "
                           f"b = {T.b!r}; the next call transform_1d_grid(UniformInteger(4)) on the same object gives "
                           + (f"points {h.points.tolist()}, domain {tuple(float(x) for x in h.domain)}" if tag == "ok" else tag)
                           + f" instead of points {ref.points.tolist()}",
                           witness={"class": C.__name__, "params": [0.5, 3.0]},
                           snippet=("import warnings; warnings.filterwarnings('ignore')\nimport numpy as np\nfrom grid import onedgrid, rtransform\n"
                                    f"T = rtransform.{C.__name__}(0.5, 3.0)\n"
                                    "try:\n    T.transform_1d_grid(onedgrid.UniformInteger(2)[0:1])\nexcept ValueError:\n    pass\n"
                                    "h = T.transform_1d_grid(onedgrid.UniformInteger(4))\n"
                                    f"ref = rtransform.{C.__name__}(0.5, 3.0).transform_1d_grid(onedgrid.UniformInteger(4))\n"
                                    "assert np.allclose(h.points, ref.points), f'after a rejected first call the object gives {h.points} (domain {h.domain}), a fresh object {ref.points}'\n"))
                break
        # InverseRTransform of a map onto [rmin, inf) applied to the grid the map produced without trimming: image of inf is nan
        for cls, ps in (("BeckeRTransform", [0.1, 1.5]), ("HandyRTransform", [0.1, 1.5, 2])):
            T = construct(cls, ps, False)
            h = T.transform_1d_grid(O.GaussLegendre(4))
            tag, k = _impl(R.InverseRTransform(T), h)
            if tag == "ok" and (k.domain[0] != k.domain[0] or k.domain[1] != k.domain[1]):
                _candidate(ctx, INVNAN_KEY,
                           f"InverseRTransform({cls}{tuple(ps)}, trim_inf=False) applied to the grid that transform produced from GaussLegendre(4) "
                           f"(domain {tuple(float(x) for x in h.domain)}) returns the domain {tuple(float(x) for x in k.domain)}: the image of the infinite end is "
                           "inf/inf = nan instead of 1, not an ordered interval containing the nodes",
                           witness={"class": cls, "params": ps},
                           snippet=("import warnings; warnings.filterwarnings('ignore')\nfrom grid import onedgrid, rtransform\n"
                                    f"T = rtransform.{cls}(*{ps!r}, trim_inf=False)\nh = T.transform_1d_grid(onedgrid.GaussLegendre(4))\n"
                                    "k = rtransform.InverseRTransform(T).transform_1d_grid(h)\nlo, hi = k.domain\n"
                                    "assert lo <= hi and (lo <= k.points).all() and (k.points <= hi).all(), f'round trip of the domain {h.domain}: {k.domain}'\n"))
                break
        # float32 grid with a node on the pole: 1e16 is not a float32 number
        g = G(np.array([-1.0, 0.0, 1.0], dtype=np.float32), np.array([0.5, 1.0, 0.5]), (-1, 1))
        tag, h = _impl(R.BeckeRTransform(0.1, 1.5), g)
        if tag != "ok":
            _candidate(ctx, F32_KEY,
                       "BeckeRTransform(0.1, 1.5).transform_1d_grid(OneDGrid(float32 [-1, 0, 1], [0.5, 1, 0.5], (-1, 1))) raises "
                       f"{tag}: the trimmed node is float32(1e16) = 10000000272564224 > 1e16 = the trimmed end of the domain (float64)",
                       witness={"points": [-1.0, 0.0, 1.0], "dtype": "float32"})


# ----------------------------------------------------------------------------
# correspondence
# ----------------------------------------------------------------------------
def corr(ctx: Ctx):
    rng = ctx.rng
    G = OneDGrid()
    hi_n = 120 if ctx.thorough else 40
    cases = []          # (description, tf, grid, line, nontrivial, tag, wrapped transform or None)

    def add(desc, inv, cls, ps, trim, tf, g, nontrivial, tag, base=None):
        cases.append((desc, tf, g, _line(inv, cls, ps, trim, tf.domain, g), nontrivial, tag, base))

    ncases = ctx.n(1500, 20000)
    for k in range(ncases):
        with part(ctx, "build-case", "corr"):
            u = rng.random()
            matching = u < 0.8
            fin_rule = rng.random() < 0.65
            rname = rng.choice(sorted(FINITE_RULES if fin_rule else INF_RULES))
            ok = (FINITE_RULES if fin_rule else INF_RULES)[rname]
            n = pick_n(ok, rng, hi_n)
            g = make_rule(rname, n)
            fin_tf = fin_rule if matching else not fin_rule
            cls = rng.choice(FINITE_TF if fin_tf else INF_TF)
            ps, trim = gen_params(cls, rng, g.size)
            try:
                tf = construct(cls, ps, trim)
            except ValueError:
                continue
            desc = [rname, n, cls, ps, bool(trim)]
            v = rng.random()
            if v < 0.12 and g.size >= 3:         # a slice of the rule keeps the domain
                a = rng.randrange(0, g.size - 1)
                b = rng.randrange(a + 1, g.size + 1)
                g = g[a:b]
                desc.append(f"slice {a}:{b}")
            elif v < 0.27 and fin_rule:          # hand-built grid on a sub-interval / sticking out / without domain
                w = rng.random()
                lo, hi = sorted([round(rng.uniform(-1, 1), 3), round(rng.uniform(-1, 1), 3)])
                if lo == hi:
                    hi = lo + 0.25
                eps = rng.choice([0.0, 5e-8, 9.9e-8, 1.01e-7, 2e-7, 1e-3])
                if w < 0.25:
                    dom = (-1.0 - eps, 1.0) if rng.random() < 0.5 else (-1.0, 1.0 + eps)
                    lo, hi = -1.0, 1.0
                elif w < 0.35:
                    dom = None
                else:
                    dom = (lo, hi)
                m = rng.randrange(1, 6)
                pts = np.sort(np.array([rng.uniform(lo, hi) for _ in range(m)]))
                if dom is not None and rng.random() < 0.3:   # a point outside the grid's own domain by about the slack, either side
                    if rng.random() < 0.5:
                        pts[0] = dom[0] - rng.choice([5e-8, 9.9e-8, 1.01e-7])
                    else:
                        pts[-1] = dom[1] + rng.choice([5e-8, 9.9e-8, 1.01e-7])
                wts = np.array([rng.uniform(0.05, 1.0) for _ in range(m)])
                if rng.random() < 0.5:                       # the API does not ask for ascending nodes or positive weights
                    rng.shuffle(pts)
                    wts = wts * np.array([rng.choice([1.0, 1.0, -1.0, 0.0]) for _ in range(m)])
                try:
                    g = G(pts, wts, dom)
                except ValueError:
                    continue
                desc = ["OneDGrid", [float(x) for x in pts], dom, cls, ps, bool(trim)]
            add(desc, False, cls, ps, trim, tf, g, g.size >= 2 and (cls != "IdentityRTransform" or not matching),
                f"{'finite' if fin_rule else 'half-infinite'}-rule:{cls}" + ("" if matching else ":mismatch"))
            # the inverse transformation applied to the grid just produced (round trip)
            if matching and rng.random() < 0.3:
                tag, h = _impl(tf, g)
                if tag == "ok" and np.all(np.isfinite(h.points)) and np.all(np.isfinite(h.weights)):
                    itf = rt().InverseRTransform(tf)
                    add(desc + ["inverse"], True, cls, ps, trim, itf, h, h.size >= 2, f"inverse:{cls}", base=tf)
    with part(ctx, "rules-x-transforms", "corr"):
        answers = driver_batch([c[3] for c in cases])
        for (desc, tf, g, line, nontrivial, tag, base), ans in zip(cases, answers):
            itag, h = _impl(tf, g)
            bad = _compare(itag, h, ans, cond=_conditioning(tf, g, base) if itag == "ok" else None)
            ctx.count(desc, nontrivial=nontrivial or itag != "ok", tag=tag + (":" + itag if itag != "ok" else ""))
            if bad:
                ctx.fail("corr", f"transform_1d_grid:{desc[-3] if desc[0] == 'OneDGrid' else desc[2]}",
                         f"transform_1d_grid {desc}: {bad}",
                         witness={"case": desc, "points": g.points, "weights": g.weights, "domain": _dom(g.domain),
                                  "tf_domain": [float(x) for x in tf.domain], "disagreement": bad})

    # round 2: shared objects and sequences of calls, dtype / container kinds, any order of the nodes, every class
    # wrapped in InverseRTransform, extreme parameters
    with part(ctx, "r2-scripts", "corr"):
        _corr_scripts(ctx, _r2_scripts(ctx, rng, "corr"))
    with part(ctx, "not-a-grid", "corr"):
        _corr_not_a_grid(ctx)

    ctx.tagc("corr:values-compared", _STATS["compared"])
    ctx.tagc("corr:values-conditioning-limited(skipped)", _STATS["limited"])
    # the OneDGrid constructor alone (domain check with its slack, reversed domain, empty, length mismatch)
    ctor = []
    for k in range(ctx.n(400, 4000)):
        m = rng.choice([0, 1, 1, 2, 3, 5])
        lo, hi = sorted([round(rng.uniform(-2, 2), 2), round(rng.uniform(-2, 2), 2)])
        pts = [rng.uniform(lo, hi) for _ in range(m)]
        u = rng.random()
        if m and u < 0.35:
            pts[rng.randrange(m)] = lo - rng.choice([0.0, 5e-8, 9.99e-8, 1.001e-7, 1e-6])
        elif m and u < 0.7:
            pts[rng.randrange(m)] = hi + rng.choice([0.0, 5e-8, 9.99e-8, 1.001e-7, 1e-6])
        elif m and u < 0.75:
            pts[rng.randrange(m)] = float("nan")
        dom = (lo, hi)
        v = rng.random()
        if v < 0.08:
            dom = (hi, lo)
        elif v < 0.16:
            dom = None
        elif v < 0.22:
            dom = (lo, float("inf")) if rng.random() < 0.5 else (float("-inf"), hi)
        mw = m if rng.random() < 0.93 else m + 1
        wts = [rng.uniform(-1, 1) for _ in range(mw)]
        ctor.append((pts, wts, dom))
    lines = [("C04.onedgrid " + (f"1 {f2b(d[0])} {f2b(d[1])} " if d is not None else f"0 {f2b(0.0)} {f2b(0.0)} ")
              + f"{fvec(p)} {fvec(w)}") for p, w, d in ctor]
    with part(ctx, "constructor", "corr"):
      for (p, w, d), ans in zip(ctor, driver_batch(lines)):
        try:
            h = G(np.array(p, dtype=float), np.array(w, dtype=float), d)
            itag = "ok"
        except ValueError:
            itag, h = "value-error", None
        bad = _compare(itag, h, ans, rtol=0.0)
        ctx.count(["OneDGrid", p, w, d], nontrivial=len(p) >= 2 or itag != "ok", tag="constructor:" + itag)
        if bad:
            ctx.fail("corr", "OneDGrid.__init__", f"OneDGrid({p}, {w}, {d}): {bad}",
                     witness={"points": p, "weights": w, "domain": d, "disagreement": bad})


# ----------------------------------------------------------------------------
# oracle
# ----------------------------------------------------------------------------
SNIPPET_SIGN = """import warnings; warnings.filterwarnings('ignore')
import numpy as np, mpmath
from grid import onedgrid, rtransform
g = getattr(onedgrid, {rule!r})({n})
tf = getattr(rtransform, {cls!r})(*{ps!r}{kw})
h = tf.transform_1d_grid(g)
pos = g.weights > 0
lo, hi = float(h.domain[0]), float(h.domain[1])
val = float(np.sum(np.exp(-h.points) * h.weights))
ref = float(mpmath.quad(lambda r: mpmath.exp(-r), [lo, mpmath.inf if hi >= 1e16 else hi]))
assert (h.weights[pos] >= 0).all(), f'positive weights became negative: {{h.weights[pos][:3]}}; integral of exp(-r) over [{{lo}}, {{hi}}] = {{val}}, mpmath.quad gives {{ref}}'
"""

SNIPPET_NAN = """import warnings; warnings.filterwarnings('ignore')
import numpy as np
from grid import onedgrid, rtransform
g = getattr(onedgrid, {rule!r})({n})
tf = rtransform.HyperbolicRTransform(*{ps!r})
h = tf.transform_1d_grid(g)
lo, hi = h.domain
assert lo <= hi and (lo <= h.points).all() and (h.points <= hi).all(), f'new domain {{h.domain}} is not an ordered interval containing the new nodes {{h.points[:3]}}...'
"""


def _decreasing(tf, lo, hi):
    """Direction of the map on the grid's domain, measured on the transform itself (not on deriv)."""
    lo = max(lo, -1e3)
    hi = min(hi, 1e3)
    a = lo + 0.25 * (hi - lo)
    b = lo + 0.5 * (hi - lo)
    try:
        ra, rb = (float(x) for x in tf.transform(np.array([a, b])))
    except ValueError:
        return False
    return rb < ra


def _mp_integrands():
    import mpmath as mp
    return [
        ("exp(-r)", lambda r: np.exp(-r), lambda r: mp.exp(-r)),
        ("1/(1+r)^3", lambda r: 1.0 / (1.0 + r) ** 3, lambda r: 1 / (1 + r) ** 3),
        ("r^2 exp(-r)+exp(-2r)", lambda r: r ** 2 * np.exp(-r) + np.exp(-2 * r), lambda r: r ** 2 * mp.exp(-r) + mp.exp(-2 * r)),
    ]


def oracle(ctx: Ctx, budget: str):
    import mpmath as mp
    mp.mp.dps = 30
    rng = ctx.rng
    large = budget == "large" or ctx.thorough
    R = rt()

    def kw_of(cls, trim):
        return f", trim_inf={bool(trim)}" if cls in HAS_TRIM else ""

    def report_sign(rule, n, cls, ps, trim, inv, what, wit):
        ctx.fail("oracle", FINDING_KEY, what, witness=wit,
                 snippet=SNIPPET_SIGN.format(rule=rule, n=n, cls=cls, ps=[float(p) if not isinstance(p, int) else p for p in ps],
                                             kw=kw_of(cls, trim)))

    # ---- 1. every (rule, transform) pair whose domains match: sign of weights, node in domain, ordered domain,
    #         and the change-of-variables identity with |r'| in 30-digit arithmetic
    pairs = [(r, t, True) for r in sorted(FINITE_RULES) for t in FINITE_TF] + \
            [(r, t, False) for r in sorted(INF_RULES) for t in INF_TF]
    reps = 3 if large else 1
    pair_scripts = []
    for rule, cls, fin in pairs:
        with part(ctx, f"pairs:{rule}:{cls}"):
            ok = (FINITE_RULES if fin else INF_RULES)[rule]
            for _ in range(reps):
                n = pick_n(ok, rng, 30)
                g = make_rule(rule, n)
                ps, trim = gen_params(cls, rng, g.size)
                if cls == "HyperbolicRTransform" and ps[1] * (g.size - 1) >= 1:
                    ps[1] = round(0.5 / max(g.size - 1, 1), 6)
                tf = construct(cls, ps, trim)
                before = (g.points.copy(), g.weights.copy(), g.domain)
                tag, h = _impl(tf, g)
                case = {"rule": rule, "npoints": n, "transform": cls, "params": ps, "trim_inf": bool(trim)}
                pair_scripts.append((f"pairs:{rule}:{cls}", {"tfs": [_spec_tf(cls, ps, trim if cls in HAS_TRIM else False)],
                                                             "grids": [_spec_grid(before[0], before[1], before[2])], "calls": [[0, 0]]}))
                if not _unchanged(g, before):
                    ctx.fail("oracle", f"rtransform.transform_1d_grid:{cls}:input-modified",
                             f"{rule}({n}) through {cls}{tuple(ps)}: the caller's grid was changed by the call (weights {before[1][:3].tolist()} -> "
                             f"{g.weights[:3].tolist()})", witness=case, snippet=_snippet_script(pair_scripts[-1][1], "input-modified"))
                if tag != "ok":
                    if cls == "HyperbolicRTransform" or not fin:
                        # nodes beyond the pole 1/b, or images overflowing: rejected by the constructor, not a wrong grid
                        ctx.tagc("oracle:rejected-by-constructor")
                        continue
                    if _trim_overflow(ctx, rule, n, cls, ps, trim, tf, g, tag):
                        continue
                    ctx.fail("oracle", f"rtransform.transform_1d_grid:{cls}:rejected",
                             f"{rule}({n}) through {cls}{tuple(ps)}: domains match but the call raised {tag}", witness=case,
                             snippet=_snippet_script(pair_scripts[-1][1], "rejected"))
                    continue
                dec = _decreasing(tf, float(g.domain[0]), float(g.domain[1]))
                lo, hi = float(h.domain[0]), float(h.domain[1])
                # ordered domain, nodes inside
                fin_pts = h.points[np.isfinite(h.points)]
                if not (lo <= hi) or not (np.all(fin_pts >= lo - 1e-12 * max(1, abs(lo))) and np.all(fin_pts <= hi + 1e-12 * max(1.0, abs(hi)))):
                    key = HYP_KEY if (cls == "HyperbolicRTransform" and hi != hi) else f"rtransform.transform_1d_grid:{cls}:domain"
                    ctx.fail("oracle", key,
                             f"{rule}({n}) through {cls}{tuple(ps)}: new domain ({lo}, {hi}) is not an ordered interval containing "
                             f"the new nodes [{float(h.points.min())}, {float(h.points.max())}]", witness=case,
                             snippet=SNIPPET_NAN.format(rule=rule, n=n, ps=ps) if cls == "HyperbolicRTransform" else None)
                # the domain is the image of the old ends
                try:
                    img = sorted(float(x) for x in tf.transform(np.array([float(g.domain[0]), float(g.domain[1])])))
                    if not (img[1] != img[1] and hi != hi) and not (_same(img[0], lo) and _same(img[1], hi)):
                        ctx.fail("oracle", f"rtransform.transform_1d_grid:{cls}:domain-image",
                                 f"{rule}({n}) through {cls}{tuple(ps)}: new domain ({lo}, {hi}) is not the ordered image {img} of the old ends",
                                 witness=case)
                except ValueError:
                    pass
                # sign of the weights
                pos = g.weights > 0
                finite_w = np.isfinite(h.weights)
                if np.any(h.weights[pos & finite_w] < 0):
                    i = int(np.nonzero(pos & finite_w & (h.weights < 0))[0][0])
                    what = (f"{rule}({n}) through {cls}{tuple(ps)}: weight {float(g.weights[i])!r} at node {float(g.points[i])!r} became "
                            f"{float(h.weights[i])!r} (the map is {'decreasing' if dec else 'increasing'}; transform_1d_grid multiplies by the signed derivative)")
                    if dec:
                        report_sign(rule, n, cls, ps, trim, False, what, case)
                    else:
                        ctx.fail("oracle", f"rtransform.transform_1d_grid:{cls}:weights", what, witness=case)
                # identity Σ f(p_i) w'_i = Σ w_i f(r(x_i)) |r'(x_i)| (30 digits on the right)
                keep = np.isfinite(h.points) & np.isfinite(h.weights)
                if np.any(keep):
                    rx = tf.transform(g.points)
                    dx = tf.deriv(g.points) * np.ones_like(g.points, dtype=float)
                    name, f_np, f_mp = _mp_integrands()[0]
                    lhs = float(np.sum((f_np(h.points) * h.weights)[keep]))
                    rhs = sum(mp.mpf(float(g.weights[i])) * f_mp(mp.mpf(float(rx[i]))) * abs(mp.mpf(float(dx[i])))
                              for i in range(g.size) if keep[i])
                    scale = float(sum(abs(mp.mpf(float(g.weights[i])) * f_mp(mp.mpf(float(rx[i]))) * mp.mpf(float(dx[i])))
                                      for i in range(g.size) if keep[i]))
                    if abs(lhs - float(rhs)) > 1e-10 * max(scale, 1e-300):
                        what = (f"{rule}({n}) through {cls}{tuple(ps)}: sum of {name} over the new grid = {lhs!r}, the old rule applied to "
                                f"f(r(x))|r'(x)| = {float(rhs)!r}")
                        # the listed finding is the *sign*: under a decreasing map the sum is exactly the negative; anything
                        # else (nodes and weights no longer paired, another Jacobian) is a different failure
                        if dec and abs(lhs + float(rhs)) <= 1e-10 * max(scale, 1e-300):
                            report_sign(rule, n, cls, ps, trim, False, what, case)
                        else:
                            ctx.fail("oracle", f"rtransform.transform_1d_grid:{cls}:identity", what, witness=case)
                ctx.tagc("oracle:pairs")

    # ---- 1b. the same pairs judged node by node (independent Jacobian: mpmath.diff of the 40-digit run of the map), then the
    #          round-2 scripts: shared objects and sequences of calls, dtype / container kinds, any node order, negative and
    #          zero weights, every class wrapped in InverseRTransform, exponents over [0.5, 8], nodes on the ends, slack
    with part(ctx, "pairs-nodewise"):
        _oracle_scripts(ctx, pair_scripts, label="pairs", max_nodes=8)
    with part(ctx, "r2-scripts"):
        _oracle_scripts(ctx, _r2_scripts(ctx, rng, "oracle"))
    with part(ctx, "constructor-slack"):
        _oracle_slack(ctx, rng)
    with part(ctx, "candidates"):
        _oracle_candidates(ctx)
    mp.mp.dps = 30

    # ---- 2. integrals of positive integrands against mpmath.quad (accurate rules only)
    with part(ctx, "quad"):
        quad_cases = [("GaussLegendre", 40), ("GaussLegendre", 60), ("ClenshawCurtis", 61), ("FejerFirst", 60)]
        if large:
            quad_cases += [("GaussLegendre", 80), ("GaussChebyshevType2", 120), ("TrefethenCC", 61)]
        quad_m = [3, 2.5, 4, 1.5, 2, 3.5, 1]       # an integer >= 3 and a fractional exponent in every run (first two rules)
        quad_off = rng.randrange(len(quad_m))
        for qi, (rule, n) in enumerate(quad_cases):
            g = make_rule(rule, n)
            for cls in FINITE_TF:
                for rep in range(2 if large else 1):
                    rmin = rng.choice([0.0, 0.1, 0.5])
                    Rp = rng.choice([1.0, 1.5, 2.0])
                    m = quad_m[qi] if qi < 2 and rep == 0 else quad_m[(quad_off + qi + 3 * rep) % len(quad_m)]
                    ps = {"BeckeRTransform": [rmin, Rp], "MultiExpRTransform": [rmin, Rp],
                          "LinearFiniteRTransform": [rmin, rmin + rng.choice([2.0, 5.0, 9.5])],
                          "KnowlesRTransform": [rmin, Rp, m], "HandyRTransform": [rmin, Rp, m],
                          "HandyModRTransform": [rmin, rmin + 2.0 ** m - 1 + rng.choice([3.0, 8.0]), m]}[cls]
                    if cls == "MultiExpRTransform" and rule == "GaussLegendre" and n == 40 and rep == 0:
                        ps = [0.0, 1.5]          # the witness recorded in KNOWN_FINDINGS
                    tf = construct(cls, ps, True)
                    tag, h = _impl(tf, g)
                    case = {"rule": rule, "npoints": n, "transform": cls, "params": ps}
                    if tag != "ok":
                        if not _trim_overflow(ctx, rule, n, cls, ps, True, tf, g, tag):
                            ctx.fail("oracle", f"rtransform.transform_1d_grid:{cls}:rejected", f"{rule}({n}) through {cls}{tuple(ps)} raised {tag}", witness=case)
                        continue
                    lo, hi = float(h.domain[0]), float(h.domain[1])
                    keep = np.isfinite(h.points) & np.isfinite(h.weights) & (np.abs(h.weights) < 1e15)
                    for name, f_np, f_mp in _mp_integrands():
                        val = float(np.sum((f_np(h.points) * h.weights)[keep]))
                        ref = float(mp.quad(f_mp, [mp.mpf(lo), mp.inf if hi >= 1e16 else mp.mpf(hi)]))
                        ctx.tagc("oracle:quad")
                        # exp(-r): these rules integrate it to better than 1e-3 under every map above (measured: <= 7e-4),
                        # a wrong Jacobian shows; the slowly decaying integrands only converge to a few percent
                        qtol = 2e-3 if name == "exp(-r)" else 0.1
                        if not (val > 0) or abs(val - ref) > qtol * ref:
                            dec = _decreasing(tf, -1.0, 1.0)
                            what = (f"{rule}({n}) through {cls}{tuple(ps)}: integral of {name} over [{lo}, {hi}] = {val!r}, "
                                    f"mpmath.quad gives {ref!r}" + (" (decreasing map, signed Jacobian in transform_1d_grid)" if dec else
                                                                   f" (relative deviation {abs(val - ref) / ref:.1e}, tolerance {qtol:g})"))
                            if dec and abs(val + ref) <= qtol * ref:
                                report_sign(rule, n, cls, ps, True, False, what, dict(case, integrand=name, value=val, reference=ref))
                            else:
                                ctx.fail("oracle", f"rtransform.transform_1d_grid:{cls}:quad", what, witness=dict(case, integrand=name, value=val, reference=ref),
                                         snippet=SNIPPET_QUAD.format(rule=rule, n=n, cls=cls, ps=ps, name=name, tol=qtol))

    # ---- 3. Gauss-Legendre through LinearFinite: exact on monomials up to degree 2n-1 (exact rationals)
    with part(ctx, "gl-linear-exactness"):
        for n in ([2, 3, 4, 5, 7, 10] if not large else list(range(2, 16))):
            g = make_rule("GaussLegendre", n)
            for rep in range(2):
                a = rng.choice([0.0, -1.0, 0.5, round(rng.uniform(-2, 2), 2)])
                b = a + rng.choice([1.0, 2.0, round(rng.uniform(0.5, 4.0), 2)])
                tf = construct("LinearFiniteRTransform", [a, b], False)
                h = tf.transform_1d_grid(g)
                fa, fb = Fraction(a), Fraction(b)
                for k in range(0, 2 * n):
                    exact = (fb ** (k + 1) - fa ** (k + 1)) / (k + 1)
                    terms = [Fraction(float(p)) ** k * Fraction(float(w)) for p, w in zip(h.points, h.weights)]
                    got = sum(terms)
                    scale = sum(abs(t) for t in terms)
                    ctx.tagc("oracle:gl-linear-monomial")
                    if abs(got - exact) > Fraction(1, 10 ** 11) * max(scale, Fraction(1, 10 ** 30)):
                        ctx.fail("oracle", "rtransform.transform_1d_grid:LinearFiniteRTransform:exactness",
                                 f"GaussLegendre({n}) mapped to [{a}, {b}]: integral of r^{k} = {float(got)!r}, exact {float(exact)!r}",
                                 witness={"npoints": n, "a": a, "b": b, "degree": k, "got": float(got), "exact": str(exact)})
                        break
                # node containment and domain
                if not (float(h.domain[0]) == a and float(h.domain[1]) == b and np.all(h.points >= a) and np.all(h.points <= b)):
                    ctx.fail("oracle", "rtransform.transform_1d_grid:LinearFiniteRTransform:domain",
                             f"GaussLegendre({n}) mapped to [{a}, {b}]: domain {h.domain}, nodes in [{h.points.min()}, {h.points.max()}]")
        # degree 2n is not integrated exactly (the degree bound of the theorem is sharp; guards against a vacuous check)
        g = make_rule("GaussLegendre", 3)
        h = construct("LinearFiniteRTransform", [0.0, 2.0], False).transform_1d_grid(g)
        got = sum(Fraction(float(p)) ** 6 * Fraction(float(w)) for p, w in zip(h.points, h.weights))
        if abs(got - Fraction(2 ** 7, 7)) < Fraction(1, 10 ** 6):
            ctx.info("GaussLegendre(3) on [0,2] integrates r^6 exactly?! (oracle sanity)")

    # ---- 4. mismatching domains must be rejected
    with part(ctx, "mismatch"):
        for rule, cls in [(r, t) for r in sorted(FINITE_RULES)[:6] for t in INF_TF] + [(r, t) for r in sorted(INF_RULES) for t in FINITE_TF[:3]]:
            fin = rule in FINITE_RULES
            n = pick_n((FINITE_RULES if fin else INF_RULES)[rule], rng, 12)
            g = make_rule(rule, n)
            ps, trim = gen_params(cls, rng, g.size)
            if cls == "HyperbolicRTransform":
                ps[1] = round(0.5 / max(g.size - 1, 1), 6)
            tf = construct(cls, ps, trim)
            tag, h = _impl(tf, g)
            ctx.tagc("oracle:mismatch")
            if tag != "value-error":
                ctx.fail("oracle", f"rtransform.transform_1d_grid:{cls}:guard",
                         f"{rule}({n}) with domain {g.domain} through {cls} with domain {tf.domain}: not rejected ({tag})",
                         witness={"rule": rule, "npoints": n, "transform": cls, "params": ps})


# ----------------------------------------------------------------------------
# round 2, part B: ties of the extended-value statements (Props/C04/Extended.lean) — see c04_ext.py
# ----------------------------------------------------------------------------
_corr_main, _oracle_main = corr, oracle


_oracle_at_main = oracle_at


def corr(ctx: Ctx):  # noqa: F811
    with part(ctx, "main", "corr"):
        _corr_main(ctx)
    with part(ctx, "xreal-ties", "corr"):
        c04_ext.corr_ext(ctx)
    with part(ctx, "round3", "corr"):
        c04_r3.corr_r3(ctx)
    with part(ctx, "round4", "corr"):
        c04_r4.corr_r4(ctx)
    with part(ctx, "round5", "corr"):
        c04_r5.corr_r5(ctx)
    reraise_pending("corr")


def oracle(ctx: Ctx, budget: str):  # noqa: F811
    with part(ctx, "main"):
        _oracle_main(ctx, budget)
    with part(ctx, "xreal-ties"):
        c04_ext.oracle_ext(ctx, budget)
    with part(ctx, "round3"):
        c04_r3.oracle_r3(ctx, budget)
    with part(ctx, "round4"):
        c04_r4.oracle_r4(ctx, budget)
    with part(ctx, "round5"):
        c04_r5.oracle_r5(ctx, budget)
    reraise_pending("oracle")


def oracle_at(ctx: Ctx, failure):  # noqa: F811
    with part(ctx, "main", "oracle_at"):
        _oracle_at_main(ctx, failure)
    with part(ctx, "round3", "oracle_at"):
        c04_r3.oracle_at_r3(ctx, failure)
    with part(ctx, "round4", "oracle_at"):
        c04_r4.oracle_at_r4(ctx, failure)
    with part(ctx, "round5", "oracle_at"):
        c04_r5.oracle_at_r5(ctx, failure)
    reraise_pending("oracle_at")

"""C04, round 4 (AGENT_ROUND4.md): generators for the classes 14-20 and the domain clause on rules with infinite domain ends.

Driven from `c04.py` (`corr_r4` / `oracle_r4` / `oracle_at_r4`, each block an independent `c04.part`).  The property-level
references are source text (`R4_SRC`; replay snippets are self-contained, they need HP_SRC + PROP_SRC + R3_SRC in front).

infinite ends  every class that takes a rule with an infinite domain end — Identity / LinearInfinite / Exp / Power / Hyperbolic on
               (lo, inf), InverseRTransform of Becke / Handy / Knowles / MultiExp (trim_inf False and True) and of Identity on (rmin, inf)
               — x every half-infinite rule and hand-built grids x the parameter regimes rmin, rmax, R, b below 1 / above 1 / straddling 1 /
               exactly 1.  Asserted for every accepted grid: the new domain holds no nan, is ordered and contains every new node (slack 1e-7);
               the two listed findings (Hyperbolic (0, nan); InverseRTransform(Becke / Handy, trim_inf=False) (-1, nan)) go under their keys.
class 14       arrays held *inside* the objects handed over: parameters of the transform object as 0-d arrays, np.float32 / np.int64 scalars
               (the grid's own arrays: c04_r3.dtype_scripts), b inferred from an integer / float32 / bool array.
class 15       every way of giving the arguments: constructor positional / all keywords / trim_inf positional; b omitted / None / keyword;
               OneDGrid positional / keywords, domain as tuple / list / ndarray / tuple of Python ints; oned_grid positional / keyword.
class 16       one grid whose arrays are views into larger caller arrays used for several requests (same transform three times, another one
               in between): every answer equals the answer for pristine copies, not a byte of the caller's arrays changes.
class 17       value kinds of the function-value array handed to `integrate` of the new grid: complex128 / complex64 / float32 / int / bool
               (linear in the values).  (transform_1d_grid itself takes no callback.)
class 18       a call that raises leaves no trace: not-a-grid, mismatching domain, grid without domain, node outside, b not inferable,
               Hyperbolic size guard, then an accepted call = the call on a fresh object.
class 19       where the consumed maps / rules are extreme: half-infinite rules with many nodes (nodes up to 1e300 and weights that overflow),
               through the same classes (domain clause + model).  (Poles and trimming: round 3.)
class 20 / 7   sizes 1 and 2 and the size guard of Hyperbolic, b (n - 1) on both sides of 1 (the two-element domain array has its own guard).
"""
import importlib
import math

import numpy as np

from ..common import Ctx

INF = float("inf")


def M():
    return importlib.import_module(__package__ + ".c04")


def R3():
    return importlib.import_module(__package__ + ".c04_r3")


R4_SRC = r'''
def c04_r4_domain(script, rt, OneDGrid, slack=1e-7):
    """One call.  An accepted grid has a domain without nan, ordered, containing every new node (to the slack of OneDGrid), and as many
    points as weights as nodes came in.  No reference map is used."""
    import numpy as np
    spec, gs = script["tfs"][0], script["grids"][0]
    name = "%s%s%r" % ("InverseRTransform of " if spec.get("inv") else "", spec["cls"],
                       tuple(spec["ps"]) + (("trim_inf=%s" % bool(spec.get("trim")),) if spec["cls"] in C04_HAS_TRIM else ()))
    what = "%s.transform_1d_grid(OneDGrid(%r, %r, %r))" % (name, gs["points"][:6], gs["weights"][:6], tuple(gs["domain"]))
    with np.errstate(all="ignore"):
        T = c04_build_tf(rt, spec)
        g = c04_build_grid(OneDGrid, gs)
        try:
            h = T.transform_1d_grid(g)
        except (ValueError, ZeroDivisionError):
            return []
        except Exception as e:
            return [("raises", what + ": raised %s: %s" % (type(e).__name__, e))]
    lo, hi = float(h.domain[0]), float(h.domain[1])
    out = []
    if lo != lo or hi != hi:
        return [("domain-nan", what + ": the new domain (%r, %r) holds a nan; new nodes in [%r, %r]" % (lo, hi, float(np.nanmin(h.points)), float(np.nanmax(h.points))))]
    if not lo <= hi:
        out.append(("domain-order", what + ": the new domain (%r, %r) is not ordered" % (lo, hi)))
    if h.size != g.size or len(h.weights) != g.size:
        out.append(("size", what + ": %d nodes in, %d points / %d weights out" % (g.size, h.size, len(h.weights))))
    for i in range(h.size):
        p = float(h.points[i])
        if p != p:
            if float(g.points[i]) == float(g.points[i]) and abs(float(g.points[i])) < float("inf"):
                out.append(("node-nan", what + ": the finite node %r is mapped to nan" % float(g.points[i])))
                break
            continue
        if not (lo - slack - 1e-15 * abs(lo) <= p <= hi + slack + 1e-15 * abs(hi)):
            out.append(("containment", what + ": new node %d = %r lies outside the new domain (%r, %r)" % (i, p, lo, hi)))
            break
    return out


def c04_r4_args(script, rt, OneDGrid):
    """Every way of giving the same arguments gives the same grid: constructor positional / keywords (names from the signature) / b omitted,
    None or keyword / trim_inf positional or keyword; OneDGrid positional / keywords, domain as tuple / list / ndarray / Python ints;
    transform_1d_grid(g) / transform_1d_grid(oned_grid=g)."""
    import inspect
    import numpy as np
    spec, gs = script["tfs"][0], script["grids"][0]
    cls = spec["cls"]
    C = getattr(rt, cls)
    ps = [float(p) for p in spec["ps"]]
    names = [n for n in inspect.signature(C.__init__).parameters if n != "self"]
    trim = bool(spec.get("trim"))
    b_open = bool(spec.get("b_none"))
    wrap = (lambda T: rt.InverseRTransform(T)) if spec.get("inv") else (lambda T: T)
    wrap_kw = (lambda T: rt.InverseRTransform(transform=T)) if spec.get("inv") else (lambda T: T)
    ways = []
    if cls in C04_HAS_TRIM:
        ways += [("positional + trim_inf keyword", lambda: wrap(C(*ps, trim_inf=trim))), ("all positional", lambda: wrap(C(*ps, trim))),
                 ("all keywords", lambda: wrap_kw(C(**dict(zip(names, ps + [trim])))))]
        if trim:
            ways.append(("trim_inf omitted (default True)", lambda: wrap(C(*ps))))
    elif cls in C04_B_CLS:
        if b_open:
            ways += [("b omitted", lambda: wrap(C(ps[0], ps[1]))), ("b=None", lambda: wrap(C(ps[0], ps[1], b=None))), ("b None positional", lambda: wrap(C(ps[0], ps[1], None))),
                     ("keywords, b=None", lambda: wrap_kw(C(**dict(zip(names, [ps[0], ps[1], None])))))]
        else:
            ways += [("b keyword", lambda: wrap(C(ps[0], ps[1], b=ps[2]))), ("all positional", lambda: wrap(C(*ps))), ("all keywords", lambda: wrap_kw(C(**dict(zip(names, ps)))))]
    else:
        ways += [("positional", lambda: wrap(C(*ps))), ("keywords", lambda: wrap_kw(C(**dict(zip(names, ps)))))]
    pts, wts = np.array(gs["points"], dtype=float), np.array(gs["weights"], dtype=float)
    d = tuple(float(v) for v in gs["domain"])
    gways = [("OneDGrid(p, w, tuple)", lambda: OneDGrid(pts.copy(), wts.copy(), d)), ("OneDGrid(points=, weights=, domain=)", lambda: OneDGrid(points=pts.copy(), weights=wts.copy(), domain=d)),
             ("domain as list", lambda: OneDGrid(pts.copy(), wts.copy(), list(d))), ("domain as ndarray", lambda: OneDGrid(pts.copy(), wts.copy(), np.array(d))),
             ("domain as np.float32 pair", lambda: OneDGrid(pts.copy(), wts.copy(), (np.float32(d[0]), np.float32(d[1]))))]
    if all(v == int(v) for v in d if abs(v) < 1e15) and all(abs(v) < 1e15 for v in d):
        gways.append(("domain as Python ints", lambda: OneDGrid(pts.copy(), wts.copy(), (int(d[0]), int(d[1])))))
    if not all(float(np.float32(v)) == v for v in d):
        gways = [w for w in gways if "float32" not in w[0]]

    def run(mk_t, mk_g, keyword):
        try:
            T, g = mk_t(), mk_g()
            h = T.transform_1d_grid(oned_grid=g) if keyword else T.transform_1d_grid(g)
            return ("ok", h.points.copy(), h.weights.copy(), np.array([float(h.domain[0]), float(h.domain[1])]))
        except (ValueError, ZeroDivisionError, TypeError) as e:
            return (type(e).__name__,)

    def eq(a, b, f32=False):
        if f32:       # a domain handed over in single precision: its image is computed in single precision (the nodes and weights are not touched;
            # HandyMod in float32 cancels: 7e-5 at rmax - rmin = 1e3, hence 1e-3)
            return a[0] == b[0] and (a[0] != "ok" or (np.array_equal(a[1], b[1], equal_nan=True) and np.array_equal(a[2], b[2], equal_nan=True)
                                                       and np.allclose(a[3], b[3], rtol=1e-3, atol=1e-5, equal_nan=True)))
        return a[0] == b[0] and all(np.array_equal(x, y, equal_nan=True) for x, y in zip(a[1:], b[1:]))
    bad = []
    with np.errstate(all="ignore"):
        ref = run(ways[0][1], gways[0][1], False)
        for k, (wn, mk_t) in enumerate(ways):
            for j, (gn, mk_g) in enumerate(gways):
                for kw in (False, True):
                    if (k, j, kw) == (0, 0, False) or (k and j):      # vary one side at a time
                        continue
                    got = run(mk_t, mk_g, kw)
                    if not eq(got, ref, "float32" in gn):
                        bad.append(("arguments", "%s%r: [%s; %s; %s] gives %s, [%s; %s; positional call] gives %s"
                                    % (cls, tuple(ps), wn, gn, "transform_1d_grid(oned_grid=g)" if kw else "transform_1d_grid(g)",
                                       got[0] if got[0] != "ok" else (got[1][:3].tolist(), got[2][:3].tolist(), got[3].tolist()), ways[0][0], gways[0][0],
                                       ref[0] if ref[0] != "ok" else (ref[1][:3].tolist(), ref[2][:3].tolist(), ref[3].tolist()))))
                        return bad
    return bad


def c04_r4_shared(script, rt, OneDGrid):
    """script = {"tfs": [spec A, spec B], "grids": [grid]}: the grid's points and weights are views into two larger caller arrays (a
    contiguous slice and a strided one).  Calls A, A, B, A on the one grid object and on one object per transform: every answer equals the
    answer of a fresh transform on a grid of pristine copies; the caller's arrays (the views and the bytes around them) do not change."""
    import numpy as np
    gs = script["grids"][0]
    n = len(gs["points"])
    bad = []
    for layout in ("slice", "strided", "one-array"):
        bigp = np.full(3 * n + 8, -12345.678)
        bigw = bigp if layout == "one-array" else np.full(3 * n + 8, 9876.54321)
        if layout == "strided":
            pv, wv = bigp[2:2 + 2 * n:2], bigw[3:3 + 3 * n:3]
        elif layout == "slice":
            pv, wv = bigp[3:3 + n], bigw[5:5 + n]
        else:
            pv, wv = bigp[1:1 + n], bigp[n + 3:2 * n + 3]
        pv[...] = gs["points"]
        wv[...] = gs["weights"]
        snap_p, snap_w = bigp.tobytes(), bigw.tobytes()
        with np.errstate(all="ignore"):
            g = OneDGrid(pv, wv, tuple(gs["domain"]))
            objs = [c04_build_tf(rt, s) for s in script["tfs"]]
            for step, k in enumerate((0, 0, 1, 0)):
                spec = script["tfs"][k]
                fresh = c04_build_tf(rt, spec).transform_1d_grid(OneDGrid(np.array(gs["points"], dtype=float), np.array(gs["weights"], dtype=float), tuple(gs["domain"])))
                h = objs[k].transform_1d_grid(g)
                if not (np.array_equal(h.points, fresh.points, equal_nan=True) and np.array_equal(h.weights, fresh.weights, equal_nan=True)
                        and np.array_equal(np.array(h.domain, dtype=float), np.array(fresh.domain, dtype=float), equal_nan=True)):
                    bad.append(("shared-argument", "%s [%s views], request %d (%s%r) on the one grid object: points %r weights %r domain %r; on pristine copies: %r %r %r"
                                % (script["tfs"][0]["cls"] + "+" + script["tfs"][1]["cls"], layout, step, spec["cls"], tuple(spec["ps"]), h.points[:3].tolist(),
                                   h.weights[:3].tolist(), tuple(h.domain), fresh.points[:3].tolist(), fresh.weights[:3].tolist(), tuple(fresh.domain))))
                    return bad
                if bigp.tobytes() != snap_p or bigw.tobytes() != snap_w:
                    bad.append(("shared-argument-modified", "%s%r [%s views], request %d: the caller's arrays changed (points view %r -> %r, weights view %r -> %r, "
                                "only bytes outside the views changed: %s)" % (spec["cls"], tuple(spec["ps"]), layout, step, gs["points"][:3], pv[:3].tolist(), gs["weights"][:3],
                                                                               wv[:3].tolist(), bool(np.array_equal(pv, gs["points"]) and np.array_equal(wv, gs["weights"])))))
                    return bad
    return bad


def c04_r4_integrate(script, rt, OneDGrid):
    """`integrate` of the new grid is linear in the function values, whatever their kind: complex128 / complex64 / float32 / int64 / bool
    value arrays give sum(values * new weights) computed in complex128 / float64."""
    import numpy as np
    spec, gs = script["tfs"][0], script["grids"][0]
    with np.errstate(all="ignore"):
        h = c04_build_tf(rt, spec).transform_1d_grid(c04_build_grid(OneDGrid, gs))
        keep = np.isfinite(h.points) & np.isfinite(h.weights)
        if not np.any(keep):
            return []
        h = OneDGrid(h.points[keep], h.weights[keep], h.domain)
        a, b = np.exp(-np.abs(h.points) / (1 + np.max(np.abs(h.points)))), np.cos(h.points)
    w = h.weights.astype(float)
    scale = float(np.sum(np.abs(w))) + 1e-300
    name = "%s%s%r" % ("InverseRTransform of " if spec.get("inv") else "", spec["cls"], tuple(spec["ps"]))
    bad = []
    for kind, vals in (("complex128", a + 1j * b), ("complex64", (a + 1j * b).astype(np.complex64)), ("float32", a.astype(np.float32)),
                       ("int64", np.rint(5 * b).astype(np.int64)), ("bool", b > 0.3), ("float64", a)):
        ref = np.sum(vals.astype(np.complex128) * w)
        try:
            got = h.integrate(vals)
        except Exception as e:
            bad.append(("integrate-value-kind", "%s: new grid .integrate(%s values) raised %s: %s" % (name, kind, type(e).__name__, e)))
            continue
        tol = (1e-6 if kind in ("complex64", "float32") else 1e-12) * scale
        if not abs(complex(got) - complex(ref)) <= tol:
            bad.append(("integrate-value-kind", "%s: new grid (points %r, weights %r) .integrate(%s values %r) = %r, sum(values * weights) = %r"
                        % (name, h.points[:3].tolist(), h.weights[:3].tolist(), kind, vals[:3].tolist(), got, ref)))
    return bad


def c04_r4_trace(script, rt, OneDGrid):
    """A call that raises leaves no trace: rejected requests of every kind on one transform object, then the accepted call equals the call on a
    fresh object (and a second accepted call too)."""
    import numpy as np
    spec, gs = script["tfs"][0], script["grids"][0]
    name = "%s%s%r%s" % ("InverseRTransform of " if spec.get("inv") else "", spec["cls"], tuple(spec["ps"]), " (b left open)" if spec.get("b_none") else "")

    def run(T, g):
        try:
            h = T.transform_1d_grid(g)
            return ("ok", h.points.copy(), h.weights.copy(), np.array(h.domain, dtype=float))
        except Exception as e:
            return (type(e).__name__,)

    def eq(a, b):
        return a[0] == b[0] and all(np.array_equal(x, y, equal_nan=True) for x, y in zip(a[1:], b[1:]))
    bad = []
    with np.errstate(all="ignore"):
        good = lambda: c04_build_grid(OneDGrid, gs)       # noqa: E731
        fresh = run(c04_build_tf(rt, spec), good())
        if fresh[0] != "ok":
            return []
        T = c04_build_tf(rt, spec)
        tlo, thi = float(T.domain[0]), float(T.domain[1])
        glo, ghi = float(gs["domain"][0]), float(gs["domain"][1])
        width = (ghi - glo) if ghi - glo < 1e300 else 4.0
        rejected = [
            ("not a grid", lambda: np.array(gs["points"], dtype=float)),
            ("None", lambda: None),
            ("grid without domain", lambda: OneDGrid(np.array(gs["points"], dtype=float), np.array(gs["weights"], dtype=float))),
            ("domain sticking out below", lambda: OneDGrid(np.array(gs["points"], dtype=float), np.array(gs["weights"], dtype=float), (tlo - 1.0 if tlo > -1e300 else glo, ghi))),
            ("all nodes zero (b cannot be inferred)", lambda: OneDGrid(np.zeros(3), np.ones(3), (min(glo, 0.0), ghi))),
            ("nan node", lambda: OneDGrid(np.array([float("nan")] * len(gs["points"])), np.array(gs["weights"], dtype=float), (glo, ghi))),
            ("many nodes (size guard)", lambda: OneDGrid(np.linspace(glo, glo + 0.5 * width, 4001), np.ones(4001), (glo, ghi))),
            ("reversed weights length", lambda: OneDGrid(np.array(gs["points"], dtype=float), np.array(gs["weights"], dtype=float)[:-1] if len(gs["weights"]) > 1 else np.ones(2), (glo, ghi))),
        ]
        log = []
        for k, (label, mk) in enumerate(rejected):
            try:
                arg = mk()
            except Exception:
                continue          # the constructor of the argument refuses it: nothing reaches the transform
            r = run(T, arg)
            log.append("%s -> %s" % (label, r[0]))
            if r[0] == "ok" and spec.get("b_none"):
                break         # the request was answered (a nan node passes every check): by its contract b is now the maximum of that array
            after = run(T, good())
            if not eq(after, fresh):
                bad.append(("raise-leaves-trace", "%s: after the request [%s] (%s) the accepted call gives %s, a fresh object gives (%r, %r, %r)"
                            % (name, label, r[0], after[0] if after[0] != "ok" else (after[1][:3].tolist(), after[2][:3].tolist(), after[3].tolist()),
                               fresh[1][:3].tolist(), fresh[2][:3].tolist(), fresh[3].tolist())))
                return bad
            if r[0] == "ok" and label in ("not a grid", "None", "grid without domain"):
                bad.append(("raise-leaves-trace", "%s: the request [%s] was answered instead of refused" % (name, label)))
        # the rejected request first, on an object that has not seen anything else
        for label, mk in rejected:
            try:
                arg = mk()
            except Exception:
                continue
            T2 = c04_build_tf(rt, spec)
            r = run(T2, arg)
            if r[0] == "ok" and spec.get("b_none"):
                continue
            after = run(T2, good())
            if not eq(after, fresh):
                bad.append(("raise-leaves-trace", "%s: FIRST request [%s] (%s), then the accepted call gives %s, a fresh object gives (%r, %r, %r)"
                            % (name, label, r[0], after[0] if after[0] != "ok" else (after[1][:3].tolist(), after[2][:3].tolist(), after[3].tolist()),
                               fresh[1][:3].tolist(), fresh[2][:3].tolist(), fresh[3].tolist())))
                return bad
    return bad
'''

SNIPPET_R4 = """
import warnings; warnings.filterwarnings('ignore')
import numpy as np
from grid import rtransform as rt
from grid.basegrid import OneDGrid
inf, nan = float('inf'), float('nan')
payload = {payload!r}
bad = [b for b in {call} if b[0] == {kind!r}]
assert not bad, bad[0][1]
"""

_NS = {}


def _ns():
    if not _NS:
        _NS.update(R3()._ns())
        exec(R4_SRC, _NS)
    return _NS


def _snippet(call, payload, kind):
    m = M()
    return m._hp().HP_SRC + m.PROP_SRC + R3().R3_SRC + R4_SRC + SNIPPET_R4.format(payload=payload, call=call, kind=kind)


def _key(m, spec, gs, kind):
    """key of a failure; the two listed nan-domain findings keep their listed keys"""
    if kind == "sign":
        return m.FINDING_KEY
    if kind == "domain-nan":
        hi = gs["domain"][1] if gs is not None else None
        if spec["cls"] == "HyperbolicRTransform" and not spec.get("inv"):
            return m.HYP_KEY
        # the listed finding (inverse formula at inf = inf/inf).  Its text names trim_inf=False; the declared codomain is (rmin, inf) with
        # trim_inf=True as well, so a caller's grid on (rmin, inf) gets the same (-1, nan) there — same mechanism, same key (told to the lead)
        # round 5: InverseRTransform(Hyperbolic) on (0, inf): r/(a + b r) at inf = inf/inf, limit 1/b — the same mechanism again (told to the lead)
        if spec.get("inv") and spec["cls"] in ("BeckeRTransform", "HandyRTransform", "HyperbolicRTransform") and hi == INF:
            return m.INVNAN_KEY
    return f"rtransform.transform_1d_grid:{'Inverse:' if spec.get('inv') else ''}{spec['cls']}:{kind}"


def _report(ctx, cat, script, bad, call, payload=None):
    m = M()
    spec = script["tfs"][0]
    gs = script["grids"][0] if script.get("grids") else None
    for kind, msg in bad:
        ctx.fail("oracle", _key(m, spec, gs, kind), f"[{cat}] {msg}", witness={"category": cat, "payload": payload or script, "kind": kind},
                 snippet=_snippet(call, payload or script, kind))


# ----------------------------------------------------------------------------------------------------------------
# generators
# ----------------------------------------------------------------------------------------------------------------
REGIMES = [(0.1, 0.5), (0.25, 1.0), (0.5, 3.0), (1.0, 4.0), (2.0, 7.0), (0.001, 1000.0), (0.9, 1.1)]     # (rmin, rmax): below / up to / straddling / from / above 1
BS = [0.5, 1.0, 4.0, None]


def _hand_half_line(rng, lo):
    pts = sorted({lo, lo + round(rng.uniform(0.1, 1.0), 3), lo + round(rng.uniform(1.0, 6.0), 3)} | ({lo + 1.0} if rng.random() < 0.5 else set()))
    if rng.random() < 0.4:
        pts = pts[::-1]
    return pts, [round(rng.uniform(0.1, 1.0), 3) for _ in pts]


def inf_end_scripts(rng, thorough=False):
    """every class that takes a rule with an infinite end x the parameter regimes around 1 x rules / hand-built grids"""
    m = M()
    out = []
    rules = sorted(m.INF_RULES)

    def grids(k, lo=0.0):
        """two grids on (lo, inf): a rule as it is (only when lo = 0) and a hand-built one"""
        gl = []
        if lo == 0.0:
            rule = rules[k % len(rules)]
            n = [n_ for n_ in (3, 4, 5, 6, 7) if m.INF_RULES[rule](n_)][k % 2]
            gl.append((f"{rule}({n})", m._spec_rule(rule, n)))
        pts, wts = _hand_half_line(rng, lo)
        gl.append(("hand", m._spec_grid(pts, wts, (lo, INF))))
        return gl
    k = 0
    for gname, g in grids(k):
        out.append((f"inf-end:IdentityRTransform:{gname}", {"tfs": [m._spec_tf("IdentityRTransform", [])], "grids": [g], "calls": [[0, 0]]}))
        out.append((f"inf-end:inverse:IdentityRTransform:{gname}", {"tfs": [m._spec_tf("IdentityRTransform", [], inv=True)], "grids": [g], "calls": [[0, 0]]}))
    for cls in m.B_CLS:
        for rmin, rmax in REGIMES + ([(0.0, 0.5), (0.0, 1.0), (0.0, 5.0)] if cls == "LinearInfiniteRTransform" else []):
            for b in BS:
                k += 1
                if not thorough and (k % 3) and (rmin, rmax) not in ((0.1, 0.5), (2.0, 7.0), (0.5, 3.0)):
                    continue
                for gname, g in grids(k):
                    spec = m._spec_tf(cls, [rmin, rmax] + ([b] if b is not None else []), b_none=b is None)
                    out.append((f"inf-end:{cls}:({rmin},{rmax}):b={b}:{gname}", {"tfs": [spec], "grids": [g], "calls": [[0, 0]]}))
    for a in (0.5, 1.0, 3.0):
        for b in (0.01, 0.04):
            k += 1
            for gname, g in grids(k):
                if max(abs(float(v)) for v in g["points"]) * b < 0.9 and b * (len(g["points"]) - 1) < 1:
                    out.append((f"inf-end:HyperbolicRTransform:({a},{b}):{gname}", {"tfs": [m._spec_tf("HyperbolicRTransform", [a, b])], "grids": [g], "calls": [[0, 0]]}))
    # InverseRTransform of the maps onto [rmin, inf): its domain is (rmin, inf) without trimming, (rmin, 1e16) with
    for cls in ("BeckeRTransform", "HandyRTransform", "KnowlesRTransform", "MultiExpRTransform"):
        for rmin in (0.0, 0.5, 1.0, 2.0):
            for R in (0.5, 1.0, 3.0):
                k += 1
                if not thorough and k % 2:
                    continue
                e = [1, 2, 3, 0.5, 2.5][k % 5]
                ps = [rmin, R] + ([e] if cls in ("HandyRTransform", "KnowlesRTransform") else [])
                for trim in (False, True):
                    pts, wts = _hand_half_line(rng, rmin)
                    if cls == "MultiExpRTransform" or rng.random() < 0.5:
                        pts = [p for p in pts if p > rmin] or [rmin + 1.0]      # keep some grids off the end r = rmin
                        wts = wts[:len(pts)]
                    g = m._spec_grid(pts, wts, (rmin, INF))
                    out.append((f"inf-end:inverse:{cls}:rmin={rmin}:R={R}:trim={trim}", {"tfs": [m._spec_tf(cls, ps, trim, inv=True)], "grids": [g], "calls": [[0, 0]]}))
    return out


def extreme_rule_scripts(rng, thorough=False):
    """class 19: half-infinite rules with many nodes (huge nodes, weights that overflow) through the half-line classes"""
    m = M()
    out = []
    for rule in sorted(m.INF_RULES):
        for n in ((21, 41, 81) if thorough else (rng.choice([21, 41]),)):
            if not m.INF_RULES[rule](n):
                n += 1
            g = m._spec_rule(rule, n)
            for cls in ("IdentityRTransform", "LinearInfiniteRTransform", "ExpRTransform", "PowerRTransform"):
                rmin, rmax = REGIMES[rng.randrange(len(REGIMES))]
                b = rng.choice([1.0, 10.0, float(n - 1)])
                ps = [] if cls == "IdentityRTransform" else [rmin, rmax, b]
                out.append((f"extreme-rule:{rule}({n}):{cls}", {"tfs": [m._spec_tf(cls, ps)], "grids": [g], "calls": [[0, 0]]}))
    return out


def size_scripts(rng):
    """classes 20 / 7: one and two nodes through every class; the size guard b (n - 1) >= 1 of Hyperbolic on both sides (the two-element
    domain array is guarded too: b >= 1 refuses every grid)"""
    m = M()
    out = []
    for cls in m.FINITE_TF + m.INF_TF:
        if cls == "HyperbolicRTransform":
            continue
        for inv in (False, True):
            for n in (1, 2):
                s, _ = m._r2_single(rng, cls, inv, rng.randrange(12), ends=False, m=n)
                out.append((f"size-{n}:{'inverse:' if inv else ''}{cls}", s))
    for n in (1, 2, 3, 6):
        for f in (0.5, 1 / 1.01, 1.0, 1.01, 2.0):
            b = f / max(n - 1, 1)
            pts = [round(0.1 * (i + 1) / b / (n + 1), 6) for i in range(n)]
            out.append((f"size-guard:HyperbolicRTransform:n={n}:b(n-1)x{f:.3g}", {"tfs": [m._spec_tf("HyperbolicRTransform", [rng.choice([0.5, 2.0]), b])],
                                                                                 "grids": [m._spec_grid(pts, [1.0] * n, (0.0, 0.5 / b))], "calls": [[0, 0]]}))
    return out


def param_kind_scripts(rng):
    """class 14: the numbers held inside the transform object as 0-d arrays / np.float32 / np.int64 (ptypes of c04_build_tf is extended here)"""
    m = M()
    out = []
    for cls in m.FINITE_TF + m.INF_TF:
        if cls == "IdentityRTransform":
            continue
        for kind in ("0d", "np.int64", "np.float32"):
            for inv in (False, True):
                if kind == "np.float32" and (cls in ("ExpRTransform", "PowerRTransform") or inv):
                    continue          # scalar sub-expressions of float32 parameters are evaluated in float32 (round 2)
                if kind == "np.int64" and cls == "HyperbolicRTransform":
                    continue
                s, _ = m._r2_single(rng, cls, inv, 0, ends=False, m=rng.choice([2, 3]), style="np.float64")
                s["tfs"][0]["ptypes"] = [kind] * len(s["tfs"][0]["ps"])
                out.append((f"param-kind:{'inverse:' if inv else ''}{cls}:{kind}", s))
    return out


def plain_scripts(rng, b_open=True):
    """one object, one accepted grid: every class, plain and wrapped (for the classes 15, 16, 17, 18)"""
    m = M()
    out = []
    for cls in m.FINITE_TF + m.INF_TF:
        for inv in (False, True):
            for style in ([None, "b_none"] if (b_open and cls in m.B_CLS) else [None]):      # b given and b left open, both in every run
                s, _ = m._r2_single(rng, cls, inv, rng.randrange(12), ends=False, m=rng.choice([2, 3, 4]), style=style)
                s["grids"][0]["weights"] = [abs(w) + 0.05 for w in s["grids"][0]["weights"]]
                out.append((f"{'inverse:' if inv else ''}{cls}" + (":b-open" if style else ""), s))
    return out


# ----------------------------------------------------------------------------------------------------------------
# stages
# ----------------------------------------------------------------------------------------------------------------
def _build_tf_0d(rt, spec):
    """c04_build_tf with the extra parameter kind '0d' (a 0-d float64 array)"""
    cast = {"0d": lambda p: np.array(float(p))}
    if not any(t in cast for t in spec.get("ptypes") or []):
        return _ns()["c04_build_tf"](rt, spec)
    m = M()
    C = getattr(rt, spec["cls"])
    args = [np.array(float(p)) for p in spec["ps"]]
    if spec["cls"] in m.HAS_TRIM:
        T = C(*args, trim_inf=bool(spec.get("trim")))
    elif spec["cls"] in m.B_CLS:
        T = C(args[0], args[1]) if spec.get("b_none") else C(args[0], args[1], b=args[2])
    else:
        T = C(*args)
    return rt.InverseRTransform(T) if spec.get("inv") else T


def _param_kinds(ctx, scripts):
    """the transform object built from 0-d arrays / np.int64 / np.float32 numbers: same answer as built from Python floats"""
    m = M()
    R, G = m.rt(), m.OneDGrid()
    ns = _ns()
    for cat, s in scripts:
        with m.part(ctx, "r4-param-kind:" + cat):
            spec, gs = s["tfs"][0], s["grids"][0]
            plain = dict(spec, ptypes=["float"] * len(spec["ps"]))
            with np.errstate(all="ignore"):
                try:
                    ref = ns["c04_build_tf"](R, plain).transform_1d_grid(ns["c04_build_grid"](G, gs))
                except (ValueError, ZeroDivisionError):
                    continue
                try:
                    h, tag = _build_tf_0d(R, spec).transform_1d_grid(ns["c04_build_grid"](G, gs)), "ok"
                except Exception as e:      # noqa: BLE001
                    h, tag = None, type(e).__name__
            ctx.tagc("oracle:r4:param-kind")
            f32 = "np.float32" in spec["ptypes"]
            ok = tag == "ok" and h.size == ref.size and all(
                m.close(float(a), float(b), rtol=2e-5 if f32 else 1e-12, atol=1e-300) or (float(a) != float(a) and float(b) != float(b)) or float(a) == float(b)
                for a, b in list(zip(h.points, ref.points)) + list(zip(h.weights, ref.weights)) + list(zip(h.domain, ref.domain)))
            if not ok:
                kind = spec["ptypes"][0]
                ctx.fail("oracle", f"rtransform.transform_1d_grid:{'Inverse:' if spec.get('inv') else ''}{spec['cls']}:parameter-kind",
                         f"[{cat}] {spec['cls']}{tuple(spec['ps'])} built from {kind} numbers: transform_1d_grid(OneDGrid({gs['points']}, {gs['weights']}, {gs['domain']})) "
                         + (f"raised {tag}" if tag != "ok" else f"gives points {h.points[:3].tolist()} weights {h.weights[:3].tolist()} domain {tuple(h.domain)}")
                         + f"; built from Python floats: points {ref.points[:3].tolist()} weights {ref.weights[:3].tolist()} domain {tuple(ref.domain)}",
                         witness={"category": cat, "script": s})


def corr_r4(ctx: Ctx):
    m = M()
    rng = ctx.rng
    part = m.part
    infs = inf_end_scripts(rng, ctx.thorough)
    ext = extreme_rule_scripts(rng, ctx.thorough)
    sizes = size_scripts(rng)
    with part(ctx, "r4-infinite-ends", "corr"):
        m._corr_scripts(ctx, infs, label="r4")
    with part(ctx, "r4-extreme-rules", "corr"):
        m._corr_scripts(ctx, ext, label="r4")
    with part(ctx, "r4-sizes", "corr"):
        m._corr_scripts(ctx, sizes, label="r4")


def _each(ctx, label, scripts, fn, call, tag):
    m = M()
    for cat, s in scripts:
        with m.part(ctx, f"r4-{label}:{cat}"):
            try:
                bad = fn(s)
            except (ValueError, ZeroDivisionError):
                ctx.tagc(f"oracle:r4:{tag}-inadmissible")
                continue
            ctx.tagc(f"oracle:r4:{tag}")
            seen = set()
            for b in bad:
                if b[0] not in seen:
                    seen.add(b[0])
                    _report(ctx, f"{label}:{cat}", s, [b], call)


def _property(ctx, scripts, label, max_nodes=8):
    """the 40-digit property check of c04.py on single-call scripts, with the listed keys for the two nan-domain findings"""
    m = M()
    hp = m._hp()
    R, G = m.rt(), m.OneDGrid()
    for cat, s in scripts:
        with m.part(ctx, f"r4-property:{cat}"):
            try:
                bad = m.c04_check_script(s, R, G, hp.HP, hp.hp_call, hp.mpmath, max_nodes=max_nodes)
            except ValueError:
                ctx.tagc(f"oracle:r4:{label}:inadmissible-script")
                continue
            ctx.tagc(f"oracle:r4:{label}:property")
            for kind, ci, msg in bad:
                if kind == "trim-overflow":
                    m._candidate(ctx, m.TRIM_KEY, f"[{cat}] {msg}")
                    continue
                ctx.fail("oracle", _key(m, s["tfs"][0], s["grids"][0], kind), f"[{cat}] {msg}", witness={"category": cat, "script": s, "kind": kind},
                         snippet=m._snippet_script(s, kind, max_nodes))


def oracle_r4(ctx: Ctx, budget: str):
    m = M()
    rng = ctx.rng
    large = budget == "large" or ctx.thorough
    R, G = m.rt(), m.OneDGrid()
    ns = _ns()

    def pick(lst, k):
        return lst if large or len(lst) <= k else rng.sample(lst, k)
    infs = inf_end_scripts(rng, large)
    ext = extreme_rule_scripts(rng, large)
    sizes = size_scripts(rng)
    kinds = param_kind_scripts(rng)
    plain = plain_scripts(rng)
    plain_b = plain_scripts(rng, b_open=False)
    # infinite ends, extreme rules, sizes: the domain clause without any reference map on every script, the 40-digit property on a part
    _each(ctx, "domain-clause", infs + ext + sizes, lambda s: ns["c04_r4_domain"](s, R, G), "c04_r4_domain(payload, rt, OneDGrid)", "domain-clause")
    _property(ctx, pick(infs, 60), "infinite-ends")
    _property(ctx, pick(sizes, 30), "sizes", max_nodes=4)
    # class 14
    _param_kinds(ctx, kinds)
    # class 15
    _each(ctx, "arguments", plain, lambda s: ns["c04_r4_args"](s, R, G), "c04_r4_args(payload, rt, OneDGrid)", "arguments")
    # class 16: two transform objects of matching domain on one grid made of views
    shared = []
    for i, (cat, s) in enumerate(plain_b):
        other = next((t for c2, t in plain_b[i + 1:] + plain_b[:i]
                      if not t["tfs"][0]["inv"] and not s["tfs"][0]["inv"] and (t["tfs"][0]["cls"] in m.FINITE_TF) == (s["tfs"][0]["cls"] in m.FINITE_TF)
                      and t["tfs"][0]["cls"] != "HyperbolicRTransform"), None)
        if other is not None and s["tfs"][0]["cls"] != "HyperbolicRTransform":
            shared.append((cat + "+" + other["tfs"][0]["cls"], {"tfs": [s["tfs"][0], other["tfs"][0]], "grids": s["grids"], "calls": []}))
    _each(ctx, "shared-argument", shared, lambda s: ns["c04_r4_shared"](s, R, G), "c04_r4_shared(payload, rt, OneDGrid)", "shared-argument")
    # class 17
    _each(ctx, "integrate", plain, lambda s: ns["c04_r4_integrate"](s, R, G), "c04_r4_integrate(payload, rt, OneDGrid)", "integrate-value-kind")
    # class 18
    _each(ctx, "trace", plain, lambda s: ns["c04_r4_trace"](s, R, G), "c04_r4_trace(payload, rt, OneDGrid)", "raise-leaves-trace")


def oracle_at_r4(ctx: Ctx, failure):
    """a correspondence disagreement on a single-call script: the reference-free domain clause at that input"""
    m = M()
    w = m._unjson(failure.witness or {})
    s = w.get("script") if isinstance(w, dict) else None
    if isinstance(s, dict) and len(s.get("tfs", [])) == 1 and s.get("calls") and s["calls"][-1][0] != "edit":
        one = {"tfs": s["tfs"], "grids": [s["grids"][s["calls"][-1][1]]], "calls": [[0, 0]]}
        if one["grids"][0].get("domain") is not None:
            _each(ctx, "domain-clause", [("at-disagreement", one)], lambda x: _ns()["c04_r4_domain"](x, m.rt(), m.OneDGrid()), "c04_r4_domain(payload, rt, OneDGrid)", "domain-clause")
